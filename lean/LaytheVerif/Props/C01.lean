import LaytheVerif.Gen.Pratt
import LaytheVerif.Model.PrattParser
import LaytheVerif.Model.Machine
import LaytheVerif.Model.Lower
import LaytheVerif.Lemmas.C01Ops
import LaytheVerif.Lemmas.C01Lower
import LaytheVerif.Lemmas.C01Pratt2
import LaytheVerif.Model.CallProtocol
import LaytheVerif.Gen.Natives
import LaytheVerif.Model.LayRef.Eval
/-!
# C01 — expressions, operators and control flow evaluate per the source semantics

* `Pratt_table_sane` **[G]** — by `decide` over the regenerated rule tables of `parser.rs` (`Gen/Pratt.lean`).
* `C01_ops_agree`, `C01_unops_agree` **[T]** — the operators written in `ops.rs` branch order (`Machine.binop`) equal the
  rule-oriented ones of `LayRef` for every operator and every pair of operands.
* `C01_lower_expr_correct` **[T]** — `Lower.expr` (from `compiler/mod.rs`, emitting the generated `Gen.Sym`) is correct
  w.r.t. the reference evaluator of the fragment: values, updated locals, errors, short circuit; unbounded nesting;
  arbitrary surrounding code with disjoint labels.
* `C01_pratt_roundtrip` **[T]** — the parser model driven by the generated tables parses every admissible rendering
  (at least the required parentheses) back to the same tree.
* `C01_call_protocol`, `C01_frame_bound` **[T]** — arity error / frame push / return placement / frame bound (`Gen.MAX_FRAME_SIZE`,
  test `>=` in `call_closure`, `call` and in front of the stub frame of `call_native`: `C01_frame_guard_text`).
* `C01_full` — whole-pipeline statement, **not proved**.  Not attempted: `C01_lower_stmt_correct` (statements, loops).
-/
set_option linter.unusedSimpArgs false
namespace LaytheVerif.C01
open LaytheVerif.Gen LaytheVerif.LayRef

/-! ## [G] the generated Pratt tables -/

/-- the operator table of `laythe.bnf` (LogicOr < LogicAnd < Equality < Comparison < Addition < Multiplication),
with `?:` below `||` as the README's examples use it -/
def documentedInfix : List (TokenKind × Infix × Precedence) :=
  [(.QuestionMark, .Ternary, .Ternary), (.Or, .Or, .Or), (.And, .And, .And),
   (.BangEqual, .Binary, .Equality), (.EqualEqual, .Binary, .Equality),
   (.Greater, .Binary, .Comparison), (.GreaterEqual, .Binary, .Comparison),
   (.Less, .Binary, .Comparison), (.LessEqual, .Binary, .Comparison),
   (.Minus, .Binary, .Term), (.Plus, .Binary, .Term),
   (.Slash, .Binary, .Factor), (.Star, .Binary, .Factor),
   (.LeftParen, .Call, .Call), (.LeftBracket, .Index, .Call), (.Dot, .Dot, .Call)]

/-- every check of the tables as one decidable statement -/
def prattTableSane : Bool :=
  -- `Precedence` order is the declaration order, `higher` is "next in that order" and undefined only on the last
  (Precedence.all.map Precedence.toNat == List.range Precedence.all.length) &&
  Precedence.all.all (fun p => match p.higher with
    | some q => q.toNat == p.toNat + 1
    | none => p == .Primary) &&
  -- the documented rows
  documentedInfix.all (fun (k, h, p) => infixRule k == (some h, p)) &&
  -- no other token has an infix handler, and rows without a handler never bind
  TokenKind.all.all (fun k => match infixRule k with
    | (some _, p) => p != .None && (documentedInfix.any fun r => r.1 == k)
    | (none, p) => p == .None) &&
  -- every token dispatched to `binary` / `unary` has an arm in their `match operator_kind` (no `unreachable!`)
  TokenKind.all.all (fun k => ((infixRule k).1 != some .Binary || (binaryOps.lookup k).isSome) &&
                             ((prefixRule k).1 != some .Unary || (unaryOps.lookup k).isSome)) &&
  -- what the handlers recurse at
  (recurseBinary == .higherOfOwn) && (recurseAnd == .fixed .And) && (recurseOr == .fixed .Or) &&
  (recurseUnary == .fixed .Unary) && (recurseTernaryThen == .expr) && (recurseTernaryElse == .expr) &&
  (exprPrecedence == .Assignment) &&
  -- the prefix rows of the operator fragment
  (prefixRule .Minus).1 == some .Unary && (prefixRule .Bang).1 == some .Unary &&
  (prefixRule .LeftParen).1 == some .Grouping && (prefixRule .Number).1 == some .Number &&
  (prefixRule .Identifier).1 == some .Variable &&
  [TokenKind.True, .False, .Nil].all (fun k => (prefixRule k).1 == some .Literal)

theorem Pratt_table_sane : prattTableSane = true := by decide

/-- consequence used by the parser model: `higher` strictly increases -/
theorem higher_increases (p q : Precedence) (h : p.higher = some q) : p.toNat < q.toNat := by
  cases p <;> simp [Precedence.higher] at h <;> subst h <;> decide

example : (infixRule .Star).2 = .Factor ∧ (infixRule .Plus).2 = .Term := by decide

/-! ## [T] the operators -/

theorem falsey_agree (v : Value) : Machine.isFalsey v = v.falsey := by
  cases v with
  | bool b => cases b <;> rfl
  | _ => rfl

theorem equals_agree (a b : Value) : Machine.valueEq a b = a.equals b := by
  cases a <;> cases b <;> simp [Machine.valueEq, Value.equals]

/-- **C01_ops_agree** (binary): for every operator and every pair of operands — nil, booleans, numbers (any
`Float`, arithmetic opaque), strings (any content), heap references (any identity) — the definition in
`ops.rs` branch order and the definition from the language rules give the same value or the same error. -/
theorem C01_ops_agree (op : BinOp) (a b : Value) : Machine.binop op a b = LayRef.binop op a b := by
  cases op <;> cases a <;> cases b <;>
    simp [Machine.binop, LayRef.binop, Machine.isNum, Machine.isStr, Machine.toNum, Machine.toStr, Machine.rtErr,
      Operands.of, errTwoNumbersOrStrings, errNumbers, errNumbersOrStrings, Machine.valueEq, Value.equals,
      Machine.strCmp, strLt, C01Ops.cmp_lt, C01Ops.cmp_gt, C01Ops.not_lt_iff, C01Ops.str_beq]
  all_goals
    first
    | rfl
    | (split <;> simp_all [eq_comm])

/-- **C01_ops_agree** (unary) -/
theorem C01_unops_agree (op : UnOp) (a : Value) : Machine.unop op a = LayRef.unop op a := by
  cases op <;> cases a <;>
    simp [Machine.unop, LayRef.unop, Machine.isNum, Machine.toNum, Machine.rtErr, errNumber, falsey_agree]

-- non-vacuity: both sides really compute
example : strLt "abc" "abd" = true ∧ strLt "ab" "abc" = true ∧ strLt "b" "abc" = false ∧ strLt "a" "a" = false := by decide
example : Machine.strCmp "abc" "abd" = .lt ∧ Machine.strCmp "b" "abc" = .gt ∧ Machine.strCmp "" "" = .eq := by decide
example : LayRef.binop .le (.str "b") (.str "a") = .ok (.bool false) := by
  simp [LayRef.binop, Operands.of]; decide
example : Machine.binop .lt (.num 1) (.str "a") = .error ("RuntimeError", "Operands must be numbers.") := by rfl
example : LayRef.binop .ge .nil (.bool true) = .error ("RuntimeError", "Operands must be numbers or strings.") := by rfl


/-! ## [T] lowering of expressions is correct -/

namespace Lowering
open LaytheVerif.Machine LaytheVerif.Lower LaytheVerif.C01Lower
open LaytheVerif.Gen (Sym)

/-- the constant indices in the expression point at their values in the chunk's table `K` -/
def ConstsOk (K : List Value) : FExpr → Prop
  | .const v idx => K[idx]? = some v
  | .group e | .un _ e | .assign _ _ e => ConstsOk K e
  | .bin _ a b | .and a b | .or a b => ConstsOk K a ∧ ConstsOk K b
  | .tern c t e => ConstsOk K c ∧ ConstsOk K t ∧ ConstsOk K e
  | _ => True

theorem step_binSym (K : List Value) (op : BinOp) (s : Machine.St) : step K (binSym op) s = binStep op s := by
  cases op <;> rfl

theorem step_unSym (K : List Value) (op : UnOp) (s : Machine.St) : step K (unSym op) s = unStep op s := by
  cases op <;> rfl

theorem step_const (K : List Value) (idx : Nat) (v : Value) (s : Machine.St) (h : K[idx]? = some v) :
    step K (constSym idx) s = .next { s with stack := v :: s.stack } := by
  unfold constSym
  split <;> simp [step, h]

/-- statement proved by induction for every expression of the fragment -/
def Correct (K : List Value) (e : FExpr) : Prop :=
  ∀ (n : Nat) (prog pre post : List Sym) (st : List Value) (env : Lower.Env),
    prog = pre ++ (expr e n).1 ++ post → (labelsOf prog).Nodup →
    (∀ v env', eval e env = .ok (v, env') → RunsTo K prog (expr e n).1 post ⟨st, env⟩ ⟨v :: st, env'⟩) ∧
    (∀ m, eval e env = .error m → Fails K prog (expr e n).1 post ⟨st, env⟩ m)

theorem correct_leaf {K : List Value} {e : FExpr} {i : Sym} {val : Lower.Env → Value}
    (hcode : ∀ n, expr e n = ([i], n)) (heval : ∀ env, eval e env = .ok (val env, env))
    (hstep : ∀ s : Machine.St, step K i s = .next { s with stack := val s.env :: s.stack }) : Correct K e := by
  intro n prog pre post st env _ _
  rw [hcode]
  constructor
  · intro v env' h
    rw [heval] at h
    injection h with h; injection h with h1 h2; subst h1; subst h2
    exact RunsTo.one (hstep _)
  · intro m h; rw [heval] at h; cases h

theorem correct_un {K : List Value} (op : UnOp) (a : FExpr) (iha : Correct K a) : Correct K (.un op a) := by
  intro n prog pre post st env hp hn
  obtain ⟨ha1, ha2⟩ := iha n prog pre ([unSym op] ++ post) st env (by simp [hp, expr, List.append_assoc]) hn
  have hcode : (expr (.un op a) n).1 = (expr a n).1 ++ [unSym op] := by simp [expr]
  rw [hcode]
  constructor
  · intro v env' h
    simp only [eval] at h
    split at h
    · cases h
    · next va env1 hea =>
      split at h
      · next r hr =>
        injection h with h; injection h with h1 h2; subst h1; subst h2
        refine (ha1 _ _ hea).trans (RunsTo.one ?_)
        rw [step_unSym]; simp [unStep, C01_unops_agree, hr]
      · cases h
  · intro m h
    simp only [eval] at h
    split at h
    · next m' hea => injection h with h; subst h; exact (ha2 _ hea).left
    · next va env1 hea =>
      split at h
      · cases h
      · next m' hr =>
        injection h with h; subst h
        refine (ha1 _ _ hea).fails (Fails.one ?_)
        rw [step_unSym]; simp [unStep, C01_unops_agree, hr]

theorem correct_bin {K : List Value} (op : BinOp) (a b : FExpr) (iha : Correct K a) (ihb : Correct K b) :
    Correct K (.bin op a b) := by
  intro n prog pre post st env hp hn
  have hcode : (expr (.bin op a b) n).1 = (expr a n).1 ++ ((expr b (expr a n).2).1 ++ [binSym op]) := by
    simp [expr, List.append_assoc]
  obtain ⟨ha1, ha2⟩ := iha n prog pre ((expr b (expr a n).2).1 ++ [binSym op] ++ post) st env
    (by rw [hp, hcode]; simp [List.append_assoc]) hn
  have hb := fun va env1 => ihb (expr a n).2 prog (pre ++ (expr a n).1) ([binSym op] ++ post) (va :: st) env1
    (by rw [hp, hcode]; simp [List.append_assoc]) hn
  rw [hcode]
  constructor
  · intro v env' h
    simp only [eval] at h
    split at h
    · cases h
    · next va env1 hea =>
      split at h
      · cases h
      · next vb env2 heb =>
        split at h
        · next r hr =>
          injection h with h; injection h with h1 h2; subst h1; subst h2
          have r1 := ha1 _ _ hea
          have r2 := (hb va env1).1 _ _ heb
          have r3 : RunsTo K prog [binSym op] post ⟨vb :: va :: st, env2⟩ ⟨r :: st, env2⟩ := by
            apply RunsTo.one; rw [step_binSym]; simp [binStep, C01_ops_agree, hr]
          have r23 := r2.trans r3
          exact r1.trans (by simpa [List.append_assoc] using r23)
        · cases h
  · intro m h
    simp only [eval] at h
    split at h
    · next m' hea =>
      injection h with h; subst h
      have h' := ha2 _ hea
      exact Fails.left (by simpa [List.append_assoc] using h')
    · next va env1 hea =>
      have r1 := ha1 _ _ hea
      split at h
      · next m' heb =>
        injection h with h; subst h
        have r2 := (hb va env1).2 _ heb
        exact r1.fails (by simpa [List.append_assoc] using r2.left)
      · next vb env2 heb =>
        split at h
        · cases h
        · next m' hr =>
          cases h
          have r2 := (hb va env1).1 _ _ heb
          have r3 : Fails K prog [binSym op] post ⟨vb :: va :: st, env2⟩ m := by
            apply Fails.one; rw [step_binSym]; simp [binStep, C01_ops_agree, hr]
          have r23 := r2.fails r3
          exact r1.fails (by simpa [List.append_assoc] using r23)

theorem correct_and {K : List Value} (a b : FExpr) (iha : Correct K a) (ihb : Correct K b) : Correct K (.and a b) := by
  intro n prog pre post st env hp hn
  generalize hl : (expr a n).2 = l at *
  generalize hcb : (expr b (l + 1)).1 = cb at *
  have hcode : (expr (.and a b) n).1 = (expr a n).1 ++ ([.And l] ++ (cb ++ [.Label l])) := by
    simp [expr, hl, hcb, List.append_assoc]
  obtain ⟨ha1, ha2⟩ := iha n prog pre ([.And l] ++ (cb ++ [.Label l]) ++ post) st env
    (by rw [hp, hcode]; simp [List.append_assoc]) hn
  have hb := fun env1 => ihb (l + 1) prog (pre ++ (expr a n).1 ++ [.And l]) ([.Label l] ++ post) st env1
    (by rw [hp, hcode, hcb]; simp [List.append_assoc]) hn
  have hafter : after l prog = post :=
    after_at prog (pre ++ (expr a n).1 ++ [.And l] ++ cb) post l
      (by rw [hp, hcode]; simp [List.append_assoc]) hn
  rw [hcode]
  constructor
  · intro v env' h
    simp only [eval] at h
    split at h
    · cases h
    · next va env1 hea =>
      have r1 := ha1 _ _ hea
      split at h
      · next hf =>
        injection h with h; injection h with h1 h2; subst h1; subst h2
        have r2 : RunsTo K prog ([.And l] ++ (cb ++ [.Label l])) post ⟨va :: st, env1⟩ ⟨va :: st, env1⟩ :=
          RunsTo.goto (by simp [step, falsey_agree, hf]) hafter
        exact r1.trans r2
      · next hf =>
        have r2 : RunsTo K prog [.And l] (cb ++ [.Label l] ++ post) ⟨va :: st, env1⟩ ⟨st, env1⟩ :=
          RunsTo.one (by simp [step, falsey_agree, hf])
        have r3 := (hb env1).1 _ _ h
        rw [hcb] at r3
        have r4 : RunsTo K prog [.Label l] post ⟨v :: st, env'⟩ ⟨v :: st, env'⟩ := RunsTo.one (by simp [step])
        have r34 := r3.trans r4
        have r234 := RunsTo.trans (by simpa [List.append_assoc] using r2) r34
        exact r1.trans (by simpa [List.append_assoc] using r234)
  · intro m h
    simp only [eval] at h
    split at h
    · next m' hea => cases h; exact (ha2 _ hea).left
    · next va env1 hea =>
      have r1 := ha1 _ _ hea
      split at h
      · cases h
      · next hf =>
        have r2 : RunsTo K prog [.And l] (cb ++ [.Label l] ++ post) ⟨va :: st, env1⟩ ⟨st, env1⟩ :=
          RunsTo.one (by simp [step, falsey_agree, hf])
        have r3 := (hb env1).2 _ h
        rw [hcb] at r3
        have r23 := RunsTo.fails (by simpa [List.append_assoc] using r2) r3.left
        exact r1.fails (by simpa [List.append_assoc] using r23)

theorem correct_or {K : List Value} (a b : FExpr) (iha : Correct K a) (ihb : Correct K b) : Correct K (.or a b) := by
  intro n prog pre post st env hp hn
  generalize hl : (expr a n).2 = l at *
  generalize hcb : (expr b (l + 1)).1 = cb at *
  have hcode : (expr (.or a b) n).1 = (expr a n).1 ++ ([.Or l] ++ (cb ++ [.Label l])) := by
    simp [expr, hl, hcb, List.append_assoc]
  obtain ⟨ha1, ha2⟩ := iha n prog pre ([.Or l] ++ (cb ++ [.Label l]) ++ post) st env
    (by rw [hp, hcode]; simp [List.append_assoc]) hn
  have hb := fun env1 => ihb (l + 1) prog (pre ++ (expr a n).1 ++ [.Or l]) ([.Label l] ++ post) st env1
    (by rw [hp, hcode, hcb]; simp [List.append_assoc]) hn
  have hafter : after l prog = post :=
    after_at prog (pre ++ (expr a n).1 ++ [.Or l] ++ cb) post l
      (by rw [hp, hcode]; simp [List.append_assoc]) hn
  rw [hcode]
  constructor
  · intro v env' h
    simp only [eval] at h
    split at h
    · cases h
    · next va env1 hea =>
      have r1 := ha1 _ _ hea
      split at h
      · next hf =>
        have r2 : RunsTo K prog [.Or l] (cb ++ [.Label l] ++ post) ⟨va :: st, env1⟩ ⟨st, env1⟩ :=
          RunsTo.one (by simp [step, falsey_agree, hf])
        have r3 := (hb env1).1 _ _ h
        rw [hcb] at r3
        have r4 : RunsTo K prog [.Label l] post ⟨v :: st, env'⟩ ⟨v :: st, env'⟩ := RunsTo.one (by simp [step])
        have r34 := r3.trans r4
        have r234 := RunsTo.trans (by simpa [List.append_assoc] using r2) r34
        exact r1.trans (by simpa [List.append_assoc] using r234)
      · next hf =>
        injection h with h; injection h with h1 h2; subst h1; subst h2
        have r2 : RunsTo K prog ([.Or l] ++ (cb ++ [.Label l])) post ⟨va :: st, env1⟩ ⟨va :: st, env1⟩ :=
          RunsTo.goto (by simp [step, falsey_agree, hf]) hafter
        exact r1.trans r2
  · intro m h
    simp only [eval] at h
    split at h
    · next m' hea => cases h; exact (ha2 _ hea).left
    · next va env1 hea =>
      have r1 := ha1 _ _ hea
      split at h
      · next hf =>
        have r2 : RunsTo K prog [.Or l] (cb ++ [.Label l] ++ post) ⟨va :: st, env1⟩ ⟨st, env1⟩ :=
          RunsTo.one (by simp [step, falsey_agree, hf])
        have r3 := (hb env1).2 _ h
        rw [hcb] at r3
        have r23 := RunsTo.fails (by simpa [List.append_assoc] using r2) r3.left
        exact r1.fails (by simpa [List.append_assoc] using r23)
      · cases h

theorem correct_tern {K : List Value} (c t e : FExpr) (ihc : Correct K c) (iht : Correct K t) (ihe : Correct K e) :
    Correct K (.tern c t e) := by
  intro n prog pre post st env hp hn
  generalize hlt : (expr c n).2 = lt at *
  generalize hct : (expr t (lt + 1)).1 = ct at *
  generalize hle : (expr t (lt + 1)).2 = le at *
  generalize hce : (expr e (le + 1)).1 = ce at *
  have hcode : (expr (.tern c t e) n).1 =
      (expr c n).1 ++ ([.JumpIfFalse lt] ++ (ct ++ ([.Jump le, .Label lt] ++ (ce ++ [.Label le])))) := by
    simp [expr, hlt, hct, hle, hce, List.append_assoc]
  obtain ⟨hc1, hc2⟩ := ihc n prog pre ([.JumpIfFalse lt] ++ (ct ++ ([.Jump le, .Label lt] ++ (ce ++ [.Label le]))) ++ post) st env
    (by rw [hp, hcode]; simp [List.append_assoc]) hn
  have ht := fun env1 => iht (lt + 1) prog (pre ++ (expr c n).1 ++ [.JumpIfFalse lt])
    ([.Jump le, .Label lt] ++ (ce ++ [.Label le]) ++ post) st env1
    (by rw [hp, hcode, hct]; simp [List.append_assoc]) hn
  have he := fun env1 => ihe (le + 1) prog (pre ++ (expr c n).1 ++ [.JumpIfFalse lt] ++ ct ++ [.Jump le, .Label lt])
    ([.Label le] ++ post) st env1
    (by rw [hp, hcode, hce]; simp [List.append_assoc]) hn
  have hafter_le : after le prog = post :=
    after_at prog (pre ++ (expr c n).1 ++ [.JumpIfFalse lt] ++ ct ++ [.Jump le, .Label lt] ++ ce) post le
      (by rw [hp, hcode]; simp [List.append_assoc]) hn
  have hafter_lt : after lt prog = ce ++ [.Label le] ++ post :=
    after_at prog (pre ++ (expr c n).1 ++ [.JumpIfFalse lt] ++ ct ++ [.Jump le]) (ce ++ [.Label le] ++ post) lt
      (by rw [hp, hcode]; simp [List.append_assoc]) hn
  rw [hcode]
  have lblEnd : ∀ (v : Value) (env' : Lower.Env), RunsTo K prog [.Label le] post ⟨v :: st, env'⟩ ⟨v :: st, env'⟩ :=
    fun v env' => RunsTo.one (by simp [step])
  constructor
  · intro v env' h
    simp only [eval] at h
    split at h
    · cases h
    · next vc env1 hec =>
      have r1 := hc1 _ _ hec
      split at h
      · next hf =>
        have r2 : RunsTo K prog ([.JumpIfFalse lt] ++ (ct ++ [.Jump le, .Label lt])) (ce ++ [.Label le] ++ post)
            ⟨vc :: st, env1⟩ ⟨st, env1⟩ := RunsTo.goto (by simp [step, falsey_agree, hf]) hafter_lt
        have r3 := (he env1).1 _ _ h
        rw [hce] at r3
        have r34 := r3.trans (lblEnd v env')
        have r234 := RunsTo.trans (by simpa [List.append_assoc] using r2) r34
        exact r1.trans (by simpa [List.append_assoc] using r234)
      · next hf =>
        have r2 : RunsTo K prog [.JumpIfFalse lt] (ct ++ ([.Jump le, .Label lt] ++ (ce ++ [.Label le])) ++ post)
            ⟨vc :: st, env1⟩ ⟨st, env1⟩ := RunsTo.one (by simp [step, falsey_agree, hf])
        have r3 := (ht env1).1 _ _ h
        rw [hct] at r3
        have r4 : RunsTo K prog ([.Jump le, .Label lt] ++ (ce ++ [.Label le])) post ⟨v :: st, env'⟩ ⟨v :: st, env'⟩ :=
          RunsTo.goto (by simp [step]) hafter_le
        have r34 := RunsTo.trans (by simpa [List.append_assoc] using r3) r4
        have r234 := RunsTo.trans (by simpa [List.append_assoc] using r2) r34
        exact r1.trans (by simpa [List.append_assoc] using r234)
  · intro m h
    simp only [eval] at h
    split at h
    · next m' hec => cases h; exact (hc2 _ hec).left
    · next vc env1 hec =>
      have r1 := hc1 _ _ hec
      split at h
      · next hf =>
        have r2 : RunsTo K prog ([.JumpIfFalse lt] ++ (ct ++ [.Jump le, .Label lt])) (ce ++ [.Label le] ++ post)
            ⟨vc :: st, env1⟩ ⟨st, env1⟩ := RunsTo.goto (by simp [step, falsey_agree, hf]) hafter_lt
        have r3 := (he env1).2 _ h
        rw [hce] at r3
        have r23 := RunsTo.fails (by simpa [List.append_assoc] using r2) r3.left
        exact r1.fails (by simpa [List.append_assoc] using r23)
      · next hf =>
        have r2 : RunsTo K prog [.JumpIfFalse lt] (ct ++ ([.Jump le, .Label lt] ++ (ce ++ [.Label le])) ++ post)
            ⟨vc :: st, env1⟩ ⟨st, env1⟩ := RunsTo.one (by simp [step, falsey_agree, hf])
        have r3 := (ht env1).2 _ h
        rw [hct] at r3
        have r3' : Fails K prog (ct ++ ([.Jump le, .Label lt] ++ (ce ++ [.Label le]))) post ⟨st, env1⟩ m :=
          Fails.left (by simpa [List.append_assoc] using r3)
        have r23 := RunsTo.fails (by simpa [List.append_assoc] using r2) r3'
        exact r1.fails (by simpa [List.append_assoc] using r23)

theorem correct_group {K : List Value} (a : FExpr) (iha : Correct K a) : Correct K (.group a) := by
  intro n prog pre post st env hp hn
  have := iha n prog pre post st env (by simpa [expr] using hp) hn
  simpa [expr, eval] using this

theorem correct_assign {K : List Value} (op : AssignOp) (s : Nat) (a : FExpr) (iha : Correct K a) :
    Correct K (.assign op s a) := by
  intro n prog pre post st env hp hn
  cases hop : op.binop with
  | none =>
    have hcode : (expr (.assign op s a) n).1 = (expr a n).1 ++ [.SetLocal s] := by simp [expr, hop]
    obtain ⟨ha1, ha2⟩ := iha n prog pre ([.SetLocal s] ++ post) st env (by rw [hp, hcode]; simp [List.append_assoc]) hn
    rw [hcode]
    constructor
    · intro v env' h
      simp only [eval, hop] at h
      split at h
      · cases h
      · next va env1 hea =>
        injection h with h; injection h with h1 h2; subst h1; subst h2
        exact (ha1 _ _ hea).trans (RunsTo.one (by simp [step]; rfl))
    · intro m h
      simp only [eval, hop] at h
      split at h
      · next m' hea => cases h; exact (ha2 _ hea).left
      · cases h
  | some bop =>
    have hcode : (expr (.assign op s a) n).1 = [.GetLocal s] ++ ((expr a n).1 ++ ([binSym bop] ++ [.SetLocal s])) := by
      simp [expr, hop, List.append_assoc]
    obtain ⟨ha1, ha2⟩ := iha n prog (pre ++ [.GetLocal s]) ([binSym bop] ++ [.SetLocal s] ++ post) (env s :: st) env
      (by rw [hp, hcode]; simp [List.append_assoc]) hn
    have r0 : RunsTo K prog [.GetLocal s] ((expr a n).1 ++ ([binSym bop] ++ [.SetLocal s]) ++ post) ⟨st, env⟩ ⟨env s :: st, env⟩ :=
      RunsTo.one (by simp [step])
    rw [hcode]
    constructor
    · intro v env' h
      simp only [eval, hop] at h
      split at h
      · cases h
      · next va env1 hea =>
        split at h
        · next r hr =>
          injection h with h; injection h with h1 h2; subst h1; subst h2
          have r1 := ha1 _ _ hea
          have r2 : RunsTo K prog [binSym bop] ([.SetLocal s] ++ post) ⟨va :: env s :: st, env1⟩ ⟨r :: st, env1⟩ := by
            apply RunsTo.one; rw [step_binSym]; simp [binStep, C01_ops_agree, hr]
          have r3 : RunsTo K prog [.SetLocal s] post ⟨r :: st, env1⟩ ⟨r :: st, env1.set s r⟩ :=
            RunsTo.one (by simp [step]; rfl)
          have r23 := r2.trans r3
          have r123 := RunsTo.trans (by simpa [List.append_assoc] using r1) r23
          exact r0.trans (by simpa [List.append_assoc] using r123)
        · cases h
    · intro m h
      simp only [eval, hop] at h
      split at h
      · next m' hea =>
        cases h
        have h' := ha2 _ hea
        exact r0.fails (Fails.left (by simpa [List.append_assoc] using h'))
      · next va env1 hea =>
        split at h
        · cases h
        · next m' hr =>
          cases h
          have r1 := ha1 _ _ hea
          have r2 : Fails K prog [binSym bop] ([.SetLocal s] ++ post) ⟨va :: env s :: st, env1⟩ m := by
            apply Fails.one; rw [step_binSym]; simp [binStep, C01_ops_agree, hr]
          have r12 := RunsTo.fails (by simpa [List.append_assoc] using r1) r2.left
          exact r0.fails (by simpa [List.append_assoc] using r12)

/-- every expression of the fragment is lowered correctly, whatever surrounds it -/
theorem correct_all (K : List Value) (e : FExpr) (hk : ConstsOk K e) : Correct K e := by
  induction e with
  | const v idx =>
    exact correct_leaf (i := constSym idx) (val := fun _ => v) (fun n => by simp [expr]) (fun env => by simp [eval])
      (fun s => step_const K idx v s hk)
  | nil => exact correct_leaf (i := .Nil) (val := fun _ => .nil) (fun n => by simp [expr]) (fun env => by simp [eval]) (fun s => by simp [step])
  | true_ => exact correct_leaf (i := .True) (val := fun _ => .bool true) (fun n => by simp [expr]) (fun env => by simp [eval]) (fun s => by simp [step])
  | false_ => exact correct_leaf (i := .False) (val := fun _ => .bool false) (fun n => by simp [expr]) (fun env => by simp [eval]) (fun s => by simp [step])
  | local_ s => exact correct_leaf (i := .GetLocal s) (val := fun env => env s) (fun n => by simp [expr]) (fun env => by simp [eval]) (fun s => by simp [step])
  | group a iha => exact correct_group a (iha hk)
  | un op a iha => exact correct_un op a (iha hk)
  | bin op a b iha ihb => exact correct_bin op a b (iha hk.1) (ihb hk.2)
  | and a b iha ihb => exact correct_and a b (iha hk.1) (ihb hk.2)
  | or a b iha ihb => exact correct_or a b (iha hk.1) (ihb hk.2)
  | tern c t e ihc iht ihe => exact correct_tern c t e (ihc hk.1) (iht hk.2.1) (ihe hk.2.2)
  | assign op s a iha => exact correct_assign op s a (iha hk)

/-! labels drawn by the lowering are fresh: they lie in `[n, n')` and are pairwise different -/

theorem labels_fresh (e : FExpr) : ∀ n, n ≤ (expr e n).2 ∧ (labelsOf (expr e n).1).Nodup ∧
    ∀ l ∈ labelsOf (expr e n).1, n ≤ l ∧ l < (expr e n).2 := by
  induction e with
  | const v idx => intro n; simp [expr, constSym]; split <;> simp [labelsOf]
  | nil => intro n; simp [expr, labelsOf]
  | true_ => intro n; simp [expr, labelsOf]
  | false_ => intro n; simp [expr, labelsOf]
  | local_ s => intro n; simp [expr, labelsOf]
  | group a iha => intro n; simpa [expr] using iha n
  | un op a iha =>
    intro n
    obtain ⟨h1, h2, h3⟩ := iha n
    have : labelsOf [unSym op] = [] := by cases op <;> rfl
    simp [expr, labelsOf_append, this, h1, h2]
    exact h3
  | bin op a b iha ihb =>
    intro n
    obtain ⟨a1, a2, a3⟩ := iha n
    obtain ⟨b1, b2, b3⟩ := ihb (expr a n).2
    have : labelsOf [binSym op] = [] := by cases op <;> rfl
    simp only [expr, labelsOf_append, this, List.append_nil]
    refine ⟨by omega, ?_, ?_⟩
    · rw [List.nodup_append]
      refine ⟨a2, b2, ?_⟩
      intro x hx y hy hxy
      have := a3 x hx; have := b3 y hy; omega
    · intro l hl
      rw [List.mem_append] at hl
      rcases hl with hl | hl
      · have := a3 l hl; omega
      · have := b3 l hl; omega
  | and a b iha ihb =>
    intro n
    obtain ⟨a1, a2, a3⟩ := iha n
    obtain ⟨b1, b2, b3⟩ := ihb ((expr a n).2 + 1)
    simp only [expr, labelsOf_append, labelsOf, List.append_nil]
    refine ⟨by omega, ?_, ?_⟩
    · simp only [List.append_assoc, List.nodup_append, List.nodup_cons, List.mem_append, List.mem_cons, List.mem_singleton]
      refine ⟨a2, ⟨b2, by simp, ?_⟩, ?_⟩
      · intro x hx y hy hxy
        simp at hy; have := b3 x hx; omega
      · intro x hx y hy hxy
        have := a3 x hx
        rcases hy with hy | hy
        · have := b3 y hy; omega
        · simp at hy; omega
    · intro l hl
      simp only [List.mem_append, List.mem_singleton, List.append_assoc] at hl
      rcases hl with hl | hl | hl
      · have := a3 l hl; omega
      · have := b3 l hl; omega
      · omega
  | or a b iha ihb =>
    intro n
    obtain ⟨a1, a2, a3⟩ := iha n
    obtain ⟨b1, b2, b3⟩ := ihb ((expr a n).2 + 1)
    simp only [expr, labelsOf_append, labelsOf, List.append_nil]
    refine ⟨by omega, ?_, ?_⟩
    · simp only [List.append_assoc, List.nodup_append, List.nodup_cons, List.mem_append, List.mem_cons, List.mem_singleton]
      refine ⟨a2, ⟨b2, by simp, ?_⟩, ?_⟩
      · intro x hx y hy hxy
        simp at hy; have := b3 x hx; omega
      · intro x hx y hy hxy
        have := a3 x hx
        rcases hy with hy | hy
        · have := b3 y hy; omega
        · simp at hy; omega
    · intro l hl
      simp only [List.mem_append, List.mem_singleton, List.append_assoc] at hl
      rcases hl with hl | hl | hl
      · have := a3 l hl; omega
      · have := b3 l hl; omega
      · omega
  | tern c t e ihc iht ihe =>
    intro n
    obtain ⟨c1, c2, c3⟩ := ihc n
    obtain ⟨t1, t2, t3⟩ := iht ((expr c n).2 + 1)
    obtain ⟨e1, e2, e3⟩ := ihe ((expr t ((expr c n).2 + 1)).2 + 1)
    generalize hlc : (expr c n).2 = lc at *
    generalize hlt : (expr t (lc + 1)).2 = lt at *
    generalize hLc : labelsOf (expr c n).1 = Lc at *
    generalize hLt : labelsOf (expr t (lc + 1)).1 = Lt at *
    generalize hLe : labelsOf (expr e (lt + 1)).1 = Le at *
    have hlabels : labelsOf (expr (.tern c t e) n).1 = Lc ++ (Lt ++ (lc :: (Le ++ [lt]))) := by
      simp [expr, labelsOf_append, labelsOf, hlc, hlt, hLc, hLt, hLe, List.append_assoc]
    have hnext : (expr (.tern c t e) n).2 = (expr e (lt + 1)).2 := by simp [expr, hlc, hlt]
    rw [hlabels, hnext]
    refine ⟨by omega, ?_, ?_⟩
    · rw [List.nodup_append]
      refine ⟨c2, ?_, ?_⟩
      · rw [List.nodup_append]
        refine ⟨t2, ?_, ?_⟩
        · rw [List.nodup_cons]
          refine ⟨?_, ?_⟩
          · intro hmem
            rw [List.mem_append] at hmem
            rcases hmem with h | h
            · have := e3 lc h; omega
            · simp at h; omega
          · rw [List.nodup_append]
            refine ⟨e2, by simp, ?_⟩
            intro x hx y hy hxy
            simp at hy; have := e3 x hx; omega
        · intro x hx y hy hxy
          have := t3 x hx
          rw [List.mem_cons, List.mem_append] at hy
          rcases hy with h | h | h
          · omega
          · have := e3 y h; omega
          · simp at h; omega
      · intro x hx y hy hxy
        have := c3 x hx
        rw [List.mem_append, List.mem_cons, List.mem_append] at hy
        rcases hy with h | h | h | h
        · have := t3 y h; omega
        · omega
        · have := e3 y h; omega
        · simp at h; omega
    · intro l hl
      rw [List.mem_append, List.mem_append, List.mem_cons, List.mem_append] at hl
      rcases hl with h | h | h | h | h
      · have := c3 l h; omega
      · have := t3 l h; omega
      · omega
      · have := e3 l h; omega
      · simp at h; omega
  | assign op s a iha =>
    intro n
    obtain ⟨h1, h2, h3⟩ := iha n
    cases hop : op.binop with
    | none => simp [expr, hop, labelsOf_append, labelsOf, h1, h2]; exact h3
    | some bop =>
      have : labelsOf [binSym bop, Sym.SetLocal s] = [] := by cases bop <;> rfl
      simp [expr, hop, labelsOf_append, labelsOf, this, h1, h2]; exact h3

end Lowering

open Lowering in
/-- **C01_lower_expr_correct** — for every expression `e` of the operator fragment (literals, locals, grouping,
unary, arithmetic, comparison, equality, `&&`/`||`, ternary, assignment and compound assignment; unbounded nesting),
every label-emitter state `n`, embedded in arbitrary surrounding code `pre`/`post` whose labels are unique and outside
the range `Lower.expr` draws from, every constant table that holds the literals at their indices, every stack of
temporaries `st` and every frame `env`: the machine runs through `Lower.expr e n` and arrives at its end with the
value `Lower.eval e env` pushed on the unchanged stack and the locals updated as the evaluator says — or raises the
same error.  (`RunsTo`/`Fails` quantify over all sufficiently large fuel.) -/
theorem C01_lower_expr_correct (K : List Value) (e : Lower.FExpr) (hk : ConstsOk K e) (n : Nat)
    (pre post : List Gen.Sym) (st : List Value) (env : Lower.Env)
    (hsur : (Machine.labelsOf (pre ++ post)).Nodup)
    (hdisj : ∀ l ∈ Machine.labelsOf (pre ++ post), l < n ∨ (Lower.expr e n).2 ≤ l) :
    (∀ v env', Lower.eval e env = .ok (v, env') →
      C01Lower.RunsTo K (pre ++ (Lower.expr e n).1 ++ post) (Lower.expr e n).1 post ⟨st, env⟩ ⟨v :: st, env'⟩) ∧
    (∀ m, Lower.eval e env = .error m →
      C01Lower.Fails K (pre ++ (Lower.expr e n).1 ++ post) (Lower.expr e n).1 post ⟨st, env⟩ m) := by
  obtain ⟨_, f2, f3⟩ := labels_fresh e n
  refine correct_all K e hk n _ pre post st env rfl ?_
  simp only [C01Lower.labelsOf_append] at hsur hdisj ⊢
  rw [List.nodup_append] at hsur
  obtain ⟨hpre, hpost, hpp⟩ := hsur
  rw [List.append_assoc, List.nodup_append]
  refine ⟨hpre, ?_, ?_⟩
  · rw [List.nodup_append]
    refine ⟨f2, hpost, ?_⟩
    intro x hx y hy hxy
    have := f3 x hx
    have := hdisj y (List.mem_append.mpr (Or.inr hy))
    omega
  · intro x hx y hy hxy
    rw [List.mem_append] at hy
    rcases hy with hy | hy
    · have := f3 y hy
      have := hdisj x (List.mem_append.mpr (Or.inl hx))
      omega
    · exact hpp x hx y hy hxy

namespace Lowering

-- non-vacuity: a constant table and an expression that meet the hypotheses, and the run the theorem predicts
example : ConstsOk [.num 2.5, .str "k"] (.bin .add (.const (.num 2.5) 0) (.tern .nil (.const (.str "k") 1) (.local_ 3))) := by
  simp [ConstsOk]

example (env : Lower.Env) :
    let e : Lower.FExpr := .tern (.un .not .nil) (.or .false_ (.assign .set 2 .true_)) .nil
    C01Lower.RunsTo [] ([.Label 7] ++ (Lower.expr e 0).1 ++ [.Drop]) (Lower.expr e 0).1 [.Drop] ⟨[], env⟩
      ⟨[.bool true], env.set 2 (.bool true)⟩ := by
  intro e
  have h := (C01_lower_expr_correct [] e (by simp [e, ConstsOk]) 0 [.Label 7] [.Drop] [] env
    (by simp [Machine.labelsOf]) (by simp [Machine.labelsOf, e, Lower.expr, AssignOp.binop])).1
  exact h _ _ rfl

end Lowering




/-! ## [T] the Pratt parser reads every admissible rendering back -/

/-- **C01_pratt_roundtrip** — for every expression of the operator fragment (numbers, identifiers, `true`/`false`/`nil`,
grouping, unary `-`/`!`, the ten binary operators, `&&`, `||`, `?:`, `=` and the compound assignments; unbounded nesting)
and every rendering that keeps at least the required parentheses (`Pratt.wf`, computed from the generated rule table —
the minimal rendering, the fully parenthesised one and everything in between): the parser model, driven by the generated
tables, parses the token sequence of the rendering back to exactly that tree (`group` nodes included). -/
theorem C01_pratt_roundtrip (e : Pratt.PExpr) (hw : Pratt.wf e = true) : Pratt.parse (Pratt.tokensOf e) = some e := by
  have habs := Pratt.absorbs_all e hw
  have h1 : Pratt.parsePrec (1 + Pratt.K e) exprPrecedence (Pratt.tokensOf e ++ []) = some (e, []) :=
    habs exprPrecedence [] 1 (e, []) (by decide) (by simpa [exprPrecedence, Precedence.toNat] using Pratt.lvl_pos hw) rfl
      (Pratt.loop_stop exprPrecedence e [] rfl)
  have hK := Pratt.K_le e
  have h2 := Pratt.parsePrec_mono h1 (show 1 + Pratt.K e ≤ 4 * (Pratt.tokensOf e).length + 4 by omega)
  simp only [List.append_nil] at h2
  simp [Pratt.parse, h2]

-- non-vacuity: minimal, redundant and fully parenthesised renderings are admissible; a rendering that drops a required
-- parenthesis is not, and indeed parses to a different tree
example : Pratt.wf (.binary .Star (.group (.binary .Plus (.ident "a") (.num "1"))) (.unary .Minus (.ident "b"))) = true := by decide
example : Pratt.wf (.ternary (.or (.ident "a") (.ident "b")) (.assign "x" .PlusEqual (.num "1")) (.ternary (.lit .Nil) (.num "2") (.num "3"))) = true := by decide
example : Pratt.wf (.and (.ident "a") (.and (.ident "b") (.ident "c"))) = true ∧ Pratt.wf (.and (.and (.ident "a") (.ident "b")) (.ident "c")) = false := by decide
example : Pratt.wf (.binary .Star (.binary .Plus (.ident "a") (.num "1")) (.ident "b")) = false := by decide
example : Pratt.parse (Pratt.tokensOf (.binary .Star (.binary .Plus (.ident "a") (.num "1")) (.ident "b")))
    = some (.binary .Plus (.ident "a") (.binary .Star (.num "1") (.ident "b"))) := by decide


/-! ## [T] the call protocol -/

namespace Calls
open LaytheVerif.CallProtocol

/-- **C01_call_protocol** — for every fiber (any value stack `pre`, any frame stack), every callee of arity `n`, every
argument list and every result:
1. `Call m` with `m ≠ n` raises the arity error and pushes no frame (the result is the error, there is no new state);
2. with `m = n` and room for a frame, exactly one frame is pushed, its slots 0..n are the callee and the arguments, the
   value stack is untouched; and whatever the body leaves above the arguments (`work`), a `Return` of `result` gives the
   caller its old stack with callee and arguments replaced by exactly `result`, and the caller's frames — hence its `ip`,
   the instruction after the call — are as before;
3. the number of frames never exceeds `Gen.MAX_FRAME_SIZE`: at (or above) the limit the call raises "Stack overflow."
   instead (`C01_frame_bound`: the same holds for the stub frame of a stack-using native). -/
theorem C01_call_protocol (fn : Nat) (name : String) (n m : Nat) (pre args work : List Value) (callee result : Value)
    (frames : List Frame) (hargs : args.length = m) :
    let fb : Fiber := ⟨pre ++ callee :: args, frames⟩
    (m ≠ n → CallProtocol.callClosure fn name n m fb = .error (arityError name n m)) ∧
    (m = n → frames.length ≥ Gen.MAX_FRAME_SIZE → CallProtocol.callClosure fn name n m fb = .error ("RuntimeError", "Stack overflow.")) ∧
    (m = n → frames.length < Gen.MAX_FRAME_SIZE → frames ≠ [] →
      ∃ fb', CallProtocol.callClosure fn name n m fb = .ok fb' ∧
        fb'.stack = fb.stack ∧ fb'.frames = ⟨fn, pre.length, 0⟩ :: frames ∧
        fb'.frames.length ≤ Gen.MAX_FRAME_SIZE ∧
        opReturn { fb' with stack := fb'.stack ++ work ++ [result] } = some ⟨pre ++ [result], frames⟩) := by
  intro fb
  refine ⟨?_, ?_, ?_⟩
  · intro hne; simp [CallProtocol.callClosure, hne]
  · intro he hfull; simp [CallProtocol.callClosure, he, hfull, fb]
  · intro he hlt hne
    have hstart : (pre ++ callee :: args).length - (m + 1) = pre.length := by simp [hargs]
    refine ⟨⟨pre ++ callee :: args, ⟨fn, pre.length, 0⟩ :: frames⟩, ?_, rfl, rfl, ?_, ?_⟩
    · have : ¬ Gen.MAX_FRAME_SIZE ≤ frames.length := by omega
      simp [CallProtocol.callClosure, he, this, fb]
      omega
    · simp; omega
    · cases frames with
      | nil => exact absurd rfl hne
      | cons c rest =>
        have hs : (pre ++ callee :: args) ++ work ++ [result] = (pre ++ (callee :: args ++ work)) ++ [result] := by simp
        have hlast : ((pre ++ (callee :: args ++ work)) ++ [result]).getLast? = some result :=
          List.getLast?_concat
        have htake : ((pre ++ (callee :: args ++ work)) ++ [result]).take pre.length = pre := by
          rw [List.append_assoc]; simp
        simp only [CallProtocol.opReturn, hs, hlast, htake]

-- non-vacuity: a concrete call and return
example : (CallProtocol.callClosure 7 "f" 2 2 ⟨[.nil, .str "f", .bool true, .bool false], [⟨0, 0, 5⟩]⟩).toOption.map (·.frames) =
    some [⟨7, 1, 0⟩, ⟨0, 0, 5⟩] := by decide
example : CallProtocol.callClosure 7 "f" 2 1 ⟨[.str "f", .nil], [⟨0, 0, 5⟩]⟩ = .error ("RuntimeError", "f expected 2 argument(s) but received 1.") := by
  simp [CallProtocol.callClosure, CallProtocol.arityError]; decide

/-- the text of the three frame-limit tests of ops.rs (`Gen/FrameLimit.lean`): all three compare with `>=` -/
theorem C01_frame_guard_text :
    Gen.frameLimitGuards = [("call_native", ">="), ("call_closure", ">="), ("call", ">=")] := by decide

/-- **C01_frame_bound** — neither a Laythe call nor the stub frame of a stack-using native takes a fiber above
`Gen.MAX_FRAME_SIZE` frames: from a fiber within the bound every successful push stays within it, and from *any* fiber at
or above the bound both are refused with "Stack overflow." (the test is `>=`, it cannot be stepped over). -/
theorem C01_frame_bound (fn : Nat) (name : String) (n m : Nat) (fb : Fiber) :
    (∀ fb', fb.frames.length ≤ Gen.MAX_FRAME_SIZE → CallProtocol.callClosure fn name n m fb = .ok fb' →
        fb'.frames.length ≤ Gen.MAX_FRAME_SIZE) ∧
    (∀ fb', fb.frames.length ≤ Gen.MAX_FRAME_SIZE → CallProtocol.pushNativeStub fn m fb = .ok fb' →
        fb'.frames.length ≤ Gen.MAX_FRAME_SIZE ∧ fb'.stack = fb.stack) ∧
    (fb.frames.length ≥ Gen.MAX_FRAME_SIZE → m = n →
        CallProtocol.callClosure fn name n m fb = .error ("RuntimeError", "Stack overflow.")) ∧
    (fb.frames.length ≥ Gen.MAX_FRAME_SIZE →
        CallProtocol.pushNativeStub fn m fb = .error ("RuntimeError", "Stack overflow.")) := by
  refine ⟨?_, ?_, ?_, ?_⟩
  · intro fb' _ h
    unfold CallProtocol.callClosure at h
    by_cases hm : m ≠ n
    · simp [hm] at h
    · by_cases hg : fb.frames.length ≥ Gen.MAX_FRAME_SIZE
      · simp [hm, hg] at h
      · simp [hm, hg] at h; subst h; simp; omega
  · intro fb' _ h
    unfold CallProtocol.pushNativeStub at h
    by_cases hg : fb.frames.length ≥ Gen.MAX_FRAME_SIZE
    · simp [hg] at h
    · simp [hg] at h; subst h; simp; omega
  · intro hg he; simp [CallProtocol.callClosure, he, hg]
  · intro hg; simp [CallProtocol.pushNativeStub, hg]

-- non-vacuity: a fiber with 255 frames refuses both, one with 254 admits the stub frame
set_option maxRecDepth 8000 in
example : (CallProtocol.pushNativeStub 9 1 ⟨[.nil, .nil], List.replicate 255 ⟨0, 0, 0⟩⟩).toOption.map (·.frames.length) = none := by
  decide
set_option maxRecDepth 8000 in
example : (CallProtocol.pushNativeStub 9 1 ⟨[.nil, .nil], List.replicate 254 ⟨0, 0, 0⟩⟩).toOption.map (·.frames.length) = some 255 := by
  decide

end Calls

/-- the reference interpreter counts a stub frame for exactly the natives the regenerated table declares `.with_stack()`:
for every registered global native that `LayRef` implements, the table's flag is `LayRef.nativeUsesStack`, or it is the
`str` of a list, map or tuple (counted per level of nesting in `LayRef.strOf`) -/
theorem C01_layref_stack_natives :
    ∀ r ∈ Gen.natives, r.module = "" → (LayRef.nativeSig r.owner r.name).isSome = true →
      r.stack = (LayRef.nativeUsesStack r.owner r.name || (r.name == "str" && ["List", "Map", "Tuple"].contains r.owner)) := by
  decide +kernel

/-- the reference interpreter uses the same call-depth bound as the generated constant -/
theorem layref_frame_limit : LayRef.maxFrames = Gen.MAX_FRAME_SIZE := by decide

/-! ## the whole pipeline (not proved) -/

/-- `C01_full`: for every well-formed program of the core grammar, running the encoded, optimised lowering of the
parse on the bytecode machine gives the observable behaviour the reference interpreter gives.  The functions
`Machine.run`, `encode`, `peephole`, `Lower.program` for the *whole* grammar and a total `LayRef.run` do not exist
as Lean definitions; the statement is recorded over abstract ones.  **Not proved**: the check covers it by the
sampled stream `layref` vs `run` and by the component theorems above. -/
def C01_full : Prop :=
  ∀ (Program Code Obs : Type) (parse : String → Option Program) (lower : Program → Code) (optimise encode : Code → Code)
    (machineRun : Code → Obs) (layrefRun : Program → Obs) (src : String) (p : Program),
    parse src = some p → machineRun (encode (optimise (lower p))) = layrefRun p

end LaytheVerif.C01
