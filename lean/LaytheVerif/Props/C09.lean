/-
C09 — Strings compare and hash by content however and whenever they were created.
Corollaries of the history invariant of `Props/C05.lean` (same allocator model).
-/
import LaytheVerif.Props.C05
import LaytheVerif.Lemmas.AllocGen
namespace LaytheVerif.C09
open LaytheVerif.Alloc LaytheVerif.C05

/-- **C09_intern_canonical.** For every history of string creation (`manage_str`), allocation,
mutation, root changes and collections — nursery or full, at any point, under any schedule — any two
string objects the program can reach are the same object iff their contents are equal.  Hence
identity-based `==`, hashing (map keys, method and field names) and the `left == right` shortcut of
`<=`/`>=` coincide with content semantics, including when an equal string was created, dropped,
collected and created again. -/
theorem C09_intern_canonical (ops : List Op) (hv : ValidRun' {} ops) (x y : Nat) (sx sy : String)
    (hx : (run {} ops).reachable x) (hy : (run {} ops).reachable y)
    (cx : strOf (run {} ops).a x = some sx) (cy : strOf (run {} ops).a y = some sy) :
    x = y ↔ sx = sy := by
  have hinv := (run_inv {} ops init_inv hv).2
  constructor
  · intro e; subst e; rw [cx] at cy; cases cy; rfl
  · intro e; subst e; exact sinv_canonical hinv hx hy cx cy

/-- **C09_no_dangling_key.** Every key of the intern table is the content of a still-owned
(not freed) string object: eviction precedes freeing and evicts a superset of what is freed. -/
theorem C09_no_dangling_key (ops : List Op) (hv : ValidRun' {} ops) (s : String) (x : Nat)
    (h : (s, x) ∈ (run {} ops).a.intern) :
    x ∈ (run {} ops).a.owned ∧ strOf (run {} ops).a x = some s := by
  have hinv := (run_inv {} ops init_inv hv).2
  exact ⟨hinv.tableOwned _ h, hinv.tableStr _ h⟩

/-- A lookup that hits returns an object with exactly the requested content (so `manage_str` never
returns a string with different characters). -/
theorem C09_hit_has_content (ops : List Op) (hv : ValidRun' {} ops) (s : String) (size : Nat) (hit : Bool)
    (p : String × Nat) (hp : (run {} ops).a.intern.find? (·.1 == s) = some p) :
    ((run {} ops).a.manageStr s size (run {} ops).roots hit).2.1 = p.2 ∧ strOf (run {} ops).a p.2 = some s := by
  have hinv := (run_inv {} ops init_inv hv).2
  have hmem := List.mem_of_find?_eq_some hp
  have hkey : p.1 = s := by simpa using List.find?_some hp
  refine ⟨by simp [A.manageStr, hp], ?_⟩
  rw [← hkey]; exact hinv.tableStr p hmem

/-- A miss means no reachable string has that content (so the new object is the only one). -/
theorem C09_miss_means_absent (ops : List Op) (hv : ValidRun' {} ops) (s : String)
    (hmiss : (run {} ops).a.intern.find? (·.1 == s) = none) (x : Nat)
    (hx : (run {} ops).reachable x) : strOf (run {} ops).a x ≠ some s := by
  have hinv := (run_inv {} ops init_inv hv).2
  intro h
  have := hinv.liveInTable x s hx h
  have := List.find?_eq_none.mp hmiss _ this
  simp at this

/-- **C09_created_has_content.**  Whatever creation path asked for the text `s` (literal, `+`,
interpolation, slicing, splitting, number formatting, another module: each ends in `manage_str`), and
whatever happened before — including an equal string created, dropped and collected, and a collection
triggered by this very allocation (`hit`, or the byte threshold) — the object handed back has exactly
the content `s`, is reachable, and is the *only* reachable string object with that content. -/
theorem C09_created_has_content (ops : List Op) (hv : ValidRun' {} ops) (s : String) (size : Nat) (hit : Bool) :
    ∃ x, (step (run {} ops) (.str s size hit)).fresh = some x ∧
      strOf (step (run {} ops) (.str s size hit)).a x = some s ∧
      (step (run {} ops) (.str s size hit)).reachable x ∧
      ∀ y, (step (run {} ops) (.str s size hit)).reachable y →
        strOf (step (run {} ops) (.str s size hit)).a y = some s → y = x := by
  have hm := run_inv {} ops init_inv hv
  have hm' := step_inv (run {} ops) (.str s size hit) hm trivial trivial
  generalize run {} ops = m at hm hm'
  have hcontent : strOf (step m (.str s size hit)).a (m.a.manageStr s size m.roots hit).2.1 = some s := by
    simp only [step, A.manageStr]
    split
    · rename_i p hp
      have hmem := List.mem_of_find?_eq_some hp
      have hkey : p.1 = s := by simpa using List.find?_some hp
      rw [← hkey]; exact hm.2.tableStr p hmem
    · exact alloc_strOf_new m.a { size := size, edges := [], str := some s } m.roots hit
  have hreach : (step m (.str s size hit)).reachable (m.a.manageStr s size m.roots hit).2.1 :=
    Reach.root (by simp [step, M.roots])
  exact ⟨_, rfl, hcontent, hreach, fun y hy cy => sinv_canonical hm'.2 hy hreach cy hcontent⟩

/-- **C09_create_again_same_object.**  While a string with content `s` is still reachable, creating
`s` again by any path hands back that very object and leaves the allocator unchanged: identity
equality and identity hashing therefore find the existing map entry / method / field. -/
theorem C09_create_again_same_object (ops : List Op) (hv : ValidRun' {} ops) (s : String) (size : Nat)
    (hit : Bool) (x : Nat) (hx : (run {} ops).reachable x) (cx : strOf (run {} ops).a x = some s) :
    (step (run {} ops) (.str s size hit)).fresh = some x ∧
      (step (run {} ops) (.str s size hit)).a = (run {} ops).a := by
  have hm := run_inv {} ops init_inv hv
  generalize run {} ops = m at hm hx cx
  have hmem := hm.2.liveInTable x s hx cx
  simp only [step, A.manageStr]
  split
  · rename_i p hp
    have hpm := List.mem_of_find?_eq_some hp
    have hkey : p.1 = s := by simpa using List.find?_some hp
    have : p = (s, p.2) := by rw [← hkey]
    rw [this] at hpm
    exact ⟨by rw [nodup_keys_unique hm.2.keysNodup hpm hmem], rfl⟩
  · rename_i hnone
    have := List.find?_eq_none.mp hnone _ hmem
    simp at this

/-- Non-vacuity: the sample history of `Props/C05.lean` keeps an interned string alive. -/
example : ∃ x s, (run {} sampleOps).reachable x ∧ strOf (run {} sampleOps).a x = some s := by
  exact ⟨0, "a", Reach.root (by decide), by decide⟩

end LaytheVerif.C09
