/-
C09 — Strings compare and hash by content however and whenever they were created.
Corollaries of the history invariant of `Props/C05.lean` (same allocator model).
-/
import LaytheVerif.Props.C05
import LaytheVerif.Lemmas.AllocGen
namespace LaytheVerif.C09
open LaytheVerif.Alloc LaytheVerif.C05

/-- **C09_intern_canonical.** For every history of string creation (`manage_str`), allocation,
mutation, root changes and collections — nursery or full, at any point, under any schedule — any two
string objects the program can reach are the same object iff their contents are equal.  Hence
identity-based `==`, hashing (map keys, method and field names) and the `left == right` shortcut of
`<=`/`>=` coincide with content semantics, including when an equal string was created, dropped,
collected and created again. -/
theorem C09_intern_canonical (ops : List Op) (hv : ValidRun' {} ops) (x y : Nat) (sx sy : String)
    (hx : (run {} ops).reachable x) (hy : (run {} ops).reachable y)
    (cx : strOf (run {} ops).a x = some sx) (cy : strOf (run {} ops).a y = some sy) :
    x = y ↔ sx = sy := by
  have hinv := (run_inv {} ops init_inv hv).2
  constructor
  · intro e; subst e; rw [cx] at cy; cases cy; rfl
  · intro e; subst e; exact sinv_canonical hinv hx hy cx cy

/-- **C09_no_dangling_key.** Every key of the intern table is the content of a still-owned
(not freed) string object: eviction precedes freeing and evicts a superset of what is freed. -/
theorem C09_no_dangling_key (ops : List Op) (hv : ValidRun' {} ops) (s : String) (x : Nat)
    (h : (s, x) ∈ (run {} ops).a.intern) :
    x ∈ (run {} ops).a.owned ∧ strOf (run {} ops).a x = some s := by
  have hinv := (run_inv {} ops init_inv hv).2
  exact ⟨hinv.tableOwned _ h, hinv.tableStr _ h⟩

/-- A lookup that hits returns an object with exactly the requested content (so `manage_str` never
returns a string with different characters). -/
theorem C09_hit_has_content (ops : List Op) (hv : ValidRun' {} ops) (s : String) (size : Nat) (hit : Bool)
    (p : String × Nat) (hp : (run {} ops).a.intern.find? (·.1 == s) = some p) :
    ((run {} ops).a.manageStr s size (run {} ops).roots hit).2.1 = p.2 ∧ strOf (run {} ops).a p.2 = some s := by
  have hinv := (run_inv {} ops init_inv hv).2
  have hmem := List.mem_of_find?_eq_some hp
  have hkey : p.1 = s := by simpa using List.find?_some hp
  refine ⟨by simp [A.manageStr, hp], ?_⟩
  rw [← hkey]; exact hinv.tableStr p hmem

/-- A miss means no reachable string has that content (so the new object is the only one). -/
theorem C09_miss_means_absent (ops : List Op) (hv : ValidRun' {} ops) (s : String)
    (hmiss : (run {} ops).a.intern.find? (·.1 == s) = none) (x : Nat)
    (hx : (run {} ops).reachable x) : strOf (run {} ops).a x ≠ some s := by
  have hinv := (run_inv {} ops init_inv hv).2
  intro h
  have := hinv.liveInTable x s hx h
  have := List.find?_eq_none.mp hmiss _ this
  simp at this

end LaytheVerif.C09
