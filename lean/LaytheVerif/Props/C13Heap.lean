/-
C13 — the envelope "no cached class address is reused" as a theorem about the heap, now that the
caches are traced as roots (D16 repair, /repo 077cf99).
-/
import LaytheVerif.Model.CacheHeap
import LaytheVerif.Props.C13
import LaytheVerif.Gen.CacheSites
namespace LaytheVerif.C13
open LaytheVerif.Cache LaytheVerif.CacheHeap

theorem step_inv (s : St) (op : Op) (hi : Inv s) (hv : valid true s op = true) : Inv (step s op) := by
  cases op with
  | alloc a id =>
    intro e he
    simp only [valid, Option.isNone_iff_eq_none] at hv
    have h := hi e he
    have hne : e.1 ≠ a := by intro h'; rw [h', hv] at h; cases h
    simp [step, hne, h]
  | fill a =>
    simp only [step]
    cases hc : s.cls a with
    | none => simpa using hi
    | some id =>
      intro e he
      simp only [List.mem_cons] at he
      rcases he with rfl | he
      · simpa using hc
      · exact hi e he
  | clear k =>
    intro e he
    exact hi e (List.mem_of_mem_eraseIdx he)
  | collect freed =>
    intro e he
    simp only [valid, Bool.not_true, Bool.false_or, List.all_eq_true, Bool.not_eq_eq_eq_not, Bool.not_true] at hv
    have h := hi e he
    have hnot : freed.contains e.1 = false := by
      cases hf : freed.contains e.1 with
      | false => rfl
      | true =>
        have hm : e.1 ∈ freed := by simpa using hf
        have := hv e.1 hm
        have hin : (s.entries.map (·.1)).contains e.1 = true := by
          simp only [List.contains_eq_mem, List.mem_map, decide_eq_true_eq]
          exact ⟨e, he, rfl⟩
        rw [hin] at this; cases this
    have hnm : e.1 ∉ freed := by simpa using hnot
    simp [step, hnm, h]

theorem run_inv (ops : List Op) (s s' : St) (hi : Inv s) (hr : run true s ops = some s') : Inv s' := by
  induction ops generalizing s with
  | nil => simp [run] at hr; subst hr; exact hi
  | cons op ops ih =>
    simp only [run] at hr
    split at hr
    · rename_i hv; exact ih (step s op) (step_inv s op hi hv) hr
    · cases hr

/-- **C13_cached_class_pinned.** Along every history of class allocations, cache fills and clears,
and collections that respect the root set — with the caches among the roots — every cache entry
still denotes the class it was filled with: a cached address is never freed, hence never reused. -/
theorem C13_cached_class_pinned (cls : Nat → Option Nat) (ops : List Op) (s' : St)
    (hr : run true ⟨cls, []⟩ ops = some s') : ∀ e ∈ s'.entries, s'.cls e.1 = some e.2 :=
  run_inv ops _ s' (by intro e he; cases he) hr

/-- **C13_entry_tables_frozen.** Consequently the address-keyed tables the cache model works with
(`World`) are, at every cached address, the tables of the class the entry was filled with — the
"frozen class tables" premise of `C13_transparent` holds for every reachable heap. -/
theorem C13_entry_tables_frozen (F M : Nat → String → Option Nat) (s s' : St) (ops : List Op)
    (hi : Inv s) (hr : run true s ops = some s') (e : Nat × Nat) (he : e ∈ s'.entries) :
    (worldOf F M s').fieldIndex e.1 = F e.2 ∧ (worldOf F M s').method e.1 = M e.2 := by
  have h := run_inv ops s s' hi hr e he
  constructor <;> funext n <;> simp [worldOf, h]

/-- An entry that was consistent when filled stays consistent however the heap evolves. -/
theorem C13_good_survives_heap_history (F M : Nat → String → Option Nat) (name : String) (s s' : St) (ops : List Op)
    (hi : Inv s) (hr : run true s ops = some s') (c id i m : Nat) (he : (c, id) ∈ s'.entries) :
    (F id name = some i → GoodP (worldOf F M s') name (some (c, i))) ∧
    (F id name = none → M id name = some m → GoodI (worldOf F M s') name (some (c, m))) ∧
    (M id name = some m → GoodS (worldOf F M s') name (some (c, m))) := by
  obtain ⟨hf, hm⟩ := C13_entry_tables_frozen F M s s' ops hi hr (c, id) he
  simp only at hf hm
  refine ⟨fun h => ?_, fun h1 h2 => ?_, fun h => ?_⟩
  · simp [GoodP, hf, h]
  · simp [GoodI, hf, hm, h1, h2]
  · simp [GoodS, hm, h]

/-- **C13_untraced_witness** (the defect D16 as it was): when the caches are not roots, a collection
may free a cached class and the next class may take its address — the entry then denotes the wrong
class. -/
theorem C13_untraced_witness :
    ∃ s', run false ⟨fun a => if a = 7 then some 1 else none, []⟩ [.fill 7, .collect [7], .alloc 7 2] = some s' ∧
      (7, 1) ∈ s'.entries ∧ s'.cls 7 = some 2 :=
  ⟨_, rfl, by simp [step], by simp [step]⟩

/-- the same history is impossible when the caches are traced -/
theorem C13_traced_rejects_witness :
    run true ⟨fun a => if a = 7 then some 1 else none, []⟩ [.fill 7, .collect [7], .alloc 7 2] = none := by
  simp [run, valid, step]

/-- non-vacuity: a history with reuse of a *non*-cached address is valid under tracing -/
example : (run true ⟨fun a => if a = 7 then some 1 else if a = 8 then some 2 else none, []⟩
    [.fill 7, .collect [8], .alloc 8 3, .fill 8, .clear 0, .collect [8]]).isSome = true := by
  simp [run, valid, step]

/-- [G] the premise `traced = true` is what the source says now: `Vm::trace` reaches the module caches
and `InlineCache::trace` marks the class of every property entry and the class and method of every
invoke entry (regenerated from cache.rs / vm/impls.rs on every run). -/
theorem C13_caches_are_roots :
    "inline_cache" ∈ Gen.CacheSites.vmTraces ∧
    Gen.CacheSites.cacheTraces = [("property", ["class"]), ("invoke", ["class", "method"])] :=
  ⟨by simp [Gen.CacheSites.vmTraces], rfl⟩

end LaytheVerif.C13
