import LaytheVerif.Model.RecFrames
/-!
# C16 — recursion through native callbacks: the overflow is catchable at every level and leaves the VM balanced

The clause of C16 *"unbounded recursion (reported as a catchable stack-overflow error, also when the recursion passes through
native callbacks)"* on the structured model of `Model/RecFrames.lean`:

* `C16_call_native_arm_text`, `C16_call_native_result_arms_text`, `C16_call_native_root_exits_text` — [G] the order of the
  events of `Vm::call_native` (frame-limit test, `push_root(stub)`, `push_frame`, `pop_roots(1)`, the native's body, and per
  result arm `pop_frame` / `assert_roots`) is the one the model runs;
* `C16_call_native_root_exits_balanced` — [G] on **every** way out of `call_native` (arity error, the three result arms of
  either environment, the frame-limit test) as many temporary roots were popped as were pushed;
* `run_good` — for every program (any nesting of Laythe calls, stack-using and stack-less natives with callbacks, `try`s, a
  recursive function), from every state: the temporary roots at the end are the ones at the start **whatever the outcome**,
  the debug assertion `assert_roots` never fires, the frame count never exceeds `MAX_FRAME_SIZE`, a normal end restores the
  frame count; with the corollaries `C16_temp_roots_balanced`, `C16_no_root_assertion_panic`, `C16_rec_frame_limit`;
* `C16_overflow_catchable` — `try { anything } catch _: Error { }` never lets the overflow through and continues with the
  frames and the temporary roots it started with (normal continuation), at whatever level it sits;
* witnesses: unbounded recursion through a native does overflow and is caught; with the frame-limit test *behind*
  `push_root` (the seeded order) the same program ends in the `assert_roots` panic at one alignment in three.
-/
namespace LaytheVerif.C16
open LaytheVerif.Gen LaytheVerif.Signature LaytheVerif.RecFrames

/-! ## generated-table lemmas -/

/-- [G] `call_native`, arm `Normal`, in front of `native.call(..)`: the frame-limit test (`>=` against `MAX_FRAME_SIZE`, its
    block nothing but the return of the error) comes first, then the stub is rooted, the frame pushed, the root dropped -/
theorem C16_call_native_arm_text : Limits.callNativeNormalPre.map parseMicro = nativeArm.map some := by decide

/-- [G] after `native.call(..)`: only the `Ok` arms pop the stub frame and assert the roots; the error and exit arms leave the
    frames to the unwinder -/
theorem C16_call_native_result_arms_text :
    Limits.callNativeResultArms = [("StackLess", "Ok", ["assert_roots"]), ("StackLess", "Err", []), ("StackLess", "Exit", []),
      ("Normal", "Ok", ["pop_frame", "assert_roots"]), ("Normal", "Err", []), ("Normal", "Exit", [])] := by decide

/-- [G] the ways out of `call_native` -/
theorem C16_call_native_root_exits_text :
    Limits.callNativeRootExits.map (fun e => (e.1, e.2.1)) = [("", "return 0"), ("StackLess", "Ok"), ("StackLess", "Err"),
      ("StackLess", "Exit"), ("Normal", "frame-limit test 0"), ("Normal", "Ok"), ("Normal", "Err"), ("Normal", "Exit")] := by decide

/-- **C16_call_native_root_exits_balanced** — [G] every way out of `call_native`, the error exits included, has popped as many
    temporary roots as were pushed before it (the natives' own bodies: C04 `Gen_nativeRootExits_balanced`) -/
theorem C16_call_native_root_exits_balanced : ∀ e ∈ Limits.callNativeRootExits, e.2.2.1 = e.2.2.2 := by decide

/-! ## the model's arm -/

/-- the events of the arm in closed form: the test first — tripping leaves the state untouched — else one frame more and the
    same roots -/
theorem armPre_nativeArm (s : VmSt) :
    armPre nativeArm s = if guardTrips s.frames then (s.refused 2, true) else (s.push, false) := by
  cases s
  simp [nativeArm, armPre, VmSt.push]

/-- the arm refuses exactly where the flat model's `nativeEnter` does -/
theorem armPre_trips_iff_frameStep (s : VmSt) :
    (armPre nativeArm s).2 = true ↔ frameStep ⟨s.frames⟩ .nativeEnter = some (⟨s.frames⟩, .stackOverflow) := by
  rw [armPre_nativeArm]
  by_cases hg : guardTrips s.frames = true <;> simp [hg, frameStep]

/-! ## the invariant of `run` -/

/-- what every completed run of a statement guarantees about the state it ends in -/
structure Good (s s' : VmSt) (o : Out) : Prop where
  roots : s'.roots = s.roots
  noPanic : o ≠ .panic
  framesOk : o = .ok → s'.frames = s.frames
  framesGe : s.frames ≤ s'.frames
  inv : s'.Inv
  peakMono : s.peak ≤ s'.peak

theorem Good.refl_of (s : VmSt) (o : Out) (ho : o ≠ .panic) (hI : s.Inv) : Good s s o :=
  ⟨rfl, ho, fun _ => rfl, Nat.le_refl _, hI, Nat.le_refl _⟩

theorem inv_refused (s : VmSt) (k : Nat) (hI : s.Inv) : (s.refused k).Inv := by
  simpa [VmSt.refused, VmSt.Inv] using hI

theorem good_refused (s : VmSt) (k : Nat) (hI : s.Inv) : Good s (s.refused k) .err :=
  ⟨by simp [VmSt.refused], by simp, by simp, by simp [VmSt.refused], inv_refused s k hI, by simp [VmSt.refused]⟩

/-- a frame pushed below the limit keeps the invariant -/
theorem inv_push (s : VmSt) (c : Nat) (hI : s.Inv) (hg : guardTrips s.frames = false) :
    ({ s.push with calls := c } : VmSt).Inv ∧ s.push.Inv := by
  have hlt : s.frames < Limits.maxFrameSize := by
    simp [guardTrips] at hg; exact hg
  obtain ⟨h1, h2⟩ := hI
  simp only [VmSt.Inv, VmSt.push]
  omega

/-- a body that ran inside one more frame (with the same roots), ended normally, and whose frame is popped -/
theorem good_popped (s t s1 : VmSt) (ht : t.frames = s.frames + 1) (htr : t.roots = s.roots) (htp : s.peak ≤ t.peak)
    (g : Good t s1 .ok) : Good s s1.pop .ok := by
  obtain ⟨h1, h2⟩ := g.inv
  have hf := g.framesOk rfl
  refine ⟨by simp [VmSt.pop, g.roots, htr], by simp, fun _ => by simp [VmSt.pop, hf, ht], by simp [VmSt.pop, hf, ht], ?_, ?_⟩
  · simp only [VmSt.Inv, VmSt.pop]; omega
  · have := g.peakMono; simp only [VmSt.pop]; omega

/-- a body that ran inside one more frame and did not end normally -/
theorem good_propagated (s t s' : VmSt) (o : Out) (ht : t.frames = s.frames + 1) (htr : t.roots = s.roots) (htp : s.peak ≤ t.peak)
    (ho : o ≠ .ok) (g : Good t s' o) : Good s s' o := by
  have := g.framesGe
  have := g.peakMono
  exact ⟨by rw [g.roots, htr], g.noPanic, fun h => absurd h ho, by omega, g.inv, by omega⟩

/-- **run_good** — every completed run, of every statement, from every state that respects the limit -/
theorem run_good (d : Stm) : ∀ (fuel : Nat) (stm : Stm) (s s' : VmSt) (o : Out),
    s.Inv → run nativeArm d fuel stm s = some (s', o) → Good s s' o := by
  intro fuel
  induction fuel with
  | zero => intro stm s s' o _ h; simp [run] at h
  | succ fuel ih =>
    intro stm s s' o hI h
    cases stm with
    | skip =>
      simp only [run, Option.some.injEq, Prod.mk.injEq] at h
      obtain ⟨h1, h2⟩ := h; subst h1; subst h2
      exact Good.refl_of s .ok (by simp) hI
    | seq a b =>
      simp only [run] at h
      cases ha : run nativeArm d fuel a s with
      | none => simp [ha] at h
      | some p =>
        obtain ⟨s1, o1⟩ := p
        have ga := ih a s s1 o1 hI ha
        cases o1 with
        | ok =>
          simp only [ha] at h
          have gb := ih b s1 s' o ga.inv h
          have := ga.framesOk rfl
          have := ga.peakMono
          have := gb.peakMono
          have := gb.framesGe
          exact ⟨by rw [gb.roots, ga.roots], gb.noPanic, fun ho => by rw [gb.framesOk ho, ga.framesOk rfl], by omega, gb.inv, by omega⟩
        | err =>
          simp only [ha, Option.some.injEq, Prod.mk.injEq] at h
          obtain ⟨h1, h2⟩ := h; subst h1; subst h2; exact ga
        | panic =>
          simp only [ha, Option.some.injEq, Prod.mk.injEq] at h
          obtain ⟨h1, h2⟩ := h; subst h1; subst h2; exact ga
    | rec_ =>
      simp only [run] at h
      exact ih (.call d) s s' o hI h
    | call b =>
      simp only [run] at h
      by_cases hg : guardTrips s.frames = true
      · simp only [hg, if_true, Option.some.injEq, Prod.mk.injEq] at h
        obtain ⟨h1, h2⟩ := h; subst h1; subst h2
        exact good_refused s 1 hI
      · have hg' : guardTrips s.frames = false := by simpa using hg
        simp only [hg', Bool.false_eq_true, if_false] at h
        have hIt := (inv_push s (s.calls + 1) hI hg').1
        cases hb : run nativeArm d fuel b { s.push with calls := s.calls + 1 } with
        | none => simp [hb] at h
        | some p =>
          obtain ⟨s1, o1⟩ := p
          have gb := ih b _ s1 o1 hIt hb
          have htp : s.peak ≤ ({ s.push with calls := s.calls + 1 } : VmSt).peak := by simp only [VmSt.push]; omega
          cases o1 with
          | ok =>
            simp only [hb, Option.some.injEq, Prod.mk.injEq] at h
            obtain ⟨h1, h2⟩ := h; subst h1; subst h2
            exact good_popped s _ s1 (by simp [VmSt.push]) (by simp [VmSt.push]) htp gb
          | err =>
            simp only [hb, Option.some.injEq, Prod.mk.injEq] at h
            obtain ⟨h1, h2⟩ := h; subst h1; subst h2
            exact good_propagated s _ s1 .err (by simp [VmSt.push]) (by simp [VmSt.push]) htp (by simp) gb
          | panic =>
            simp only [hb, Option.some.injEq, Prod.mk.injEq] at h
            obtain ⟨h1, h2⟩ := h; subst h1; subst h2
            exact good_propagated s _ s1 .panic (by simp [VmSt.push]) (by simp [VmSt.push]) htp (by simp) gb
    | native b =>
      simp only [run, armPre_nativeArm] at h
      by_cases hg : guardTrips s.frames = true
      · simp only [hg, if_true, Option.some.injEq, Prod.mk.injEq] at h
        obtain ⟨h1, h2⟩ := h; subst h1; subst h2
        exact good_refused s 2 hI
      · have hg' : guardTrips s.frames = false := by simpa using hg
        simp only [hg', Bool.false_eq_true, if_false] at h
        have hIt := (inv_push s s.calls hI hg').2
        cases hb : run nativeArm d fuel b s.push with
        | none => simp [hb] at h
        | some p =>
          obtain ⟨s1, o1⟩ := p
          have gb := ih b _ s1 o1 hIt hb
          have htp : s.peak ≤ s.push.peak := by simp only [VmSt.push]; omega
          cases o1 with
          | ok =>
            have hr : s1.roots = s.roots := by rw [gb.roots]; simp [VmSt.push]
            simp only [hb, hr, if_true, Option.some.injEq, Prod.mk.injEq] at h
            obtain ⟨h1, h2⟩ := h; subst h1; subst h2
            exact good_popped s _ s1 (by simp [VmSt.push]) (by simp [VmSt.push]) htp gb
          | err =>
            simp only [hb, Option.some.injEq, Prod.mk.injEq] at h
            obtain ⟨h1, h2⟩ := h; subst h1; subst h2
            exact good_propagated s _ s1 .err (by simp [VmSt.push]) (by simp [VmSt.push]) htp (by simp) gb
          | panic =>
            simp only [hb, Option.some.injEq, Prod.mk.injEq] at h
            obtain ⟨h1, h2⟩ := h; subst h1; subst h2
            exact good_propagated s _ s1 .panic (by simp [VmSt.push]) (by simp [VmSt.push]) htp (by simp) gb
    | stackless b =>
      simp only [run] at h
      cases hb : run nativeArm d fuel b s with
      | none => simp [hb] at h
      | some p =>
        obtain ⟨s1, o1⟩ := p
        have gb := ih b s s1 o1 hI hb
        cases o1 with
        | ok =>
          simp only [hb, gb.roots, if_true, Option.some.injEq, Prod.mk.injEq] at h
          obtain ⟨h1, h2⟩ := h; subst h1; subst h2; exact gb
        | err =>
          simp only [hb, Option.some.injEq, Prod.mk.injEq] at h
          obtain ⟨h1, h2⟩ := h; subst h1; subst h2; exact gb
        | panic =>
          simp only [hb, Option.some.injEq, Prod.mk.injEq] at h
          obtain ⟨h1, h2⟩ := h; subst h1; subst h2; exact gb
    | try_ b hd =>
      simp only [run] at h
      cases hb : run nativeArm d fuel b s with
      | none => simp [hb] at h
      | some p =>
        obtain ⟨s1, o1⟩ := p
        have gb := ih b s s1 o1 hI hb
        cases o1 with
        | ok =>
          simp only [hb, Option.some.injEq, Prod.mk.injEq] at h
          obtain ⟨h1, h2⟩ := h; subst h1; subst h2; exact gb
        | panic =>
          simp only [hb, Option.some.injEq, Prod.mk.injEq] at h
          obtain ⟨h1, h2⟩ := h; subst h1; subst h2; exact gb
        | err =>
          simp only [hb] at h
          have hpm := gb.peakMono
          obtain ⟨hi1, hi2⟩ := gb.inv
          obtain ⟨hs1, hs2⟩ := hI
          have hIt : ({ s1 with frames := s.frames, caught := s1.caught + 1 } : VmSt).Inv := by
            simp only [VmSt.Inv]; omega
          have gh := ih hd _ s' o hIt h
          have h5 := gh.peakMono
          have h6 := gh.framesGe
          simp only at h5 h6
          exact ⟨by rw [gh.roots]; exact gb.roots, gh.noPanic, fun ho => by rw [gh.framesOk ho], h6, gh.inv, by omega⟩

/-! ## the property -/

/-- a fresh fiber respects the limit, whatever temporary roots the VM holds -/
theorem script_inv (r : Nat) : (VmSt.script r).Inv := by
  simp only [VmSt.Inv, VmSt.script]; decide

/-- **C16_temp_roots_balanced** — every statement — every Laythe call, every native call with whatever its callbacks do, every
    `try` — leaves the number of temporary roots unchanged on **every** exit, the error exit (a `Stack overflow.` raised anywhere
    below, at a Laythe frame or at a native's stub frame) included -/
theorem C16_temp_roots_balanced (d stm : Stm) (fuel : Nat) (s s' : VmSt) (o : Out) (hI : s.Inv)
    (h : run nativeArm d fuel stm s = some (s', o)) : s'.roots = s.roots :=
  (run_good d fuel stm s s' o hI h).roots

/-- **C16_no_root_assertion_panic** — the debug assertion of `call_native` (`Native function … increased roots by …`) never
    fires, for any program, any depth, any alignment of the limit, any place of the handler -/
theorem C16_no_root_assertion_panic (d stm : Stm) (fuel : Nat) (s s' : VmSt) (o : Out) (hI : s.Inv)
    (h : run nativeArm d fuel stm s = some (s', o)) : o ≠ .panic :=
  (run_good d fuel stm s s' o hI h).noPanic

/-- **C16_rec_frame_limit** — no run ever holds more than `MAX_FRAME_SIZE` frames (`peak` is the largest count reached) -/
theorem C16_rec_frame_limit (d stm : Stm) (fuel : Nat) (s s' : VmSt) (o : Out) (hI : s.Inv)
    (h : run nativeArm d fuel stm s = some (s', o)) : s'.peak ≤ Limits.maxFrameSize ∧ s'.frames ≤ s'.peak :=
  ⟨(run_good d fuel stm s s' o hI h).inv.2, (run_good d fuel stm s s' o hI h).inv.1⟩

/-- **C16_overflow_catchable** — `try { body } catch _: Error { }` around *anything* — at script level, in a function, in the
    callback of a native, in the recursion itself — never lets the overflow through: the statement ends normally, with the frame
    count and the temporary roots it started with (the program carries on as if the body had returned) -/
theorem C16_overflow_catchable (d body : Stm) (fuel : Nat) (s s' : VmSt) (o : Out) (hI : s.Inv)
    (h : run nativeArm d fuel (.try_ body .skip) s = some (s', o)) :
    o = .ok ∧ s'.frames = s.frames ∧ s'.roots = s.roots := by
  have g := run_good d fuel (.try_ body .skip) s s' o hI h
  have hok : o = .ok := by
    cases fuel with
    | zero => simp [run] at h
    | succ fuel =>
      simp only [run] at h
      cases hb : run nativeArm d fuel body s with
      | none => simp [hb] at h
      | some p =>
        obtain ⟨s1, o1⟩ := p
        cases o1 with
        | ok => simp only [hb, Option.some.injEq, Prod.mk.injEq] at h; exact h.2.symm
        | panic => simp only [hb, Option.some.injEq, Prod.mk.injEq] at h; exact absurd h.2.symm g.noPanic
        | err =>
          simp only [hb] at h
          cases fuel with
          | zero => simp [run] at h
          | succ fuel => simp only [run, Option.some.injEq, Prod.mk.injEq] at h; exact h.2.symm
  exact ⟨hok, g.framesOk hok, g.roots⟩

/-- a whole script: from a fresh fiber, if the script ends normally it ends with the one frame and the temporary roots it
    started with, never having held more than `MAX_FRAME_SIZE` frames -/
theorem C16_script_balanced (d script : Stm) (fuel r : Nat) (s' : VmSt) (h : run nativeArm d fuel script (VmSt.script r) = some (s', .ok)) :
    s'.frames = 1 ∧ s'.roots = r ∧ s'.peak ≤ Limits.maxFrameSize := by
  have g := run_good d fuel script _ s' .ok (script_inv r) h
  exact ⟨g.framesOk rfl, g.roots, g.inv.2⟩

/-! ## non-vacuity and witnesses -/

/-- the order of the seeded change: the stub is rooted *before* the frame-limit test -/
def seededArm : List Micro := [.pushRoot, .guard, .pushFrame, .popRoots 1]

/-- the recursion of the demonstration: `fn f() { [0].iter().each(|x| f()); }` -/
def eachRec : Stm := .native (.call .rec_)

/-- a state a few frames below the limit (what a deep recursion has reached) -/
def nearLimit (frames : Nat) : VmSt := { frames := frames, roots := 7, peak := frames, calls := 0, caught := 0, firstAt := 0 }

-- unbounded recursion through `each` does reach the limit — at the stub frame of `each` from this depth —, the `try` of a
-- callback of an enclosing `each` catches it, the enclosing native returns normally: frames and roots as before
example : run nativeArm eachRec 40 (.native (.call (.try_ .rec_ .skip))) (nearLimit 249)
    = some ({ frames := 249, roots := 7, peak := 255, calls := 4, caught := 1, firstAt := 2 }, .ok) := by decide
-- one frame earlier the limit is hit at a Laythe frame instead
example : (run nativeArm eachRec 40 (.native (.call (.try_ .rec_ .skip))) (nearLimit 248)).map (fun p => (p.1.firstAt, p.2))
    = some (1, .ok) := by decide
-- nobody catches: the error leaves the script, frames untouched where it was raised, roots balanced
example : (run nativeArm eachRec 40 .rec_ (nearLimit 249)).map (fun p => (p.1.frames, p.1.roots, p.2)) = some (255, 7, .err) := by decide
-- the model is sensitive to the order of the arm: with the test behind `push_root` the same program ends in the panic of
-- `assert_roots` (one root more than before) — at this alignment; one frame earlier the limit is hit at a Laythe frame and nothing shows
example : (run seededArm eachRec 40 (.native (.call (.try_ .rec_ .skip))) (nearLimit 249)).map (fun p => (p.1.roots, p.2))
    = some (8, .panic) := by decide
example : (run seededArm eachRec 40 (.native (.call (.try_ .rec_ .skip))) (nearLimit 248)).map (fun p => (p.1.roots, p.2))
    = some (7, .ok) := by decide
-- … and caught at script level the leaked root stays without any assertion noticing (what the control-run comparison of the
-- stream sees)
example : (run seededArm eachRec 40 (.try_ .rec_ .skip) (nearLimit 251)).map (fun p => (p.1.roots, p.2)) = some (8, .ok) := by decide
-- a lazily driven callback: `map` pushes and pops its stub frame, the stack-less `list` runs the callback
example : (run nativeArm (.seq (.native .skip) (.stackless (.call .rec_))) 40 (.try_ .rec_ .skip) (nearLimit 252)).map
    (fun p => (p.1.frames, p.1.roots, p.1.calls, p.1.firstAt, p.2)) = some (252, 7, 3, 2, .ok) := by decide

end LaytheVerif.C16
