/-
C18 — Errors are reported faithfully: class, message, call chain and exit status.
Theorems about `LaytheVerif.Lines` (Model/Lines.lean).  DESIGN.md §5 C18.
-/
import LaytheVerif.Model.Lines
import LaytheVerif.Lemmas.LinesTable
import LaytheVerif.Lemmas.LinesSlots
import LaytheVerif.Lemmas.LinesUnwind
import LaytheVerif.Props.C12
namespace LaytheVerif.C18
open LaytheVerif.Gen LaytheVerif.Lines LaytheVerif.Peephole LaytheVerif.LinesTable

/-! ### generated-table lemmas -/

/-- Every encoder helper pushes as many line entries as code bytes, and that number is the
instruction's `len()` (which `encode` uses for `offset`).  Re-opens when `byte_code.rs` changes a
helper, an arm of `encode`, or `len()`. -/
theorem C18_enc_table (s : Sym) : s.enc.1.lineEntries = s.len ∧ s.enc.1.bytes = s.len := enc_table s

/-! ### C18_lines_aligned -/

/-- **C18_lines_aligned.**  For every instruction list and equally long line list: the encoded line
table is exactly as long as the encoded code, that length is the sum of the instructions' `len()`,
and `Chunk::get_line off` is the line of the instruction whose bytes contain `off`. -/
theorem C18_lines_aligned (code : List Sym) (lines : List Nat) (h : code.length = lines.length) :
    (encodeLines code lines).length = encodeLen code lines ∧
    encodeLen code lines = (code.map Sym.len).sum ∧
    ∀ (k : Nat) (hk : k < code.length) (off : Nat),
      startOf code k ≤ off → off < startOf code k + (code[k]).len →
      getLine (encodeLines code lines) off = some (lines[k]'(h ▸ hk)) := by
  refine ⟨encodeLines_length code lines, encodeLen_eq_sum code lines h, ?_⟩
  intro k hk off h1 h2
  have hg := encodeLines_getElem? code lines h k hk off h1 h2
  have hkl : k < lines.length := h ▸ hk
  rw [List.getElem?_eq_getElem hkl] at hg
  have hlt : off < (encodeLines code lines).length := (List.getElem?_eq_some_iff.mp hg).1
  unfold getLine
  rw [if_neg (by omega)]
  exact hg

/-! ### C18_saved_ip_line -/

/-- **C18_saved_ip_line.**  Let `p` be the (post-optimisation) instruction/line stream of a function
whose cache slots are owned.  If the instruction pointer saved in a frame lies behind the first byte
of instruction `k` and not behind its last byte — counting the trailing cache slot, which the VM
reads before it calls or raises — then the reported line (`get_line (ip − 1)`) is exactly the line
the compiler attached to instruction `k`.  This is the situation of a frame suspended in
`Call`/`Invoke`/`SuperInvoke`/`Launch`/`IterNext`/`IterCurrent` (ip = first byte after the
instruction and its slot) and of the frame executing a raising instruction (ip somewhere behind
the opcode). -/
theorem C18_saved_ip_line (p : List IL) (hs : slotsOwned p = true) (k : Nat) (hk : k < p.length)
    (ip : Nat)
    (h1 : startOf (p.map Prod.fst) k < ip)
    (h2 : ip ≤ startOf (p.map Prod.fst) k + extentOf (p.map Prod.fst) k) :
    frameLineNo (encodeLines (p.map Prod.fst) (p.map Prod.snd)) ip = some (p[k]).2 := by
  have hlen : (p.map Prod.fst).length = (p.map Prod.snd).length := by simp
  have hkc : k < (p.map Prod.fst).length := by simpa using hk
  obtain ⟨-, -, hal⟩ := C18_lines_aligned (p.map Prod.fst) (p.map Prod.snd) hlen
  unfold frameLineNo reportOffset
  by_cases hin : ip - 1 < startOf (p.map Prod.fst) k + ((p.map Prod.fst)[k]).len
  · have := hal k hkc (ip - 1) (by omega) hin
    simpa using this
  · -- the byte belongs to the trailing cache slot
    have hext : extentOf (p.map Prod.fst) k > ((p.map Prod.fst)[k]).len := by
      have : (p.map Prod.fst)[k]? = some ((p.map Prod.fst)[k]) := List.getElem?_eq_getElem hkc
      simp only [extentOf, this, Option.map_some, Option.getD_some] at h2 ⊢
      omega
    have hk1 : k + 1 < p.length := by
      apply Decidable.byContradiction
      intro hc
      have : (p.map Prod.fst)[k + 1]? = none := by simp; omega
      simp [extentOf, this, List.getElem?_eq_getElem hkc] at hext
    have hk1c : k + 1 < (p.map Prod.fst).length := by simpa using hk1
    have hget : (p.map Prod.fst)[k + 1]? = some (p[k + 1]).1 := by simp [List.getElem?_eq_getElem hk1]
    have hslot : isSlot (p[k + 1]).1 = true := by
      apply Decidable.byContradiction
      intro hc
      simp [extentOf, hget, hc, List.getElem?_eq_getElem hkc] at hext
    have hextv : extentOf (p.map Prod.fst) k = ((p.map Prod.fst)[k]).len + (p[k + 1]).1.len := by
      simp [extentOf, hget, hslot, List.getElem?_eq_getElem hkc]
    have hst := startOf_step (p.map Prod.fst) k hkc
    have := hal (k + 1) hk1c (ip - 1) (by omega) (by simp only [List.getElem_map]; omega)
    rw [this]
    have := (slotsOwned_getElem p hs k hk1 hslot).2
    simp [this]

/-- **C18_opt_slots_owned.**  The compiler emits a cache slot only directly behind its owner, with
the same source offset (`wellSlotted`, evaluated on every dumped function by the tie); the
optimiser keeps that, so in the encoded table the slot's bytes carry the owner's line. -/
theorem C18_opt_slots_owned (p : List IL) (h : wellSlotted p = true) : wellSlotted (opt p) = true :=
  LinesSlots.opt_wellSlotted p h

/-- `C18_saved_ip_line` for what the compiler really encodes: the optimised stream of a well
slotted pre-optimisation stream. -/
theorem C18_saved_ip_line_opt (pre : List IL) (h : wellSlotted pre = true) (k : Nat) (hk : k < (opt pre).length)
    (ip : Nat)
    (h1 : startOf ((opt pre).map Prod.fst) k < ip)
    (h2 : ip ≤ startOf ((opt pre).map Prod.fst) k + extentOf ((opt pre).map Prod.fst) k) :
    frameLineNo (encodeLines ((opt pre).map Prod.fst) ((opt pre).map Prod.snd)) ip = some ((opt pre)[k]).2 ∧
    ((opt pre)[k]).2 ∈ pre.map Prod.snd := by
  have hw := C18_opt_slots_owned pre h
  simp only [wellSlotted, Bool.and_eq_true] at hw
  exact ⟨C18_saved_ip_line (opt pre) hw.2 k hk ip h1 h2,
         LaytheVerif.C12.C12_lines_subset pre _ (List.getElem_mem hk)⟩

/-! ### C18_backtrace_frames -/

/-- **C18_backtrace_frames.**  Let a normally running fiber (`running`: no unwind in progress, every
handler belongs to a live frame, handlers nested like frames) raise while the instruction pointer
of its top frame is `ip`, and let `F0` be its frames at that moment.  However many catch clauses
decline the error first (each runs `ContinueUnwind` somewhere inside its clause, which overwrites
the saved ip of the frame it lives in), if a clause finally accepts it then, with `c` the number
of frames that remain (the catching frame is the last of them):

* the backtrace stored in the error lists exactly the top `|F0| + 1 − c` frames of `F0` — the
  catching frame and everything above it — innermost first, each as (function, `ip − 1`) with the
  ip it had **when the error was raised**;
* the frames below the catching frame are untouched, and the surviving frames are the first `c`
  frames of `F0` (same functions); the capture buffer is empty again. -/
theorem C18_backtrace_frames (f : Fiber) (hr : running f = true) (ip : Nat) (bottom : Option Nat)
    (ds : List (Bool × Nat)) (bt : List (Nat × Nat)) (f' : Fiber)
    (h : unwindRun bottom f ip ds = .caught bt f') :
    ∃ c, 1 ≤ c ∧ c ≤ f.frames.length ∧ f'.frames.length = c ∧
      bt = (((storeIp f ip).frames.reverse.take (f.frames.length + 1 - c)).map
              fun fr => (fr.fn, reportOffset fr.ip)) ∧
      f'.frames.take (c - 1) = f.frames.take (c - 1) ∧
      f'.frames.map Frame.fn = (f.frames.take c).map Frame.fn ∧
      f'.backtraceIps = [] := by
  simp only [running, Bool.and_eq_true, List.isEmpty_iff, decide_eq_true_eq] at hr
  obtain ⟨⟨hb, hcur⟩, hs⟩ := hr
  have hlen : (storeIp f ip).frames.length = f.frames.length := by simp [storeIp, LinesUnwind.setIp_length]
  have pre := LinesUnwind.pre_initial (storeIp f ip) (by rw [hlen]; exact hs) (by simpa [storeIp] using hb)
  obtain ⟨c, h1, h2, h3, h4, h5, h6, h7⟩ := LinesUnwind.unwindFrom_caught _ bottom ds _ _ pre bt f' h
  rw [hlen] at h2 h4
  refine ⟨c, h1, h2, h3, h4, ?_, ?_, h7⟩
  · rw [h5]; simp only [storeIp]
    exact LinesUnwind.setIp_take _ _ _ _ (by omega)
  · rw [h6, List.map_take, List.map_take]; simp [storeIp, LinesUnwind.setIp_map_fn]

/-- The generated row of `Fiber::print_error` the model follows: a frame is reported with the ip
saved in `backtrace_ips` when the search for a handler has reached it, with its own ip otherwise.
Re-opens (together with `C18_traceback_frames`) when `print_error` reads another ip. -/
theorem C18_traceback_ip_source : tracebackIpSource = .savedElseLive := rfl

/-- **C18_traceback_frames.**  Let a normally running fiber raise while the instruction pointer of
its top frame is `ip`.  However many catch clauses decline the error on the way (each runs
`ContinueUnwind` somewhere inside its clause, after `stack_unwind` redirected the ip of the frame it
lives in — that frame's *own* ip is lost), if the error ends unhandled then `print_error` reports
exactly the frames of the moment of the raise: every active call, innermost first, each as
(function, `ip − 1`) with the ip it had **when the error was raised** — so, by `C18_saved_ip_line`,
every line of the traceback is the line of the suspended call / the raising instruction.  The text
written to stderr is the one `print_error` would have written at the moment of the raise. -/
theorem C18_traceback_frames (f : Fiber) (hr : running f = true) (ip : Nat)
    (ds : List (Bool × Nat)) (f' : Fiber) (h : unwindRun none f ip ds = .uncaught f') :
    tracebackEntries f' = ((storeIp f ip).frames.reverse.map fun fr => (fr.fn, reportOffset fr.ip)) ∧
    ∀ funs cls msg, printError funs f' cls msg = printError funs (storeIp f ip) cls msg := by
  simp only [running, Bool.and_eq_true, List.isEmpty_iff, decide_eq_true_eq] at hr
  obtain ⟨⟨hb, hcur⟩, hs⟩ := hr
  have hlen : (storeIp f ip).frames.length = f.frames.length := by simp [storeIp, LinesUnwind.setIp_length]
  have pre := LinesUnwind.pre_initial (storeIp f ip) (by rw [hlen]; exact hs) (by simpa [storeIp] using hb)
  obtain ⟨d', -, pre'⟩ := LinesUnwind.unwindFrom_uncaught _ none ds _ _ pre f' h
  have e1 := LinesUnwind.pre_traceback _ _ _ pre'
  have e0 := LinesUnwind.pre_traceback _ _ _ pre
  refine ⟨e1, fun funs cls msg => ?_⟩
  simp only [printError, e1, e0]

/-- With no handler on the fiber nothing is touched at all: `print_error` runs on the fiber as the
raise left it. -/
theorem C18_traceback_no_handler (f : Fiber) (hh : f.handlers = []) (ip : Nat) (ds : List (Bool × Nat)) :
    unwindRun none f ip ds = .uncaught (storeIp f ip) := by
  have : stackUnwind (storeIp f ip) none = .unhandled := by simp [stackUnwind, storeIp, hh]
  cases ds with
  | nil => simp [unwindRun, unwindFrom, this]
  | cons d ds => obtain ⟨m, i⟩ := d; cases m <;> simp [unwindRun, unwindFrom, this]

/-- An unhandled error keeps every frame in place (nothing is truncated), with its function. -/
theorem C18_traceback_all_frames (f : Fiber) (hr : running f = true) (ip : Nat)
    (ds : List (Bool × Nat)) (f' : Fiber) (h : unwindRun none f ip ds = .uncaught f') :
    f'.frames.map Frame.fn = f.frames.map Frame.fn := by
  simp only [running, Bool.and_eq_true, List.isEmpty_iff, decide_eq_true_eq] at hr
  obtain ⟨⟨hb, hcur⟩, hs⟩ := hr
  have hlen : (storeIp f ip).frames.length = f.frames.length := by simp [storeIp, LinesUnwind.setIp_length]
  have pre := LinesUnwind.pre_initial (storeIp f ip) (by rw [hlen]; exact hs) (by simpa [storeIp] using hb)
  obtain ⟨d', -, pre'⟩ := LinesUnwind.unwindFrom_uncaught _ none ds _ _ pre f' h
  rw [pre'.fns]; simp [storeIp, LinesUnwind.setIp_map_fn]

/-! ### errors and exits that cross natives (nested interpreter loops) -/

/-- **C18_nested_catch_above_bottom.**  A native called back when the fiber had `b` frames; the
callback's nested interpreter loop (`ExecutionMode::CallingNativeCode(b)`) runs a catch clause only
for a handler of a frame pushed *by that loop*: more than `b` frames remain.  A `try` in the frame
that drives the native (or further out) is never run inside the native's callback; it is reached by
the loop that called the native, after the native has returned the error. -/
theorem C18_nested_catch_above_bottom (f : Fiber) (hr : running f = true) (ip b : Nat)
    (ds : List (Bool × Nat)) (bt : List (Nat × Nat)) (f' : Fiber)
    (h : unwindRun (some b) f ip ds = .caught bt f') : b < f'.frames.length := by
  simp only [running, Bool.and_eq_true, List.isEmpty_iff, decide_eq_true_eq] at hr
  obtain ⟨⟨hb, hcur⟩, hs⟩ := hr
  have hlen : (storeIp f ip).frames.length = f.frames.length := by simp [storeIp, LinesUnwind.setIp_length]
  have pre := LinesUnwind.pre_initial (storeIp f ip) (by rw [hlen]; exact hs) (by simpa [storeIp] using hb)
  exact LinesUnwind.unwindFrom_caught_above _ b ds _ _ pre bt f' h

/-- **C18_unwind_across_natives.**  However many natives that called back lie between the raising
frame and the loop of `Vm::run` (`bottoms`: the frame counts they recorded, innermost first), the
error that travels out through them — each nested loop stops at its bottom, the native returns the
error, the calling loop unwinds on — ends exactly as one uninterrupted search over the fiber does:
same catching clause, same captured backtrace, same fiber for `print_error`.  Hence
`C18_backtrace_frames` and `C18_traceback_frames` hold for errors that cross natives
(`iter.each`, `List.sort`, `print` → `str()`, lazy iterators, …): `C18_traceback_across_natives`. -/
theorem C18_unwind_across_natives (bottoms : List Nat) (f : Fiber) (ip : Nat) (ds : List (Bool × Nat)) :
    unwindLoops bottoms (storeIp f ip) ds = unwindRun none f ip ds :=
  LinesUnwind.unwindLoops_eq bottoms _ ds

/-- `C18_traceback_frames` for an error that crosses any number of natives on its way out. -/
theorem C18_traceback_across_natives (bottoms : List Nat) (f : Fiber) (hr : running f = true) (ip : Nat)
    (ds : List (Bool × Nat)) (f' : Fiber) (h : unwindLoops bottoms (storeIp f ip) ds = .uncaught f') :
    tracebackEntries f' = ((storeIp f ip).frames.reverse.map fun fr => (fr.fn, reportOffset fr.ip)) := by
  rw [C18_unwind_across_natives] at h
  exact (C18_traceback_frames f hr ip ds f' h).1

/-! ### C18_status -/

/-- An `exit` keeps its code through any number of natives that called back: `to_call_result` hands
it to the native as `LyError::Exit(code)`, and the loop that called the native answers
`set_exit(code)`. -/
theorem C18_exit_through_natives (k code : Nat) : throughNatives k (.Exit code) = some (.Exit code) := by
  induction k with
  | zero => rfl
  | succ k ih => simp [throughNatives, throughNative, toCallResult, signalResult, nativeExitSignal, ih]

/-- The status of `exit` does not depend on where it is called. -/
theorem C18_exit_status_anywhere (a : Option Int) (k : Nat) : status (.exitCall a k) = status (.exitCall a 0) := by
  cases a <;> simp [status, execResult, C18_exit_through_natives]

/-- **C18_status.**  The outcome → exit status table of `Vm::run` / `main.rs` is total and as
documented: normal finish and `exit()` give 0; `exit(n)` gives `n` for every `n` a status can hold
(`0..65535`, the `u16` of `LyError::Exit`) — also when it is called inside the callback of a native,
at any nesting depth `k`; an uncaught error, a compile error of the script or of an imported module,
and a deadlock give 1; the status is 0 only for a normal finish or an `exit` with a non-positive
argument; `main` passes the status to `process::exit`. -/
theorem C18_status :
    status .finished = some (0, .Ok) ∧
    (∀ k, status (.exitCall none k) = some (0, .Ok)) ∧
    (∀ (n : Int) (k : Nat), 0 ≤ n → n ≤ 65535 → (status (.exitCall (some n) k)).map Prod.fst = some n) ∧
    (∀ (n : Int) (k : Nat), 0 < n → n ≤ 65535 → (status (.exitCall (some n) k)).map Prod.snd = some .RuntimeError) ∧
    status .uncaughtError = some (1, .RuntimeError) ∧
    status .compileError = some (1, .CompileError) ∧
    status .importCompileError = some (1, .CompileError) ∧
    status .deadlock = some (1, .RuntimeError) ∧
    (∀ e, (status e).isSome = true) ∧
    (∀ e, (status e).map Prod.fst = some 0 →
        e = .finished ∨ (∃ k, e = .exitCall none k) ∨ (∃ n k, n ≤ 0 ∧ e = .exitCall (some n) k)) ∧
    mainExitsWithRunCode = true := by
  refine ⟨rfl, ?_, ?_, ?_, rfl, rfl, rfl, rfl, ?_, ?_, rfl⟩
  · intro k
    rw [C18_exit_status_anywhere]; rfl
  · intro n k h0 h1
    rw [C18_exit_status_anywhere]
    simp only [status, execResult, throughNatives, Option.bind_some, runStatus_exit_fst, castUnsigned_id n h0 h1]
  · intro n k h0 h1
    rw [C18_exit_status_anywhere]
    have := castUnsigned_id n (by omega) h1
    simp only [status, execResult, throughNatives, Option.bind_some]
    cases hc : castUnsigned exitCastBits n with
    | zero => rw [hc] at this; omega
    | succ m => simp [runStatus]
  · intro e
    cases e with
    | exitCall a k =>
      rw [C18_exit_status_anywhere]
      cases a <;> simp [status, execResult, throughNatives, runStatus, exitDefault] <;> split <;> rfl
    | _ => rfl
  · intro e h
    cases e with
    | finished => exact Or.inl rfl
    | exitCall a k =>
      cases a with
      | none => exact Or.inr (Or.inl ⟨k, rfl⟩)
      | some n =>
        refine Or.inr (Or.inr ⟨n, k, ?_, rfl⟩)
        rw [C18_exit_status_anywhere] at h
        simp only [status, execResult, throughNatives, Option.bind_some, runStatus_exit_fst, Option.some.injEq] at h
        have h2 : (2 ^ exitCastBits - 1 : Nat) = 65535 := by decide
        unfold castUnsigned at h
        rw [h2] at h
        split at h
        · omega
        · split at h <;> omega
    | uncaughtError => simp [status, execResult, unhandledResult, runStatus] at h
    | compileError => simp [status, execResult, runStatus] at h
    | importCompileError => simp [status, execResult, signalResult, importCompileErrorSignal, runStatus] at h
    | deadlock => simp [status, execResult, runStatus] at h

/-- **C18_status_kind.**  The kind of exit (`VmExit`) is faithful too: `CompileError` exactly for a
compile error of the script or of a module it imports (with status 1); `Ok` exactly with status 0. -/
theorem C18_status_kind (e : ProgramEnd) (code : Int) (k : VmExit) (h : status e = some (code, k)) :
    (k = .CompileError ↔ e = .compileError ∨ e = .importCompileError) ∧
    (k = .Ok ↔ code = 0) ∧ (k = .CompileError → code = 1) := by
  cases e with
  | exitCall a n =>
    rw [C18_exit_status_anywhere] at h
    cases a with
    | none =>
      simp [status, execResult, throughNatives, runStatus, exitDefault] at h
      obtain ⟨h1, h2⟩ := h; subst h1; subst h2; simp
    | some m =>
      simp only [status, execResult, throughNatives, Option.bind_some] at h
      cases hc : castUnsigned exitCastBits m with
      | zero =>
        rw [hc] at h; simp [runStatus] at h
        obtain ⟨h1, h2⟩ := h; subst h1; subst h2; simp
      | succ j =>
        rw [hc] at h; simp [runStatus] at h
        obtain ⟨h1, h2⟩ := h; subst h1; subst h2
        simp; omega
  | _ =>
    simp [status, execResult, signalResult, importCompileErrorSignal, unhandledResult, runStatus, exitCodeInit] at h
    obtain ⟨h1, h2⟩ := h; subst h1; subst h2; simp

/-- Outside `0..65535` the argument of `exit` saturates (Rust's `f64 as u16`); the property's
"status n" cannot hold there.  (Further, the operating system keeps only the low 8 bits of what
`process::exit` receives.) -/
theorem C18_status_saturates :
    status (.exitCall (some (-3)) 0) = some (0, .Ok) ∧
    status (.exitCall (some 70000) 0) = some (65535, .RuntimeError) := by
  constructor <;> rfl

/-! ### non-vacuity and witnesses -/

/-- A line table as the compiler produces it: `obj.m()` fused into `Invoke` + slot on line 7. -/
def exStream : List IL :=
  [(.GetModSym 1, 7), (.GetPropByName 3, 7), (.PropertySlot, 7), (.Call 0, 8), (.Drop, 8), (.Nil, 9), (.Return, 9)]

example : wellSlotted exStream = true := by decide
example : opt exStream = [(.GetModSym 1, 7), (.Invoke 3 0, 7), (.InvokeSlot, 7), (.Drop, 8), (.Nil, 9), (.Return, 9)] := by
  simp [exStream, opt, spanEq, dups, skipDead]
example : wellSlotted [(.GetModSym 1, 7), (.Invoke 3 0, 7), (.InvokeSlot, 7), (.Drop, 8), (.Nil, 9), (.Return, 9)] = true := by
  decide
/-- the frame suspended in the `Invoke` has ip = 3 + 4 + 4 = 11 (behind the slot): line 7, not 8 -/
example : frameLineNo (encodeLines [.GetModSym 1, .Invoke 3 0, .InvokeSlot, .Drop, .Nil, .Return] [7, 7, 7, 8, 9, 9]) 11
    = some 7 := by decide
example : encodeLines [.GetModSym 1, .Invoke 3 0, .InvokeSlot, .Drop, .Nil, .Return] [7, 7, 7, 8, 9, 9]
    = [7, 7, 7, 7, 7, 7, 7, 7, 7, 7, 7, 8, 9, 9] := by decide
/-- without the `− 1` the same frame would be reported on line 8 -/
example : getLine (encodeLines [.GetModSym 1, .Invoke 3 0, .InvokeSlot, .Drop, .Nil, .Return] [7, 7, 7, 8, 9, 9]) 11
    = some 8 := by decide

/-- Four frames, a declining handler in frame 3 and an accepting one in frame 1. -/
def exFiber : Fiber :=
  { frames := [⟨0, 40⟩, ⟨1, 12⟩, ⟨2, 30⟩, ⟨3, 5⟩], handlers := [⟨50, 3⟩, ⟨70, 1⟩], backtraceIps := [], cur := 3 }

example : running exFiber = true := by decide
/-- raise at ip 9 in frame 3; frame 2's clause declines (its `ContinueUnwind` sits at 58), the
script's clause accepts: all four frames, innermost first, with the ips of the raise — frame 2 is
reported at 30 − 1, not at the 58 its saved ip was overwritten with. -/
example : unwindRun none exFiber 9 [(false, 58), (true, 0)] =
    .caught [(3, 8), (2, 29), (1, 11), (0, 39)]
      { frames := [⟨0, 70⟩], handlers := [⟨70, 1⟩], backtraceIps := [], cur := 0 } := by decide

/-- When every clause declines, the error is unhandled.  The *own* ip of frame 2 — whose clause
declined — now points into its catch clause (58, where `ContinueUnwind` ran; the frame the raise
left at 9 is untouched), its suspended call (30) survives in the capture buffer … -/
example :
    unwindRun none { exFiber with handlers := [⟨50, 3⟩] } 9 [(false, 58)] =
      .uncaught { frames := [⟨0, 40⟩, ⟨1, 12⟩, ⟨2, 58⟩, ⟨3, 9⟩], handlers := [], backtraceIps := [9, 30], cur := 2 } := by
  decide
/-- … and `print_error` reports frame 2 at 30 − 1, its suspended call (repaired finding D181: it
used to read the frame's own ip and reported 58 − 1, a position inside the catch clause); the frames
the search never reached (1 and 0) are reported from their own ip. -/
example :
    tracebackEntries { frames := [⟨0, 40⟩, ⟨1, 12⟩, ⟨2, 58⟩, ⟨3, 9⟩], handlers := [], backtraceIps := [9, 30], cur := 2 } =
      [(3, 8), (2, 29), (1, 11), (0, 39)] := by decide
/-- two nested `try` in frame 2 both decline (their `ContinueUnwind`s at 58 and 66), then one in
frame 1: each frame is captured once, when the search first reaches it -/
example :
    (match unwindRun none { exFiber with handlers := [⟨50, 3⟩, ⟨60, 3⟩, ⟨20, 2⟩] } 9 [(false, 58), (false, 66), (false, 25)] with
     | .uncaught f' => some (f'.frames, tracebackEntries f')
     | _ => none) =
      some ([⟨0, 40⟩, ⟨1, 25⟩, ⟨2, 66⟩, ⟨3, 9⟩], [(3, 8), (2, 29), (1, 11), (0, 39)]) := by decide

/-- **Witness of a genuine defect** (known finding D186): the class expression of frame 2's catch
clause is not a subclass of `Error`.  `CheckHandler` (behind byte 52 of the clause) calls
`error_while_handling` — pop the handler, clear the capture buffer — and raises `TypeError` from
frame 2; the frames above it, abandoned by the unwind of the first error, are still on the fiber
(only `finish_unwind` truncates), so the traceback of the `TypeError` starts with function 3 at the
raise site of the *first* error. -/
theorem C18_witness_filter_error_keeps_abandoned_frames :
    (match stackUnwind (storeIp { exFiber with handlers := [⟨50, 3⟩] } 9) none with
     | .potentiallyHandled f1 =>
       (match unwindFrom none (storeIp (errorWhileHandling f1) 53) [] with
        | .uncaught g => some (tracebackEntries g)
        | _ => none)
     | _ => none) = some [(3, 8), (2, 52), (1, 11), (0, 39)] := by decide

example : status (.exitCall (some 42) 0) = some (42, .RuntimeError) := by rfl
example : status (.exitCall (some 0) 0) = some (0, .Ok) := by rfl
/-- `exit(3)` inside the comparator of a `sort` inside an `each` -/
example : status (.exitCall (some 3) 2) = some (3, .RuntimeError) := by rfl

/-- A `try` in the script (depth 1) drives `[0].iter().map(cb).list()` (stack-less: no stub frame,
so the native recorded 1 frame); `cb` (frame 1) raises at ip 9.  The callback's loop stops … -/
example : unwindRun (some 1) { frames := [⟨0, 40⟩, ⟨1, 5⟩], handlers := [⟨70, 1⟩], backtraceIps := [], cur := 1 } 9 [(true, 0)]
    = .stopped { frames := [⟨0, 40⟩, ⟨1, 9⟩], handlers := [⟨70, 1⟩], backtraceIps := [], cur := 1 } [(true, 0)] := by decide
/-- … and the script's loop catches, with both frames in the backtrace. -/
example : unwindLoops [1] (storeIp { frames := [⟨0, 40⟩, ⟨1, 5⟩], handlers := [⟨70, 1⟩], backtraceIps := [], cur := 1 } 9) [(true, 0)]
    = .caught [(1, 8), (0, 39)] { frames := [⟨0, 70⟩], handlers := [⟨70, 1⟩], backtraceIps := [], cur := 0 } := by decide
/-- a handler inside the callback itself (depth 2 > 1) is run by the callback's loop -/
example : unwindRun (some 1) { frames := [⟨0, 40⟩, ⟨1, 5⟩], handlers := [⟨20, 2⟩], backtraceIps := [], cur := 1 } 9 [(true, 0)]
    = .caught [(1, 8)] { frames := [⟨0, 40⟩, ⟨1, 20⟩], handlers := [⟨20, 2⟩], backtraceIps := [], cur := 1 } := by decide

/-! `C18_traceback_frames` and `C18_backtrace_frames` speak about an error raised by a *running*
fiber.  The one error raised while a search is in progress — `CheckHandler`'s `TypeError` for a
class filter that is no subclass of `Error` — starts from `errorWhileHandling`, which is not a
running state (frames above the handler's frame are still there): open finding D186, witness above.

Not proved here (sampled by the program-level stream instead): that the compiler attaches to
each call / raise instruction a line inside the source span of that expression, and that the ip the
VM saves always satisfies the hypothesis of `C18_saved_ip_line`. -/

end LaytheVerif.C18
