/-
C04 — Exceptions transfer control to the right handler and preserve program state.
Theorems about `Model/Handlers.lean`.  No bound on the number of frames, temporaries, handlers,
catch clauses, instructions or path lengths.
-/
import LaytheVerif.Model.Handlers
import LaytheVerif.Lemmas.HandlersFlow
import LaytheVerif.Gen.HandlerRules

namespace LaytheVerif.C04
open LaytheVerif.Gen LaytheVerif.Handlers

/-! ### C04_unwind_restores -/

theorem setTop_le (n : Nat) (s : List Val) (h : n ≤ s.length) : setTop n s = s.take n := by
  unfold setTop
  have : n - s.length = 0 := by omega
  simp [this]

/-- `Fiber::stack_unwind` on a fiber whose innermost handler `h` belongs to a live frame that starts
at `st`, when the recorded depth does not exceed the live depth: control goes to the handler, the
stack is cut to exactly `st + h.slotDepth` slots and everything below is untouched. -/
theorem stackUnwind_core (f : Fiber) (h : Handler) (rest : List Handler) (fr : Frame)
    (bottom : Option Nat)
    (hh : f.handlers = h :: rest) (hb : bottom.getD 0 < h.frameDepth)
    (hfr : f.frames[h.frameDepth - 1]? = some fr)
    (hd : fr.start + h.slotDepth ≤ f.stack.length) :
    f.stackUnwind bottom =
      (.potentiallyHandled,
        { f with unwinding := true
                 frames := f.frames.set (h.frameDepth - 1) { fr with ip := h.offset }
                 cur := h.frameDepth - 1
                 stack := f.stack.take (fr.start + h.slotDepth) }) := by
  unfold Fiber.stackUnwind
  rw [hh]
  simp only [hb, ↓reduceIte, hfr, setTop_le _ _ hd]

theorem storeIp_fields (f : Fiber) :
    f.storeIp.handlers = f.handlers ∧ f.storeIp.stack = f.stack ∧ f.storeIp.error = f.error ∧
    f.storeIp.frames.length = f.frames.length ∧
    (∀ k : Nat, (f.storeIp.frames[k]?).map Frame.start = (f.frames[k]?).map Frame.start) := by
  unfold Fiber.storeIp
  split
  · rename_i fr hfr
    refine ⟨rfl, rfl, rfl, by simp, ?_⟩
    intro k
    by_cases hk : f.cur = k
    · subst hk
      have : f.cur < f.frames.length := by
        rcases Nat.lt_or_ge f.cur f.frames.length with h | h
        · exact h
        · rw [List.getElem?_eq_none h] at hfr; cases hfr
      have hg := List.getElem?_eq_getElem this
      rw [hg] at hfr
      cases hfr
      simp [this]
    · simp [List.getElem?_set_ne hk]
  · exact ⟨rfl, rfl, rfl, rfl, fun _ => rfl⟩

/-- **C04_unwind_restores (mechanism).**  For ANY fiber state in which handler `h` is innermost — any
number of frames above the handler's frame, any number of temporaries above the recorded depth — a
raise (explicit, runtime or native error, in normal mode or inside a native re-entry whose bottom
frame is strictly below `h.frameDepth`) resumes at `h.offset` in frame `h.frameDepth`, with `h.frameDepth` frames left
after `FinishUnwind`, the handler still installed for the clause tests, and every stack slot below
`start + h.slotDepth` — all slots of the frames below and the first `h.slotDepth` slots of the
handler's frame — unchanged. -/
theorem C04_unwind_restores_mechanism (f : Fiber) (h : Handler) (rest : List Handler) (st : Nat)
    (mode : Option Nat)
    (hh : f.handlers = h :: rest) (hb : mode.getD 0 < h.frameDepth)
    (hfr : (f.frames[h.frameDepth - 1]?).map Frame.start = some st)
    (hd : st + h.slotDepth ≤ f.stack.length) :
    (f.raise mode).1 = .potentiallyHandled ∧
    (f.raise mode).2.ip = h.offset ∧
    (f.raise mode).2.cur = h.frameDepth - 1 ∧
    (f.raise mode).2.stack = f.stack.take (st + h.slotDepth) ∧
    (f.raise mode).2.stack.length = st + h.slotDepth ∧
    (∀ i, i < st + h.slotDepth → (f.raise mode).2.stack[i]? = f.stack[i]?) ∧
    (f.raise mode).2.handlers = h :: rest ∧
    (f.raise mode).2.error = f.error ∧
    ((f.raise mode).2.finishUnwind).map (·.frames.length) = some h.frameDepth := by
  obtain ⟨s1, s2, s3, s4, s5⟩ := storeIp_fields f
  have hfr' := (s5 (h.frameDepth - 1)).trans hfr
  obtain ⟨fr1, hfr1, hst1⟩ : ∃ fr1, f.storeIp.frames[h.frameDepth - 1]? = some fr1 ∧ fr1.start = st := by
    cases hx : f.storeIp.frames[h.frameDepth - 1]? with
    | none => rw [hx] at hfr'; cases hfr'
    | some x => rw [hx] at hfr'; exact ⟨x, rfl, by simpa using hfr'⟩
  have hk : h.frameDepth - 1 < f.storeIp.frames.length := by
    rcases Nat.lt_or_ge (h.frameDepth - 1) f.storeIp.frames.length with h' | h'
    · exact h'
    · rw [List.getElem?_eq_none h'] at hfr1; cases hfr1
  have hcore := stackUnwind_core f.storeIp h rest fr1 mode (s1 ▸ hh) hb hfr1
    (by rw [s2, hst1]; exact hd)
  have hraise : f.raise mode =
      (.potentiallyHandled,
        { f.storeIp with unwinding := true
                         frames := f.storeIp.frames.set (h.frameDepth - 1) { fr1 with ip := h.offset }
                         cur := h.frameDepth - 1
                         stack := f.stack.take (st + h.slotDepth)
                         ip := h.offset }) := by
    unfold Fiber.raise
    rw [hcore]
    simp [Fiber.loadIp, hk, s2, hst1]
  rw [hraise]
  refine ⟨rfl, rfl, rfl, rfl, ?_, ?_, ?_, s3, ?_⟩
  · simp only [List.length_take]; omega
  · intro i hi
    simp only
    rw [List.getElem?_take_of_lt hi]
  · simp only [s1, hh]
  · simp only [Fiber.finishUnwind, s1, hh, ↓reduceIte, Option.map_some, List.length_take,
      List.length_set]
    congr 1; omega

/-- **C04_unwind_restores.**  From the `try` to the raise.  Let `f0` be the fiber when `PushHandler`
executes in its top frame `fr` (which starts at `fr.start`), with true depth
`d = f0.stack.length - fr.start`, and let the instruction record `rd`.  Consider ANY later state `f`
in which that handler is again innermost: the `k` frames are still there (with any saved ips), any
number of deeper frames were pushed, the slots that existed at the `try` hold whatever values they
have been given since (`base`, same length), and any number of temporaries lie above.
**If the recorded depth is the true depth (`rd = d`)**, a raise resumes at the catch offset with
`k` frames and with exactly the slots `base`: every parameter, local and box reference in scope at
the `try` has the value it had when the error was raised. -/
theorem C04_unwind_restores
    (f0 : Fiber) (fs : List Frame) (fr : Frame) (rd jump : Nat)
    (hfr0 : f0.frames = fs ++ [fr]) (hstart : fr.start ≤ f0.stack.length)
    (hrec : rd = f0.stack.length - fr.start)
    (f : Fiber) (fs' deeper : List Frame) (fr' : Frame) (base temps : List Val)
    (hsame : f.handlers = (opPushHandler f0 rd jump).handlers)
    (hframes : f.frames = fs' ++ [fr'] ++ deeper) (hfs : fs'.length = fs.length)
    (hst : fr'.start = fr.start)
    (hstack : f.stack = base ++ temps) (hbase : base.length = f0.stack.length) :
    (f.raise none).1 = .potentiallyHandled ∧
    (f.raise none).2.ip = f0.ip + 5 + jump ∧
    (f.raise none).2.stack = base ∧
    (f.raise none).2.cur + 1 = f0.frames.length ∧
    ((f.raise none).2.finishUnwind).map (·.frames.length) = some f0.frames.length := by
  have hH : f.handlers = ⟨f0.ip + 5 + jump, f0.frames.length, rd⟩ :: f0.handlers := by
    rw [hsame]; simp [opPushHandler, Fiber.pushExceptionHandler]
  have hk : f0.frames.length = fs.length + 1 := by simp [hfr0]
  have hget : (f.frames[f0.frames.length - 1]?).map Frame.start = some fr.start := by
    rw [hframes, hk]
    have : fs.length + 1 - 1 = fs'.length := by omega
    rw [this]
    simp [hst]
  have := C04_unwind_restores_mechanism f ⟨f0.ip + 5 + jump, f0.frames.length, rd⟩ f0.handlers
    fr.start none hH (by simp [hk]) hget
    (by simp only [hstack, List.length_append, hbase, hrec]; omega)
  obtain ⟨h1, h2, h3, h4, _, _, _, _, h9⟩ := this
  refine ⟨h1, h2, ?_, ?_, h9⟩
  · rw [h4, hstack]
    have : fr.start + rd = base.length := by omega
    simp [this]
  · rw [h3]; simp only; omega

/-- non-vacuity: a two-frame fiber, `fn f(a, b)` with one local, handler pushed at true depth 4,
raise from two frames deeper with three temporaries. -/
example :
    let f0 : Fiber := { stack := [.nil, .num 7, .cls errorCls, .num 1, .num 2, .num 3],
                        frames := [⟨0, 9, 0⟩, ⟨1, 0, 2⟩], cur := 1, ip := 10 }
    let f1 := opPushHandler f0 4 20
    let f : Fiber := { f1 with stack := [.nil, .num 7, .cls errorCls, .num 1, .num 5, .num 3, .nil, .nil, .num 9],
                               frames := [⟨0, 9, 0⟩, ⟨1, 33, 2⟩, ⟨2, 4, 6⟩, ⟨3, 1, 7⟩], cur := 3,
                               error := some (.inst errorCls 0) }
    (f.raise none).1 = .potentiallyHandled ∧ (f.raise none).2.ip = 35 ∧
    (f.raise none).2.stack = [.nil, .num 7, .cls errorCls, .num 1, .num 5, .num 3] ∧
    ((f.raise none).2.finishUnwind).map (·.frames.length) = some 2 := by decide +kernel

/-! ### C04_catch_chain -/

theorem dropLast_push (s : List Val) (v : Val) : (s ++ [v]).dropLast = s := by simp

/-- the fields of a fiber the catch chain depends on -/
structure SameCore (a b : Fiber) : Prop where
  stack : a.stack = b.stack
  frames : a.frames = b.frames
  handlers : a.handlers = b.handlers
  error : a.error = b.error
  unwinding : a.unwinding = b.unwinding

/-- A filter that is a subclass of `Error` but not a superclass of the error's class: the test
jumps to the next clause leaving stack, frames, handlers and error as they were. -/
theorem catchChainFrom_skip (i : Nat) (c : Cls) (vs : List Val) (f : Fiber) (ec : Cls) (p : Nat)
    (herr : f.error = some (.inst ec p)) (hc : c.isSubclass errorCls = true)
    (hn : ec.isSubclass c = false) :
    ∃ f', catchChainFrom i (.cls c :: vs) f = catchChainFrom (i + 1) vs f' ∧ SameCore f' f := by
  refine ⟨{ f with ip := f.ip + 3 }, ?_, ?_⟩
  · simp [catchChainFrom, checkHandlerCore, Fiber.push, Fiber.peek, Fiber.drop, herr, hc, hn]
  · constructor <;> rfl

/-- what entering a clause leaves behind -/
def Entered (f f' : Fiber) (h : Handler) (rest : List Handler) (err : Val) : Prop :=
  f'.handlers = rest ∧ f'.stack = f.stack ++ [err] ∧ f'.frames = f.frames.take h.frameDepth ∧
  f'.unwinding = false ∧ f'.error = some err

theorem enterClause_spec (f : Fiber) (h : Handler) (rest : List Handler) (e : Val)
    (herr : f.error = some e) (hh : f.handlers = h :: rest) (hu : f.unwinding = true) :
    ∃ f', enterClause f = some f' ∧ Entered f f' h rest e := by
  refine ⟨{ f with frames := f.frames.take h.frameDepth, unwinding := false, handlers := rest,
                   stack := f.stack ++ [e], ip := f.ip + 1 + 1 + 1 }, ?_, ?_⟩
  · simp [enterClause, opFinishUnwind, Fiber.finishUnwind, hh, hu, herr, opPopHandler,
      Fiber.popExceptionHandler, opGetError, Fiber.push]
  · simp [Entered, herr]

/-- **C04_catch_chain (a): the clause run is the first whose filter is a superclass of the error's
class** — for any number of earlier non-matching clauses and any later clauses; entering it ends
the unwind (frames cut to the handler's depth), removes the handler and binds the error as the
clause's local on top of the restored stack. -/
theorem C04_catch_chain_first_match (pre : List Cls) (c : Cls) (post : List Val) (f : Fiber)
    (ec : Cls) (p : Nat) (h : Handler) (rest : List Handler) (i : Nat)
    (herr : f.error = some (.inst ec p)) (hh : f.handlers = h :: rest) (hu : f.unwinding = true)
    (hpre : ∀ q ∈ pre, q.isSubclass errorCls = true ∧ ec.isSubclass q = false)
    (hc : c.isSubclass errorCls = true) (hm : ec.isSubclass c = true) :
    ∃ f', catchChainFrom i (pre.map .cls ++ .cls c :: post) f = .clause (i + pre.length) f' ∧
      Entered f f' h rest (.inst ec p) := by
  induction pre generalizing f i with
  | nil =>
    obtain ⟨f', h1, h2⟩ := enterClause_spec { f with ip := f.ip + 3 } h rest (.inst ec p) herr hh hu
    refine ⟨f', ?_, h2⟩
    rw [herr] at h1
    simp [catchChainFrom, checkHandlerCore, Fiber.push, Fiber.peek, Fiber.drop, herr, hc, hm, h1]
  | cons q pre ih =>
    have hq := hpre q (by simp)
    obtain ⟨f1, h1, hs⟩ := catchChainFrom_skip i q (pre.map .cls ++ .cls c :: post) f ec p herr hq.1 hq.2
    obtain ⟨f', h2, he⟩ := ih f1 (i + 1) (hs.error ▸ herr) (hs.handlers ▸ hh) (hs.unwinding ▸ hu)
      (fun q' hq' => hpre q' (by simp [hq']))
    refine ⟨f', ?_, ?_⟩
    · simp only [List.map_cons, List.cons_append, h1, h2, List.length_cons]
      congr 1; omega
    · unfold Entered at *
      rw [hs.stack, hs.frames] at he
      exact he

/-- **C04_catch_chain (b): with no matching clause the handler is popped and unwinding continues**
with the remaining handlers: the next raise step goes to the next handler, or reports `Unhandled`
when none is left (and the stack is as the unwind left it). -/
theorem C04_catch_chain_no_match (pre : List Cls) (f : Fiber) (ec : Cls) (p : Nat) (h : Handler)
    (rest : List Handler) (i : Nat)
    (herr : f.error = some (.inst ec p)) (hh : f.handlers = h :: rest)
    (hpre : ∀ q ∈ pre, q.isSubclass errorCls = true ∧ ec.isSubclass q = false) :
    ∃ f', catchChainFrom i (pre.map .cls) f = .continueUnwind f' ∧
      f'.handlers = rest ∧ f'.stack = f.stack ∧ f'.error = f.error ∧ f'.frames = f.frames ∧
      (rest = [] → (f'.raise none).1 = .unhandled) := by
  induction pre generalizing f i with
  | nil =>
    refine ⟨{ f with handlers := rest, ip := f.ip + 1 }, ?_, rfl, rfl, rfl, rfl, ?_⟩
    · simp [catchChainFrom, opContinueUnwind, Fiber.popExceptionHandler, hh]
    · intro hr
      subst hr
      have hs : ({ f with handlers := [], ip := f.ip + 1 } : Fiber).storeIp.handlers = [] := by
        unfold Fiber.storeIp; split <;> rfl
      simp [Fiber.raise, Fiber.stackUnwind, hs]
  | cons q pre ih =>
    have hq := hpre q (by simp)
    obtain ⟨f1, h1, hs⟩ := catchChainFrom_skip i q (pre.map .cls) f ec p herr hq.1 hq.2
    obtain ⟨f', h2, he⟩ := ih f1 (i + 1) (hs.error ▸ herr) (hs.handlers ▸ hh)
      (fun q' hq' => hpre q' (by simp [hq']))
    refine ⟨f', by simp only [List.map_cons, h1, h2], ?_⟩
    rw [hs.stack, hs.error, hs.frames] at he
    exact he

/-- a filter value that `op_check_handler` rejects -/
def BadFilter (v : Val) : Prop :=
  match v with
  | .cls c => c.isSubclass errorCls = false
  | _ => True

/-- **C04_catch_chain (c): a filter that is not a subclass of `Error`** (reached after any number of
non-matching clauses) removes the handler and raises
`TypeError("Catch block must be blank or a subclass of Error.")`, which therefore goes to the NEXT
handler, never to this try's own clauses. -/
theorem C04_catch_chain_bad_filter (pre : List Cls) (v : Val) (post : List Val) (f : Fiber)
    (ec : Cls) (p : Nat) (h : Handler) (rest : List Handler) (i : Nat)
    (herr : f.error = some (.inst ec p)) (hh : f.handlers = h :: rest)
    (hpre : ∀ q ∈ pre, q.isSubclass errorCls = true ∧ ec.isSubclass q = false)
    (hv : BadFilter v) :
    ∃ f', catchChainFrom i (pre.map .cls ++ v :: post) f = .filterError (i + pre.length) f' ∧
      f'.handlers = rest ∧ f'.error = some (.inst typeErrorCls msgCatchNotError) ∧
      f'.frames = f.frames := by
  induction pre generalizing f i with
  | nil =>
    refine ⟨{ f with stack := f.stack ++ [v], handlers := rest, ip := f.ip + 3,
                     error := some (.inst typeErrorCls msgCatchNotError) }, ?_, rfl, rfl, rfl⟩
    cases v with
    | cls c =>
      have hc : c.isSubclass errorCls = false := hv
      simp [catchChainFrom, checkHandlerCore, Fiber.push, Fiber.peek, herr, hc,
        Fiber.errorWhileHandling, Fiber.popExceptionHandler, hh, runtimeError]
    | _ =>
      simp [catchChainFrom, checkHandlerCore, Fiber.push, Fiber.peek, herr,
        Fiber.errorWhileHandling, Fiber.popExceptionHandler, hh, runtimeError]
  | cons q pre ih =>
    have hq := hpre q (by simp)
    obtain ⟨f1, h1, hs⟩ := catchChainFrom_skip i q (pre.map .cls ++ v :: post) f ec p herr hq.1 hq.2
    obtain ⟨f', h2, he⟩ := ih f1 (i + 1) (hs.error ▸ herr) (hs.handlers ▸ hh)
      (fun q' hq' => hpre q' (by simp [hq']))
    refine ⟨f', ?_, ?_⟩
    · simp only [List.map_cons, List.cons_append, h1, h2, List.length_cons]
      congr 1; omega
    · rw [hs.frames] at he
      exact he

/-- user classes for the examples: `class MyErr : Error {}`, `class Sub : MyErr {}`, `class Other : Error {}`,
`class Fake {}` -/
def myErr : Cls := .sub 10 errorCls
def subErr : Cls := .sub 11 myErr
def otherErr : Cls := .sub 12 errorCls
def fakeCls : Cls := .sub 13 objectCls

/-- non-vacuity of (a): `raise Sub(..)` against `catch Other / catch MyErr / catch Error` runs clause 1 -/
example :
    let f : Fiber := { stack := [.nil, .num 1], frames := [⟨0, 30, 0⟩, ⟨1, 5, 2⟩], cur := 0,
                       handlers := [⟨30, 1, 2⟩], error := some (.inst subErr 7), unwinding := true, ip := 30 }
    let r := (catchChain [.cls otherErr, .cls myErr, .cls errorCls] f).view
    r.1 = "clause" ∧ r.2.1 = 1 ∧ r.2.2.map (·.stack) = some [.nil, .num 1, .inst subErr 7] ∧
    r.2.2.map (·.handlers) = some [] ∧ r.2.2.map (·.frames.length) = some 1 := by decide +kernel

/-- non-vacuity of (b) and (c) -/
example :
    let f : Fiber := { stack := [.nil], frames := [⟨0, 30, 0⟩], handlers := [⟨30, 1, 1⟩, ⟨90, 1, 1⟩],
                       error := some (.inst otherErr 7), unwinding := true, ip := 30 }
    let r1 := (catchChain [.cls myErr, .cls subErr] f).view
    let r2 := (catchChain [.cls myErr, .cls fakeCls, .cls errorCls] f).view
    let r3 := (catchChain [.str "Something Else"] f).view
    r1.1 = "continue" ∧ r1.2.2.map (·.handlers) = some [⟨90, 1, 1⟩] ∧
    r1.2.2.map (fun f' => (f'.raise none).2.ip) = some 90 ∧
    r2.1 = "filter-error" ∧ r2.2.1 = 1 ∧ r2.2.2.map (·.handlers) = some [⟨90, 1, 1⟩] ∧
    r2.2.2.map (·.error) = some (some (.inst typeErrorCls msgCatchNotError)) ∧
    r3.1 = "filter-error" ∧ r3.2.1 = 0 := by decide +kernel

/-- `op_raise` accepts exactly instances of subclasses of `Error`. -/
theorem C04_raise_only_errors (f : Fiber) (s : List Val) (v : Val) (hs : f.stack = s ++ [v]) :
    (opRaise f).1 = .runtimeError ∧ (opRaise f).2.stack = s ∧
    (opRaise f).2.error =
      (match v with
       | .inst c p => if c.isSubclass errorCls then some (.inst c p)
                      else some (.inst runtimeErrorCls msgRaiseNotError)
       | _ => some (.inst runtimeErrorCls msgRaiseNotError)) := by
  unfold opRaise
  simp only [Fiber.peek, hs, Fiber.drop]
  cases v <;> simp [runtimeError]
  split <;> simp

/-! ### C04_native_boundary -/

/-- **C04_native_boundary (the fiber-level rule).**  While native code has re-entered the
interpreter at frame count `b` (`ExecutionMode::CallingNativeCode(b)`), an unwind either resumes in
a handler whose frame is STRICTLY ABOVE the re-entry depth — a handler installed by code this nested
loop itself runs — or stops without touching the fiber — error still set, so `to_call_result` hands
`Call::Err(error)` back to the native, whose caller (`call_native`) signals it again in the outer
mode.  It never reports `Unhandled` (prints no traceback) from inside the re-entry, and it stops
exactly when there is no handler or the innermost one sits at or below the re-entry depth. -/
theorem C04_native_boundary (f : Fiber) (b : Nat) :
    (f.stackUnwind (some b)).1 ≠ .unhandled ∧
    ((f.stackUnwind (some b)).1 = .unwindStopped → (f.stackUnwind (some b)).2 = f) ∧
    ((f.stackUnwind (some b)).1 = .potentiallyHandled →
      ∃ h rest, f.handlers = h :: rest ∧ b < h.frameDepth ∧
        (f.stackUnwind (some b)).2.cur + 1 = h.frameDepth ∧
        (f.stackUnwind (some b)).2.handlers = f.handlers) ∧
    ((f.stackUnwind (some b)).1 = .unwindStopped ↔
      (f.handlers = [] ∨ ∃ h rest, f.handlers = h :: rest ∧ h.frameDepth ≤ b)) := by
  unfold Fiber.stackUnwind
  cases hh : f.handlers with
  | nil => simp
  | cons h rest =>
    simp only [Option.getD_some]
    by_cases hb : b < h.frameDepth
    · simp only [hb, ↓reduceIte]
      cases hfr : f.frames[h.frameDepth - 1]? with
      | none =>
        refine ⟨by simp, by simp, by simp, ?_⟩
        constructor
        · intro hx; cases hx
        · intro hx
          rcases hx with hx | ⟨h', rest', hx, hle⟩
          · cases hx
          · cases hx; omega
      | some fr =>
        refine ⟨by simp, by simp, fun _ => ⟨h, rest, rfl, hb, ?_, rfl⟩, ?_⟩
        · simp only; omega
        · constructor
          · intro hx; cases hx
          · intro hx
            rcases hx with hx | ⟨h', rest', hx, hle⟩
            · cases hx
            · cases hx; omega
    · simp only [hb, ↓reduceIte]
      refine ⟨by simp, by simp, by simp, ?_⟩
      constructor
      · intro _; exact Or.inr ⟨h, rest, rfl, by omega⟩
      · intro _; trivial

/-- non-vacuity: handler in the script frame (depth 1), native re-entered at depth 2 (script + native
stub), callback frame on top: the unwind stops; the same raise in normal mode reaches the handler. -/
example :
    let f : Fiber := { stack := [.nil, .nil, .nil, .nil], frames := [⟨0, 40, 0⟩, ⟨9, 0, 1⟩, ⟨2, 6, 2⟩], cur := 2,
                       handlers := [⟨77, 1, 1⟩], error := some (.inst errorCls 0), ip := 6 }
    (f.stackUnwind (some 2)).1 = .unwindStopped ∧ (f.raise none).1 = .potentiallyHandled ∧
    (f.raise none).2.ip = 77 := by decide +kernel

theorem storeIp_idem (f : Fiber) : f.storeIp.storeIp = f.storeIp := by
  unfold Fiber.storeIp
  cases hfr : f.frames[f.cur]? with
  | none => simp [hfr]
  | some fr =>
    have hlt : f.cur < f.frames.length := by
      rcases Nat.lt_or_ge f.cur f.frames.length with h | h
      · exact h
      · rw [List.getElem?_eq_none h] at hfr; cases hfr
    simp [hlt]

/-- an unwind that stops leaves the fiber as `store_ip` left it -/
theorem raise_stopped (f : Fiber) (h : Handler) (rest : List Handler) (b : Nat)
    (hh : f.handlers = h :: rest) (hle : h.frameDepth ≤ b) :
    f.raise (some b) = (.unwindStopped, f.storeIp) := by
  have s1 := (storeIp_fields f).1
  unfold Fiber.raise Fiber.stackUnwind
  rw [s1, hh]
  have : ¬ b < h.frameDepth := by omega
  simp [this]

theorem raise_stopped_nil (f : Fiber) (b : Nat) (hh : f.handlers = []) :
    f.raise (some b) = (.unwindStopped, f.storeIp) := by
  have s1 := (storeIp_fields f).1
  unfold Fiber.raise Fiber.stackUnwind
  rw [s1, hh]

/-- `raise` only looks at the fiber after `store_ip` -/
theorem raise_storeIp (f : Fiber) (mode : Option Nat) : f.storeIp.raise mode = f.raise mode := by
  unfold Fiber.raise
  rw [storeIp_idem]

theorem raiseThrough_storeIp (f : Fiber) (levels : List Nat) :
    f.storeIp.raiseThrough levels = f.raiseThrough levels := by
  cases levels with
  | nil => simp [Fiber.raiseThrough, raise_storeIp]
  | cons b outer => simp [Fiber.raiseThrough, raise_storeIp]

/-- **C04_raise_through_natives.**  An error signalled under ANY chain of native re-entries
(`levels`: their bottom frames, innermost first — any number, any depths) is delivered to the
innermost handler `h` of the Laythe-level call chain — never to a later one, whatever native frames
lie in between — with exactly the state `C04_unwind_restores_mechanism` describes (catch offset,
frames to cut, stack cut to the recorded depth, everything below untouched, error kept), and at
that moment precisely the re-entries whose bottom frame is at or above the handler's frame have
returned: the catch clause runs in the interpreter loop that remains innermost after dropping them,
never nested inside a native that was called from the handler's own frame or above it. -/
theorem C04_raise_through_natives (levels : List Nat) (f : Fiber) (h : Handler) (rest : List Handler)
    (st : Nat)
    (hh : f.handlers = h :: rest) (hpos : 0 < h.frameDepth)
    (hfr : (f.frames[h.frameDepth - 1]?).map Frame.start = some st)
    (hd : st + h.slotDepth ≤ f.stack.length) :
    (f.raiseThrough levels).1 = .potentiallyHandled ∧
    (f.raiseThrough levels).2.2 = levels.dropWhile (fun b => decide (h.frameDepth ≤ b)) ∧
    (f.raiseThrough levels).2.1.ip = h.offset ∧
    (f.raiseThrough levels).2.1.cur = h.frameDepth - 1 ∧
    (f.raiseThrough levels).2.1.stack = f.stack.take (st + h.slotDepth) ∧
    (∀ i, i < st + h.slotDepth → (f.raiseThrough levels).2.1.stack[i]? = f.stack[i]?) ∧
    (f.raiseThrough levels).2.1.handlers = h :: rest ∧
    (f.raiseThrough levels).2.1.error = f.error ∧
    ((f.raiseThrough levels).2.1.finishUnwind).map (·.frames.length) = some h.frameDepth := by
  induction levels generalizing f with
  | nil =>
    obtain ⟨a1, a2, a3, a4, _, a6, a7, a8, a9⟩ :=
      C04_unwind_restores_mechanism f h rest st none hh (by simpa using hpos) hfr hd
    exact ⟨a1, rfl, a2, a3, a4, a6, a7, a8, a9⟩
  | cons b outer ih =>
    by_cases hb : b < h.frameDepth
    · obtain ⟨a1, a2, a3, a4, _, a6, a7, a8, a9⟩ :=
        C04_unwind_restores_mechanism f h rest st (some b) hh (by simpa using hb) hfr hd
      have hr : f.raiseThrough (b :: outer) = ((f.raise (some b)).1, (f.raise (some b)).2, b :: outer) := by
        unfold Fiber.raiseThrough
        cases hx : f.raise (some b) with
        | mk r f' =>
          rw [hx] at a1
          simp only at a1
          subst a1
          rfl
      rw [hr]
      refine ⟨a1, ?_, a2, a3, a4, a6, a7, a8, a9⟩
      have : ¬ h.frameDepth ≤ b := by omega
      simp [this]
    · have hle : h.frameDepth ≤ b := by omega
      have hr : f.raiseThrough (b :: outer) = f.raiseThrough outer := by
        conv => lhs; unfold Fiber.raiseThrough
        rw [raise_stopped f h rest b hh hle]
        exact raiseThrough_storeIp f outer
      rw [hr]
      obtain ⟨a1, a2, a3⟩ := ih f hh hfr hd
      refine ⟨a1, ?_, a3⟩
      rw [a2]
      simp [List.dropWhile, hle]

/-- with no handler at all the error is reported exactly once, by the outermost loop, after every
native on the host stack has returned it; the stack is untouched -/
theorem C04_raise_through_natives_unhandled (levels : List Nat) (f : Fiber) (hh : f.handlers = []) :
    (f.raiseThrough levels).1 = .unhandled ∧ (f.raiseThrough levels).2.2 = [] ∧
    (f.raiseThrough levels).2.1.stack = f.stack ∧ (f.raiseThrough levels).2.1.error = f.error ∧
    (f.raiseThrough levels).2.1.frames.length = f.frames.length := by
  induction levels with
  | nil =>
    obtain ⟨s1, s2, s3, s4, _⟩ := storeIp_fields f
    have : f.raise none = (.unhandled, f.storeIp) := by
      unfold Fiber.raise Fiber.stackUnwind
      rw [s1, hh]
    unfold Fiber.raiseThrough
    rw [this]
    exact ⟨rfl, rfl, s2, s3, s4⟩
  | cons b outer ih =>
    have hr : f.raiseThrough (b :: outer) = f.raiseThrough outer := by
      conv => lhs; unfold Fiber.raiseThrough
      rw [raise_stopped_nil f b hh]
      exact raiseThrough_storeIp f outer
    rw [hr]
    exact ih

theorem dropWhile_append_all (p : Nat → Bool) (newer older : List Nat)
    (hn : ∀ b ∈ newer, p b = true) (ho : ∀ b ∈ older.head?, p b = false) :
    (newer ++ older).dropWhile p = older := by
  induction newer with
  | nil =>
    cases older with
    | nil => rfl
    | cons a r =>
      have := ho a (by simp)
      simp [this]
  | cons a r ih =>
    have ha := hn a (by simp)
    simp only [List.cons_append, List.dropWhile, ha]
    exact ih (fun b hb => hn b (by simp [hb]))

/-- **C04_handler_runs_in_its_own_loop.**  From the `try` to the raise, with natives in between.
`PushHandler` executes in a fiber `f0` while the re-entries `older` are on the host stack; every
nested loop runs with at least its callee's frame above its bottom (`b < frame count`, which is what
`run_fun` establishes by recording the depth before it pushes the frame).  Later any number of
further re-entries `newer` happened while the handler's frame was still live (their bottoms are
`≥` the handler's frame depth — the frame count can only have been at or above it), and the handler
is again innermost.  A raise now is delivered to that handler, and when its catch clause starts
exactly `older` is left on the host stack: every native entered after the `try` has returned the
error, no native entered before it has been abandoned — the clause runs in the very loop that ran
the `try`. -/
theorem C04_handler_runs_in_its_own_loop
    (f0 : Fiber) (older newer : List Nat) (rd jump : Nat)
    (hold : ∀ b ∈ older, b < f0.frames.length)
    (hpos : 0 < f0.frames.length)
    (h : Handler) (hpush : (opPushHandler f0 rd jump).handlers = h :: f0.handlers)
    (f : Fiber) (rest : List Handler) (st : Nat)
    (hsame : f.handlers = h :: rest)
    (hnew : ∀ b ∈ newer, f0.frames.length ≤ b)
    (hfr : (f.frames[f0.frames.length - 1]?).map Frame.start = some st)
    (hd : st + rd ≤ f.stack.length) :
    (f.raiseThrough (newer ++ older)).1 = .potentiallyHandled ∧
    (f.raiseThrough (newer ++ older)).2.2 = older ∧
    (f.raiseThrough (newer ++ older)).2.1.ip = f0.ip + 5 + jump ∧
    (f.raiseThrough (newer ++ older)).2.1.stack = f.stack.take (st + rd) := by
  have hH : f.handlers = ⟨f0.ip + 5 + jump, f0.frames.length, rd⟩ :: rest := by
    rw [hsame]
    simp only [opPushHandler, Fiber.pushExceptionHandler, List.cons.injEq, and_true] at hpush
    rw [← hpush]
  obtain ⟨a1, a2, a3, _, a5, _⟩ :=
    C04_raise_through_natives (newer ++ older) f ⟨f0.ip + 5 + jump, f0.frames.length, rd⟩ rest st hH hpos hfr hd
  refine ⟨a1, ?_, a3, a5⟩
  rw [a2]
  apply dropWhile_append_all
  · intro b hb; simpa using hnew b hb
  · intro b hb
    have : b ∈ older := by
      cases older with
      | nil => simp at hb
      | cons a r => simp at hb; simp [hb]
    have := hold b this
    simp only [decide_eq_false_iff_not]; omega

/-- non-vacuity: script (frame 1) → `each` stub (2) → callback (3) with a `try` → `.list()`
(stack-less, re-entry at 3) → map callback (4) raising; an outer handler in the script frame.
The raise goes to the callback's handler, with the inner re-entry gone and the outer one still
there; without the callback's handler it goes to the script's handler with both gone. -/
example :
    let f : Fiber := { stack := [.nil, .nil, .nil, .nil, .nil, .nil, .nil],
                       frames := [⟨0, 40, 0⟩, ⟨9, 0, 1⟩, ⟨2, 6, 2⟩, ⟨3, 8, 4⟩], cur := 3,
                       handlers := [⟨55, 3, 2⟩, ⟨77, 1, 1⟩], error := some (.inst errorCls 0), ip := 8 }
    let g : Fiber := { f with handlers := [⟨77, 1, 1⟩] }
    (f.raiseThrough [3, 1]).1 = .potentiallyHandled ∧ (f.raiseThrough [3, 1]).2.2 = [1] ∧
    (f.raiseThrough [3, 1]).2.1.ip = 55 ∧ (f.raiseThrough [3, 1]).2.1.stack.length = 4 ∧
    (g.raiseThrough [3, 1]).1 = .potentiallyHandled ∧ (g.raiseThrough [3, 1]).2.2 = [] ∧
    (g.raiseThrough [3, 1]).2.1.ip = 77 ∧ (g.raiseThrough [3, 1]).2.1.stack.length = 1 := by decide +kernel

/-- **C04_stackless_native_handler_of_caller** (the state of the repaired D185).  A native that runs
in the caller's frame (`NativeEnvironment::StackLess`: no stub frame) re-enters the interpreter with
`bottom_frame` = the caller's own frame count, so a handler of the CALLER's frame has
`frameDepth = bottom_frame`: the nested loop's unwind STOPS (before the repair `>=` let it resume in
the caller's catch clause while the native was still running on the host stack), the native returns
the error and the caller's loop delivers it to that handler with no re-entry left. -/
theorem C04_stackless_native_handler_of_caller :
    let f : Fiber := { stack := [.nil, .nil, .nil], frames := [⟨0, 40, 0⟩, ⟨2, 6, 1⟩], cur := 1,
                       handlers := [⟨77, 1, 1⟩], error := some (.inst errorCls 0), ip := 6 }
    (f.stackUnwind (some 1)).1 = .unwindStopped ∧ (f.stackUnwind (some 2)).1 = .unwindStopped ∧
    (f.raiseThrough [1]).1 = .potentiallyHandled ∧ (f.raiseThrough [1]).2.2 = [] ∧
    (f.raiseThrough [1]).2.1.ip = 77 ∧ (f.raiseThrough [1]).2.1.cur = 0 := by decide +kernel

/-- **[G]** the comparison `Fiber::stack_unwind` makes between the handler's frame depth and
`bottom_frame` (regenerated from fiber/mod.rs) is the model's: strictly above, default 0, and the
two no-handler results; changing `>` back to `>=` in the Rust text re-opens this lemma. -/
theorem Gen_unwindRule_eq_model :
    (∀ d b : Nat, compareOp Gen.unwindBottomCompare d b = decide (b < d)) ∧
    Gen.unwindBottomDefault = 0 ∧ Gen.unwindNoHandlerNested = "UnwindStopped" ∧
    Gen.unwindNoHandlerNormal = "Unhandled" := by
  refine ⟨?_, by decide, by decide, by decide⟩
  intro d b
  show compareOp ">" d b = _
  simp [compareOp]

/-- **[G]** the places where native code re-enters the interpreter; each records the frame count
before the callee's frame (`Fiber.reentryDepth`) — the translator fails on any other text -/
theorem Gen_reentrySites_eq_model : Gen.reentrySites = ["run_fun", "run_method", "runtime_error"] := by
  decide

/-- **[G]** every native of laythe_lib that holds temporary roots across a `?` pops, on that exit,
exactly the roots it pushed before it (the repaired D12): whatever the root count was when the
native was called, it is the same when the error leaves it — the premise of `Fiber.raiseThrough`
("the native returns the error and nothing else changes") as far as the root vector goes. -/
theorem Gen_nativeRootExits_balanced :
    Gen.nativeRootExits.map (·.1) =
      ["IterReduce", "IterEach", "ZipIterator", "IterAll", "IterAny", "IterToList", "ListCollect", "TupleCollect"] ∧
    ∀ r ∈ Gen.nativeRootExits, ∀ e ∈ r.2, ∀ before : Nat, before + e.1 - e.2 = before := by
  refine ⟨by decide, ?_⟩
  have hall : Gen.nativeRootExits.all (fun r => r.2.all (fun e => e.1 == e.2)) = true := by decide
  intro r hr e he before
  have h1 := List.all_eq_true.mp hall r hr
  have h2 := List.all_eq_true.mp h1 e he
  have : e.1 = e.2 := by simpa using h2
  omega

/-! ### C04_handler_balance -/

/-- **C04_handler_balance.**  If the (executable) checker accepts a function's instruction list then
there is an annotation — one stack of catch labels per instruction — that is an invariant of EVERY
control-flow path from the entry (jumps by label, both branches of every conditional, and a raise
edge out of every instruction to the innermost own handler).  Consequently, on every path:
the set of active handlers at an instruction depends only on the instruction (a handler is active
exactly in one region of the code); `PopHandler`, `CheckHandler`, `FinishUnwind` and
`ContinueUnwind` only ever act on a handler this activation pushed; at every `Return` all handlers
the activation pushed have been deactivated; and control never runs off the end or to a missing
label. -/
theorem C04_handler_balance (code : List Sym) (hc : checkHandlerBalance code = true) :
    ∃ A : List (Option (List Nat)),
      ∀ pc hs, (balanceFlow code).Reach (pc, hs) →
        A[pc]? = some (some hs) ∧ pc < code.length ∧
        (code[pc]? = some .Return → hs = []) ∧
        (code[pc]? = some .PopHandler → hs ≠ []) ∧
        (code[pc]? = some .ContinueUnwind → hs ≠ []) ∧
        (code[pc]? = some .FinishUnwind → hs ≠ []) ∧
        (∀ l, code[pc]? = some (.CheckHandler l) → hs ≠ []) := by
  unfold checkHandlerBalance at hc
  split at hc
  · cases hc
  · rename_i A _
    refine ⟨A, ?_⟩
    intro pc hs hr
    have h1 := Flow.checkCert_sound _ A hc _ hr
    have h2 := Flow.checkCert_safe _ A hc _ hr
    obtain ⟨hlt, hsafe⟩ := h2
    simp only [balanceFlow] at hlt hsafe
    refine ⟨h1, hlt, ?_, ?_, ?_, ?_, ?_⟩
    · intro hi; simp only [balanceSucc, hi] at hsafe
      by_cases h : hs = []
      · exact h
      · simp [h] at hsafe
    · intro hi hnil; simp [balanceSucc, hi, hnil] at hsafe
    · intro hi hnil; simp [balanceSucc, hi, hnil] at hsafe
    · intro hi hnil; simp [balanceSucc, hi, hnil] at hsafe
    · intro l hi hnil; simp [balanceSucc, hi, hnil] at hsafe

/-- two paths reaching the same instruction see the same active handlers -/
theorem C04_handler_height_unique (code : List Sym) (hc : checkHandlerBalance code = true)
    (pc : Nat) (hs hs' : List Nat)
    (h1 : (balanceFlow code).Reach (pc, hs)) (h2 : (balanceFlow code).Reach (pc, hs')) : hs = hs' := by
  obtain ⟨A, hA⟩ := C04_handler_balance code hc
  have a := (hA pc hs h1).1
  have b := (hA pc hs' h2).1
  rw [a] at b
  cases b; rfl

/-- **Handler clause** (shared with C06): if `checkHandlerDepth arity code` accepts, then on every
path every `PushHandler rd _` executes at depth exactly `rd` (slot 0 and the parameters included),
and the depth at an instruction depends only on the instruction. -/
theorem C04_handler_depth (arity : Nat) (code : List Sym) (hc : checkHandlerDepth arity code = true) :
    ∃ A : List (Option DState),
      ∀ pc s, (depthFlow arity code).Reach (pc, s) →
        A[pc]? = some (some s) ∧
        (∀ rd l, code[pc]? = some (.PushHandler rd l) → rd = s.1) := by
  unfold checkHandlerDepth at hc
  split at hc
  · cases hc
  · rename_i A _
    refine ⟨A, ?_⟩
    intro pc s hr
    have h1 := Flow.checkCert_sound _ A hc _ hr
    obtain ⟨_, hsafe⟩ := Flow.checkCert_safe _ A hc _ hr
    simp only [depthFlow] at hsafe
    refine ⟨h1, ?_⟩
    intro rd l hi
    simp only [depthSucc, hi] at hsafe
    by_cases h : rd = s.1
    · exact h
    · simp [h] at hsafe

/-- **C04_clause_entry_depth.**  If `checkHandlerDepth arity code` accepts, then on EVERY path every
`CheckHandler` executes under a handler of this activation and with exactly ONE operand (the clause's
filter class) above the depth `rd` that handler recorded: popping it leaves depth `rd`.  Hence every
catch clause — the first one, entered by the unwind at `rd` (`C04_unwind_restores`), and every later
one, entered by the jump of a clause that declined the error — starts from the same layout, the one
live at the `try`, and the clause that accepts the error binds it at slot `rd`, the slot
`Compiler::catch` assigns to its variable; nothing a declining clause pushed (e.g. the box of a
captured catch variable) is left behind for the later clauses and for the code after the `try`. -/
theorem C04_clause_entry_depth (arity : Nat) (code : List Sym) (hc : checkHandlerDepth arity code = true) :
    ∀ pc d hs l, (depthFlow arity code).Reach (pc, (d, hs)) → code[pc]? = some (.CheckHandler l) →
      ∃ cl rd r, hs = (cl, rd) :: r ∧ d = rd + 1 := by
  unfold checkHandlerDepth at hc
  split at hc
  · cases hc
  · rename_i A _
    intro pc d hs l hr hi
    obtain ⟨_, hsafe⟩ := Flow.checkCert_safe _ A hc _ hr
    simp only [depthFlow, depthSucc, hi] at hsafe
    cases hs with
    | nil => simp at hsafe
    | cons h r =>
      obtain ⟨cl, rd⟩ := h
      refine ⟨cl, rd, r, rfl, ?_⟩
      simp only [fallAnd, applyEffect, Sym.stackEffect] at hsafe
      by_cases h1 : (1 : Int) ≤ (d : Int) + -1
      · simp only [h1, ↓reduceIte] at hsafe
        by_cases h2 : ((d : Int) + -1).toNat = rd
        · omega
        · simp [h2] at hsafe
      · simp [h1] at hsafe

/-- What the compiler emits for
`fn f(t) { try { t(); } catch e: A { let g = || e; return 1; } catch e2: Error { return 2; } return 0; }`
when the variable of a clause is declared BEFORE the class test (the box of the captured `e` —
`EmptyBox` — is pushed at the clause's entry): every path leaves the function by `Return`, so no two
paths ever meet at different depths, and the recorded depth of the `PushHandler` is right. -/
def boxBeforeFilter : List Sym :=
  [.PushHandler 2 0, .GetLocal 1, .Call 0, .Drop, .PopHandler, .Jump 1,
   .Label 0, .EmptyBox, .GetModSym 0, .CheckHandler 2, .FinishUnwind, .PopHandler, .GetError, .FillBox,
   .Closure 0, .CaptureIndex (.Local 2), .Constant 1, .Return,
   .Label 2, .GetModSym 1, .CheckHandler 3, .FinishUnwind, .PopHandler, .GetError, .Constant 2, .Return,
   .Label 3, .ContinueUnwind, .Label 1, .Constant 3, .Return]

/-- the same function as `Compiler::catch` emits it: the variable is declared after the handler is popped -/
def boxAfterFilter : List Sym :=
  [.PushHandler 2 0, .GetLocal 1, .Call 0, .Drop, .PopHandler, .Jump 1,
   .Label 0, .GetModSym 0, .CheckHandler 2, .FinishUnwind, .PopHandler, .EmptyBox, .GetError, .FillBox,
   .Closure 0, .CaptureIndex (.Local 2), .Constant 1, .Return,
   .Label 2, .GetModSym 1, .CheckHandler 3, .FinishUnwind, .PopHandler, .GetError, .Constant 2, .Return,
   .Label 3, .ContinueUnwind, .Label 1, .Constant 3, .Return]

/-- **C04_witness_box_before_filter.**  The clause of `checkHandlerDepth` at `CheckHandler` is what
rejects the first stream (handlers balanced, `PushHandler` depth right, no conflicting merge); the
second is accepted.  Run-time consequence on the mechanism model: when the first clause declines, the
second binds the error ONE SLOT ABOVE the slot the unwind restored — the compiled code reads its
variable (and every later local) one slot too low. -/
theorem C04_witness_box_before_filter :
    checkHandlerBalance boxBeforeFilter = true ∧ checkHandlerDepth 1 boxBeforeFilter = false ∧
    checkHandlerBalance boxAfterFilter = true ∧ checkHandlerDepth 1 boxAfterFilter = true ∧
    (let f : Fiber := { stack := [.nil, .str "f", .str "t"], frames := [⟨0, 40, 0⟩, ⟨1, 11, 1⟩], cur := 1,
                        handlers := [⟨13, 2, 2⟩], error := some (.inst otherErr 0), unwinding := true, ip := 13 }
     -- as emitted: the second clause binds the error right above `f`'s slots
     (catchChain [.cls myErr, .cls errorCls] f).view.2.2.map (·.stack)
        = some [.nil, .str "f", .str "t", .inst otherErr 0] ∧
     -- with the box pushed first and left by the declining clause: one slot higher
     (catchChainFrom 1 [.cls errorCls] (f.push .undef)).view.2.2.map (·.stack)
        = some [.nil, .str "f", .str "t", .undef, .inst otherErr 0]) := by
  refine ⟨by decide +kernel, by decide +kernel, by decide +kernel, by decide +kernel, by decide +kernel⟩

/-! ### Regression facts: the repaired defects D1 and D3 on the model of the code as it was -/

/-- `fn f(a, b) { try { raise Error('x'); } catch e: Error { } print(a); }`: the stream `f` is
compiled to before `apply_stack_effects` (compile dump `PRE`, delimiters removed). -/
def d1Pre : List Sym :=
  [.PushHandler 0 0, .GetModSym 1, .Constant 0, .Call 1, .Raise, .Label 0, .GetModSym 1,
   .CheckHandler 2, .FinishUnwind, .PopHandler, .GetError, .Drop, .Jump 1, .Label 2,
   .ContinueUnwind, .Label 1, .GetModSym 2, .GetLocal 1, .Call 1, .Drop, .Nil, .Return]

/-- **C04_witness_param_handler (D1).**  `apply_stack_effects` records depth 1 for the handler of
`fn f(a, b)`; the true depth (slot 0 + two parameters) is 3, so the handler clause fails while the
handlers themselves are balanced.  At run time the unwind leaves `stack_top` BELOW the parameters:
the catch sequence's own pushes then overwrite `a`. -/
theorem C04_witness_param_handler :
    (applyStackEffects d1Pre 1).head? = some (.PushHandler 1 0) ∧
    checkHandlerBalance (applyStackEffects d1Pre 1) = true ∧
    checkHandlerDepth 2 (applyStackEffects d1Pre 1) = false ∧
    analysedDepths 2 (applyStackEffects d1Pre 1) = some [(0, 1, 3)] ∧
    -- the run-time consequence on the mechanism model: frame of `f` = slots [f, a, b] from index 1
    (let f : Fiber := { stack := [.nil, .str "f", .num 1, .num 2, .cls errorCls, .str "x"],
                        frames := [⟨0, 40, 0⟩, ⟨1, 11, 1⟩], cur := 1,
                        handlers := [⟨13, 2, 1⟩], error := some (.inst errorCls 0), ip := 11 }
     -- slot 1 (`a`) now holds the error
     (catchChain [.cls errorCls] (f.raise none).2).view.2.2.map (·.stack) = some [.nil, .str "f", .inst errorCls 0]) := by
  refine ⟨by decide +kernel, by decide +kernel, by decide +kernel, by decide +kernel, by decide +kernel⟩

/-- the D3 witness as a skeleton: `while c { try { try { continue; } catch {..} } catch {..} } raise ..;` -/
def d3Skel : List Stmt :=
  [.while_ [.try_ [.try_ [.continue_] [[.op]]] [[.op]]], .raise_]

/-- lowered by the compiler as it was before the repair (`single = true`) -/
def d3Code : List Sym := removeDead (lowerFun true d3Skel) false

theorem reach_step (code : List Sym) (pc : Nat) (hs : List Nat) (b : Nat × List Nat) (l : List (Nat × List Nat)) :
        (balanceFlow code).Reach (pc, hs) → balanceSucc code pc hs = some l → b ∈ l →
        (balanceFlow code).Reach b := by
      intro hr hs hm
      exact .step hr (.mk hs hm)

/-- one trip round the loop of the D3 witness leaves one more (stale) outer handler -/
theorem d3_iteration (hs : List Nat) (hx : ∀ x ∈ hs, x = 2)
    (ih : (balanceFlow d3Code).Reach (0, hs)) : (balanceFlow d3Code).Reach (0, 2 :: hs) := by
  have g0 : d3Code[0]? = some (.Label 0) := by decide +kernel
  have g1 : d3Code[1]? = some .True := by decide +kernel
  have g2 : d3Code[2]? = some (.JumpIfFalse 1) := by decide +kernel
  have g3 : d3Code[3]? = some (.PushHandler 0 2) := by decide +kernel
  have g4 : d3Code[4]? = some (.PushHandler 0 3) := by decide +kernel
  have g5 : d3Code[5]? = some .PopHandler := by decide +kernel
  have g6 : d3Code[6]? = some (.Loop 0) := by decide +kernel
  have l0 : labelPos d3Code 0 = some 0 := by decide +kernel
  have l1 : labelPos d3Code 1 = some 36 := by decide +kernel
  have l2 : labelPos d3Code 2 = some 22 := by decide +kernel
  -- the raise edge of these states always exists
  obtain ⟨e, he⟩ : ∃ e, excEdge d3Code hs = some e := by
    cases hs with
    | nil => exact ⟨_, rfl⟩
    | cons l r =>
      have : l = 2 := hx l (by simp)
      subst this
      exact ⟨[(22, 2 :: r)], by simp [excEdge, l2]⟩
  have r1 := reach_step d3Code 0 hs (1, hs) ((1, hs) :: e) ih
    (by simp [balanceSucc, g0, optAppend, he]) (by simp)
  have r2 := reach_step d3Code 1 hs (2, hs) ((2, hs) :: e) r1
    (by simp [balanceSucc, g1, optAppend, he]) (by simp)
  have r3 := reach_step d3Code 2 hs (3, hs) ((3, hs) :: (36, hs) :: e) r2
    (by simp [balanceSucc, g2, optAppend, he, l1]) (by simp)
  have r4 := reach_step d3Code 3 hs (4, 2 :: hs) ((4, 2 :: hs) :: e) r3
    (by simp [balanceSucc, g3, optAppend, he]) (by simp)
  have r5 := reach_step d3Code 4 (2 :: hs) (5, 3 :: 2 :: hs) [(5, 3 :: 2 :: hs), (22, 2 :: hs)] r4
    (by simp [balanceSucc, g4, optAppend, excEdge, l2]) (by simp)
  have r6 := reach_step d3Code 5 (3 :: 2 :: hs) (6, 2 :: hs) [(6, 2 :: hs)] r5
    (by simp [balanceSucc, g5]) (by simp)
  exact reach_step d3Code 6 (2 :: hs) (0, 2 :: hs) [(0, 2 :: hs)] r6
    (by simp [balanceSucc, g6, l0]) (by simp)

/-- **C04_witness_nested_exit (D3).**  `continue_` consults a single `Option<TryAttributes>` and
emits ONE `PopHandler` while leaving TWO try blocks; the checker rejects the function, and in the
handler machine the loop head (instruction 0) is reachable with `n` stale handlers for every `n`:
the height grows by one per iteration, so an error raised after the loop is delivered to a handler
whose block was left. -/
theorem C04_witness_nested_exit :
    inE4 d3Skel 0 0 = false ∧
    checkHandlerBalance d3Code = false ∧
    ∀ n, (balanceFlow d3Code).Reach (0, List.replicate n 2) := by
  refine ⟨by decide +kernel, by decide +kernel, ?_⟩
  intro n
  induction n with
  | zero => exact .entry
  | succ n ih =>
    rw [List.replicate_succ]
    exact d3_iteration _ (by intro x hx; exact (List.mem_replicate.mp hx).2) ih

/-- the same shape with ONE try block is inside the envelope and is accepted -/
example : inE4 [.while_ [.try_ [.continue_, .break_, .return_] [[.op, .break_]]], .raise_] 0 0 = true ∧
    checkHandlerBalance (removeDead (lowerFun true [.while_ [.try_ [.continue_, .break_, .return_] [[.op, .break_]]], .raise_]) false) = true := by
  decide +kernel

/-! ### The compile side of the tree at hand (regenerated tables) -/

/-- the model's table of how exit statements emit `PopHandler`, per compiler generation -/
def modelExitRules (stack : Bool) : List (String × String) :=
  let r := if stack then "each" else "one"
  [("emit_return", r), ("return_", r), ("continue_", r), ("break_", r)]

/-- **[G]** the regenerated table of `emit_return`/`return_`/`continue_`/`break_` is the one the
lowering model implements (`lowerStmt` with `single = !Gen.tryAttributesIsStack`); removing or
changing a `PopHandler` emission in the Rust text re-opens this lemma. -/
theorem Gen_exitRules_eq_model : Gen.exitRules = modelExitRules Gen.tryAttributesIsStack := by
  decide +kernel

/-- **[G]** order of the emissions of `try_` and `catch` that `lowerStmt`/`lowerCatches` and the
mechanism model's `catchChainFrom`/`enterClause` mirror.  For `catch` the row also pins WHERE the
clause's variable gets its slot: the filter class is the first thing a clause pushes
(`variable_get` directly before `CheckHandler`), and the variable is declared — which for a captured
variable emits `EmptyBox` — only after `FinishUnwind; PopHandler`, i.e. on the path of the clause
that ACCEPTED the error, directly before `GetError` fills it.  Declaring it earlier (before the
class test) re-opens this lemma: a declining clause would then leave the box behind
(`C04_witness_box_before_filter`). -/
theorem Gen_tryEmission_eq_model :
    Gen.tryEmission = ["PushHandler", "block", "PopHandler", "Jump", "Label", "catch", "ContinueUnwind", "Label"] ∧
    Gen.catchEmission = ["variable_get", "CheckHandler", "FinishUnwind", "PopHandler", "declare_variable", "GetError",
                         "define_variable", "block", "Jump", "Label"] := by
  decide +kernel

/-- **[G]** `apply_stack_effects` starts counting at 1 (slot 0) -/
theorem Gen_stackPassStart : Gen.stackPassStart = 1 := by decide +kernel

/-- the D3 skeleton under the compiler at hand: balanced exactly when `try_attributes` is a stack -/
theorem C04_current_nested_exit :
    checkHandlerBalance (removeDead (lowerFun (!Gen.tryAttributesIsStack) d3Skel) false)
      = Gen.tryAttributesIsStack := by decide +kernel

/-- the D1 function under the stack pass at hand: the handler clause holds exactly when the pass
counts the parameters -/
theorem C04_current_param_handler :
    checkHandlerDepth 2 (applyPass Gen.handlerDepthCountsParams Gen.stackPassFollowsLabels Gen.stackPassSkipsDeadLabels 2 d1Pre)
      = Gen.handlerDepthCountsParams := by decide +kernel

/-- the repaired compile side on the two witnesses, whatever tree is at hand -/
example : checkHandlerBalance (removeDead (lowerFun false d3Skel) false) = true ∧
    checkHandlerDepth 2 (applyPass true true true 2 d1Pre) = true ∧
    checkHandlerDepth 2 (applyPass true true false 2 d1Pre) = true ∧
    checkHandlerDepth 2 (applyPass true false false 2 d1Pre) = true := by decide +kernel

/-- `try { raise } catch e: A { || e; op } catch e2: B { || e2; return } catch e3: C { op }` -/
def capTry : Stmt := .try_ [.raise_] [[.capture, .op], [.capture, .return_], [.op]]
/-- the same kind of try inside a loop, with `break`/`continue` in the clauses -/
def capLoop : Stmt := .while_ [.try_ [.op, .raise_] [[.capture, .break_], [.capture, .op], [.continue_]], .op]
def capCode : List Sym := removeDead (lowerFun false [capTry, .op]) false
def capLoopCode : List Sym := removeDead (lowerFun false [capLoop, capTry, .op]) false

/-- The lowering model with CAPTURED clause variables (`lowerCatches`: `EmptyBox` after
`FinishUnwind; PopHandler`, `FillBox` after `GetError`): the box of a captured variable is created on
the path of the clause that accepted the error, so every clause is entered at the recorded depth and
the stream passes both verified checkers under the repaired stack pass and under the pass of the tree
at hand (`C04_clause_entry_depth` applies to it); handlers stay balanced with such clauses in a loop
left by `break`/`continue`.  (The skeleton model does not emit the `Drop`s of locals that
`break`/`continue` make, so the depth checker is only meaningful on skeletons without them.) -/
theorem C04_lower_captured_clause_variable :
    checkHandlerBalance capCode = true ∧
    checkHandlerDepth 2 (applyPass true true true 2 capCode) = true ∧
    checkHandlerDepth 0 (applyPass Gen.handlerDepthCountsParams Gen.stackPassFollowsLabels
      Gen.stackPassSkipsDeadLabels 0 capCode) = Gen.stackPassFollowsLabels ∧
    checkHandlerBalance capLoopCode = true := by
  refine ⟨by decide +kernel, by decide +kernel, by decide +kernel, by decide +kernel⟩

/-- **Not proved** (stated; checked by `drv_handlers lower` on every skeleton up to a size bound, and by
the checker on every function the real compiler emits): the repaired lowering is balanced, and the
lowering before the repair is balanced inside E4. -/
def C04_lower_balanced_full : Prop :=
  (∀ body : List Stmt, checkHandlerBalance (removeDead (lowerFun false body) false) = true) ∧
  (∀ body : List Stmt, inE4 body 0 0 = true →
    checkHandlerBalance (removeDead (lowerFun true body) false) = true)

end LaytheVerif.C04
