/-
C14 — Both value representations implement the same language.

Theorems about `Model/NanBoxModel.lean` (whose boxed half *is* the text generated from
`laythe_core/src/value.rs`, see `Gen/NanBox.lean`).  Every statement quantifies over all abstract
values / all 2^64 bit patterns; no bound, no sampling.  The sampled tie to the two builds is in
`vlib/props/c14.py`.
-/
import LaytheVerif.Lemmas.NanBoxBits
namespace LaytheVerif.C14
open LaytheVerif.Gen.NanBox LaytheVerif.NanBox LaytheVerif.NanBox.Bits

/-! ## Generated tables ↔ hand model -/

/-- the boxed `Value` no longer derives `PartialEq`/`Eq`/`Hash` on its word: all three are written
out by hand (the translation of the impls is `value_eq` / `value_hash`, see `gen_boxed_eq` and
`gen_boxed_hash`); `ObjectRef` compares and hashes by address, `ValueKind` hashes its discriminant;
the enum `Value` derives neither. -/
theorem gen_derives :
    ("PartialEq" ∉ boxedDerives ∧ "Eq" ∉ boxedDerives ∧ "Hash" ∉ boxedDerives) ∧
    boxedImpls = ["PartialEq", "Eq", "Hash"] ∧
    ("PartialEq" ∈ objectRefDerives ∧ "Hash" ∈ objectRefDerives) ∧
    "Hash" ∈ valueKindDerives ∧
    ("PartialEq" ∉ enumDerives ∧ "Hash" ∉ enumDerives) := by decide

/-- `impl PartialEq for Value` of `mod boxed`, as generated from the Rust text: two numbers are
compared as `f64` (IEEE), any other pair by its bits.  Any edit of the impl re-opens this lemma. -/
theorem gen_boxed_eq (v w : BitVec 64) :
    boxedEq v w = if is_num v && is_num w then ieeeEq v w else v == w := rfl

/-- `impl Hash for Value` of `mod boxed`, as generated: a number feeds the hasher what the enum
representation feeds it (`ValueKind::Number`, then `num as u64`), any other value its word. -/
theorem gen_boxed_hash (v : BitVec 64) :
    boxedHash v =
      if is_num v then [("isize", Kind.Number.disc), ("u64", f64ToU64 v)] else [("u64", v.toNat)] := rfl

/-- `to_bool` is `self == VALUE_TRUE` through the boxed `PartialEq`; `VALUE_TRUE` is not a number,
so this is the comparison of the words it always was. -/
theorem gen_to_bool (v : BitVec 64) : to_bool v = (v == VALUE_TRUE) := by
  simp [to_bool, value_eq, tags_not_num.2.1]

/-- `impl PartialEq for Value` (enum) is exactly the table of the model: one arm per variant
(`(Undefined, Undefined) => true` included — D9 is repaired), then the wildcard.  Any other edit
re-opens this lemma. -/
theorem gen_eq_arms : enumEqArms = eqArms := by decide

theorem gen_hash_arms : enumHashArms = [
    (.Number, [.kind .Number, .asU64]), (.Bool, [.kind .Bool, .payload]), (.Nil, [.kind .Nil]),
    (.Undefined, [.kind .Undefined]), (.Obj, [.kind .Obj, .payload])] := by decide

/-- `unboxed::Value::kind` answers the Spec's kind on every value. -/
theorem gen_enum_kind (a : Abs) : enumKind a = some a.kind := by
  cases a <;> rfl

/-- the `matches!` bodies of the enum type tests are the ones the hand model uses -/
theorem gen_enum_tests : enumTests = [("is_nil", .Nil), ("is_undefined", .Undefined),
    ("is_bool", .Bool), ("is_num", .Number), ("is_obj", .Obj)] := by decide

/-- `decode` dispatches like the boxed `Display` -/
theorem gen_display_arms : displayArms = [(.Number, "to_num"), (.Bool, "to_bool"), (.Nil, ""),
    (.Undefined, ""), (.Obj, "to_obj")] := by decide

theorem gen_variants : enumVariants = [(.Bool, "bool"), (.Nil, ""), (.Undefined, ""),
    (.Number, "f64"), (.Obj, "ObjectRef")] := by decide

/-- the enum accessors unwrap the variant `decode` expects, and every `From` builds the variant
`encode` assumes (`Nil`, `bool`, `f64` ↦ their own variant, every object handle ↦ `Obj`) -/
theorem gen_enum_accessors_from :
    enumAccessors = [("to_num", .Number), ("to_bool", .Bool), ("to_obj", .Obj)] ∧
    enumFrom.lookup "Nil" = some .Nil ∧ enumFrom.lookup "bool" = some .Bool ∧
    enumFrom.lookup "f64" = some .Number ∧
    (enumFrom.filter (fun p => p.1 ∉ ["Nil", "bool", "f64"])).all (·.2 == .Obj) = true ∧
    ((enumFrom.filter (fun p => p.1 ∉ ["Nil", "bool", "f64"])).all (fun p => fromObjTypes.contains p.1) &&
      fromObjTypes.all (fun t => (enumFrom.lookup t).isSome)) = true := by decide

/-- the discriminants the derived `Hash` of `ValueKind` writes are pairwise distinct -/
theorem gen_kind_disc_injective (k k' : Kind) (h : k.disc = k'.disc) : k = k' := by
  cases k <;> cases k' <;> first | rfl | (exact absurd h (by decide))

/-! ## Round trip and disjointness -/

/-- **C14_roundtrip.** Every abstract value inside the envelope (pointers with no `TAG_OBJ` bit,
i.e. below 2^50; numbers whose bits do not contain `QNAN`) is read back unchanged from its boxed
encoding, and `kind()` answers its kind. -/
theorem C14_roundtrip (a : Abs) (h : a.ok = true) :
    decode (encode a) = some a ∧ kind (encode a) = some a.kind := by
  cases a with
  | nil => decide
  | undefined => decide
  | bool b => cases b <;> decide
  | num x =>
    have hn : is_num x = true := h
    have hk : kind x = some Kind.Number := (kind_num_iff x).2 hn
    simp [decode, encode, from_num, to_num, hk, Abs.kind]
  | obj p =>
    have hk : kind (from_obj p) = some Kind.Obj := (kind_obj_iff _).2 (from_obj_is_obj p)
    simp [decode, encode, hk, Abs.kind, to_obj_from_obj p h]

/-- the type tests of the two representations agree on every value of the envelope -/
theorem C14_tests_agree (a : Abs) (h : a.ok = true) :
    is_nil (encode a) = enumIsNil a ∧ is_undefined (encode a) = enumIsUndefined a ∧
    is_bool (encode a) = enumIsBool a ∧ is_false (encode a) = enumIsFalse a ∧
    is_num (encode a) = enumIsNum a ∧ is_obj (encode a) = enumIsObj a := by
  cases a with
  | nil => decide
  | undefined => decide
  | bool b => cases b <;> decide
  | num x =>
    have hn : is_num x = true := h
    have ne : ∀ t, is_num t = false → (x == t) = false := by
      intro t ht
      cases hx : x == t
      · rfl
      · have : x = t := by simpa using hx
        subst this; rw [hn] at ht; cases ht
    have ho : is_obj x = false := by
      cases ho : is_obj x
      · rfl
      · have := obj_not_num x ho; rw [hn] at this; cases this
    obtain ⟨t1, t2, t3, t4⟩ := tags_not_num
    simp [encode, from_num, is_nil, is_undefined, is_bool, is_false, ne _ t1, ne _ t2, ne _ t3, ne _ t4,
      hn, ho, enumIsNil, enumIsUndefined, enumIsBool, enumIsFalse, enumIsNum, enumIsObj, Abs.variant]
  | obj p =>
    have ho : is_obj (from_obj p) = true := from_obj_is_obj p
    have hn : is_num (from_obj p) = false := obj_not_num _ ho
    have ne : ∀ t, is_obj t = false → (from_obj p == t) = false := by
      intro t ht
      cases hx : from_obj p == t
      · rfl
      · have : from_obj p = t := by simpa using hx
        rw [this] at ho; rw [ho] at ht; cases ht
    obtain ⟨t1, t2, t3, t4⟩ := tags_not_obj
    simp [encode, is_nil, is_undefined, is_bool, is_false, ne _ t1, ne _ t2, ne _ t3, ne _ t4,
      hn, ho, enumIsNil, enumIsUndefined, enumIsBool, enumIsFalse, enumIsNum, enumIsObj, Abs.variant]

/-- the encoding is injective on the envelope … -/
theorem C14_encode_injective (a b : Abs) (ha : a.ok = true) (hb : b.ok = true)
    (h : encode a = encode b) : a = b := by
  have h1 := (C14_roundtrip a ha).1
  have h2 := (C14_roundtrip b hb).1
  rw [h] at h1; rw [h1] at h2; exact Option.some.inj h2

/-- … and the five classes of encodings are pairwise disjoint. -/
theorem C14_classes_disjoint (a b : Abs) (ha : a.ok = true) (hb : b.ok = true)
    (h : a.kind ≠ b.kind) : encode a ≠ encode b := by
  intro e
  have h1 := (C14_roundtrip a ha).2
  have h2 := (C14_roundtrip b hb).2
  rw [e] at h1; rw [h1] at h2; exact h (Option.some.inj h2)

/-- Over **all** 2^64 patterns: `kind()` and the type tests cannot disagree, and the tests are
mutually exclusive. -/
theorem C14_kind_tests_all (v : BitVec 64) :
    (kind v = some Kind.Number ↔ is_num v = true) ∧ (kind v = some Kind.Obj ↔ is_obj v = true) ∧
    (is_nil v = true → kind v = some Kind.Nil) ∧ (is_bool v = true → kind v = some Kind.Bool) ∧
    (is_undefined v = true → kind v = some Kind.Undefined) ∧
    (is_num v = true → is_obj v = false) := by
  refine ⟨kind_num_iff v, kind_obj_iff v, ?_, ?_, ?_, ?_⟩
  · intro h; have : v = VALUE_NIL := by simpa [is_nil] using h
    subst this; exact tags_kind.1
  · intro h
    have : v = VALUE_FALSE ∨ v = VALUE_TRUE := by simpa [is_bool] using h
    rcases this with rfl | rfl
    · exact tags_kind.2.2.1
    · exact tags_kind.2.1
  · intro h; have : v = VALUE_UNDEFINED := by simpa [is_undefined] using h
    subst this; exact tags_kind.2.2.2
  · intro h
    cases ho : is_obj v
    · rfl
    · have := obj_not_num v ho; rw [h] at this; cases this

/-- every pattern a constructor can produce decodes to a value of the envelope that encodes back to
it (`encode ∘ decode = id` on proper patterns) -/
theorem C14_decode_encode_proper (v : BitVec 64) (h : proper v = true) :
    ∃ a, decode v = some a ∧ a.ok = true ∧ encode a = v := by
  simp only [proper, Bool.or_eq_true, beq_iff_eq] at h
  rcases h with ((((hn | ho) | rfl) | rfl) | rfl) | rfl
  · refine ⟨.num v, ?_, hn, rfl⟩
    simp [decode, (kind_num_iff v).2 hn, to_num]
  · refine ⟨.obj (to_obj v), ?_, to_obj_ptrOk v, from_obj_to_obj v ho⟩
    simp [decode, (kind_obj_iff v).2 ho]
  · exact ⟨.nil, by decide, rfl, rfl⟩
  · exact ⟨.bool true, by decide, rfl, rfl⟩
  · exact ⟨.bool false, by decide, rfl, rfl⟩
  · exact ⟨.undefined, by decide, rfl, rfl⟩

theorem C14_encode_proper (a : Abs) (h : a.ok = true) : proper (encode a) = true := by
  cases a with
  | nil => decide
  | undefined => decide
  | bool b => cases b <;> decide
  | num x => have hn : is_num x = true := h; simp [proper, encode, from_num, hn]
  | obj p => simp [proper, encode, from_obj_is_obj p]

/-! ## Numbers reachable by arithmetic -/

theorem exp_qnan : QNAN &&& EXP_MASK = EXP_MASK := by decide

/-- Every bit pattern that is not a NaN (all finite numbers incl. `-0` and subnormals, `±inf`) is
a number of the boxed representation. -/
theorem C14_non_nan_are_numbers (x : BitVec 64) (h : isNaN x = false) : numOk x = true := by
  cases hk : numOk x
  · exfalso
    have hq : x &&& QNAN = QNAN := by simpa [numOk] using hk
    have he : x &&& EXP_MASK = EXP_MASK := and_sub x QNAN EXP_MASK (by decide) hq
    have hm : x &&& MAN_MASK ≠ 0#64 := by
      intro hz
      have hb : (x &&& MAN_MASK)[50] = (0#64)[50] := by rw [hz]
      have hc : (x &&& QNAN)[50] = QNAN[50] := by rw [hq]
      have m50 : MAN_MASK[50] = true := by decide
      have q50 : QNAN[50] = true := by decide
      simp only [BitVec.getElem_and, m50, q50, BitVec.getElem_zero, Bool.and_true] at hb hc
      rw [hb] at hc; cases hc
    simp [isNaN, he, hm] at h
  · rfl

/-- **C14_arith_nans_are_numbers.** The NaNs that IEEE arithmetic and parsing produce (quiet,
payload 0, either sign) are NaNs, lie inside the envelope, and satisfy `is_num` once boxed. -/
theorem C14_arith_nans_are_numbers (x : BitVec 64) (h : arithNaN x = true) :
    isNaN x = true ∧ numOk x = true ∧ is_num (encode (.num x)) = true ∧
    kind (encode (.num x)) = some Kind.Number := by
  have : x = 0x7ff8000000000000#64 ∨ x = 0xfff8000000000000#64 := by simpa [arithNaN] using h
  rcases this with rfl | rfl <;> decide

/-- so: everything arithmetic can produce is inside the envelope of `C14_roundtrip` -/
theorem C14_reachable_numbers_ok (x : BitVec 64) (h : isNaN x = false ∨ arithNaN x = true) :
    (Abs.num x).ok = true := by
  rcases h with h | h
  · exact C14_non_nan_are_numbers x h
  · exact (C14_arith_nans_are_numbers x h).2.1

/-! ## The collector's view of a value (boxed `impl Trace for Value`, regenerated) -/

/-- **C14_trace_only_objects.** In the boxed representation the collector dereferences a value as
an object pointer exactly when the value is an object: never a number (in particular neither of the
NaNs arithmetic produces, nor an infinity or a zero), a boolean, nil or undefined — the same values
the enum build's `if let Value::Obj(obj) = self` reaches. -/
theorem C14_trace_only_objects (v : BitVec 64) : trace_derefs v = is_obj v := rfl

theorem C14_trace_skips_every_number (a : Abs) (h : a.ok = true) :
    trace_derefs (encode a) = true ↔ a.kind = Kind.Obj := by
  rw [C14_trace_only_objects]
  have := (C14_tests_agree a h)
  rw [this.2.2.2.2.2]
  cases a <;> simp [enumIsObj, Abs.variant, Abs.kind]

/-- in particular the sign-set NaN `0/0` evaluates to on x86 -/
example : trace_derefs (encode (.num 0xfff8000000000000#64)) = false ∧
    trace_derefs (encode (.num 0x7ff8000000000000#64)) = false ∧
    trace_derefs (encode (.num 0xfff0000000000000#64)) = false := by decide

/-! ## Equality -/

/-- **enum build vs Spec.** `unboxed::Value::eq` is the Spec's equality on every pair of values
(no exception: the `(Undefined, Undefined)` arm exists). -/
theorem C14_enum_eq_spec (a b : Abs) : enumEq a b = specEq a b := by
  unfold enumEq; rw [gen_eq_arms]
  cases a <;> cases b <;> rfl

/-- **boxed build vs Spec.** The boxed `==` on the encodings of two values of the envelope is the
Spec's equality — for every pair, the two zeros and the NaNs included. -/
theorem C14_boxed_eq_spec (a b : Abs) (ha : a.ok = true) (hb : b.ok = true) :
    boxedEq (encode a) (encode b) = specEq a b := by
  by_cases hk : a.kind = b.kind
  · cases a <;> cases b <;> simp [Abs.kind] at hk
    · decide
    · decide
    · rename_i p q; cases p <;> cases q <;> decide
    · rename_i x y
      have hx : is_num x = true := ha
      have hy : is_num y = true := hb
      simp [gen_boxed_eq, encode, from_num, specEq, hx, hy]
    · rename_i p q
      have np : is_num (from_obj p) = false := obj_not_num _ (from_obj_is_obj p)
      simp only [gen_boxed_eq, encode, np, Bool.false_and, specEq]
      by_cases e : p = q
      · subst e; simp
      · have : encode (.obj p) ≠ encode (.obj q) := fun h =>
          e (by simpa using C14_encode_injective _ _ ha hb h)
        have e' : (p == q) = false := by simpa using e
        have t' : (from_obj p == from_obj q) = false := by simpa [encode] using this
        simp [e', t']
  · have hne := C14_classes_disjoint a b ha hb hk
    have hs : specEq a b = false := by
      cases a <;> cases b <;> simp_all [specEq, Abs.kind]
    have hn : (is_num (encode a) && is_num (encode b)) = false := by
      rw [(C14_tests_agree a ha).2.2.2.2.1, (C14_tests_agree b hb).2.2.2.2.1]
      cases a <;> cases b <;> simp_all [enumIsNum, Abs.variant, Abs.kind]
    simp [gen_boxed_eq, hn, hne, hs]

/-- **C14_eq_agree.** The two representations agree on `==` for **all** pairs of values of the
envelope — no excluded set (before the repair of D8 the zeros of different sign and the NaNs had to
be excluded, before the repair of D9 the pair `(undefined, undefined)`). -/
theorem C14_eq_agree (a b : Abs) (ha : a.ok = true) (hb : b.ok = true) :
    boxedEq (encode a) (encode b) = enumEq a b := by
  rw [C14_enum_eq_spec, C14_boxed_eq_spec a b ha hb]

/-- On every pair of words a constructor can produce (not only on encodings we chose) the boxed
`==` is the Spec's equality of what the words mean. -/
theorem C14_boxed_eq_on_proper (v w : BitVec 64) (hv : proper v = true) (hw : proper w = true) :
    ∃ a b, decode v = some a ∧ decode w = some b ∧ boxedEq v w = specEq a b := by
  obtain ⟨a, da, oka, ea⟩ := C14_decode_encode_proper v hv
  obtain ⟨b, db, okb, eb⟩ := C14_decode_encode_proper w hw
  refine ⟨a, b, da, db, ?_⟩
  rw [← ea, ← eb]; exact C14_boxed_eq_spec a b oka okb

theorem ieeeEq_comm (x y : BitVec 64) : ieeeEq x y = ieeeEq y x := by
  unfold ieeeEq
  by_cases e : x = y
  · subst e; rfl
  · have e1 : (x == y) = false := by simpa using e
    have e2 : (y == x) = false := by simpa using fun h : y = x => e h.symm
    rw [e1, e2]
    cases isNaN x <;> cases isNaN y <;> cases isZero x <;> cases isZero y <;> rfl

/-- over **all** 2^64 × 2^64 words: the boxed `==` is symmetric, and a word is equal to itself
unless it is a number that is a NaN (the same laws the enum build's `==` has). -/
theorem C14_boxed_eq_laws (x y : BitVec 64) :
    boxedEq x y = boxedEq y x ∧ boxedEq x x = !(is_num x && isNaN x) := by
  constructor
  · rw [gen_boxed_eq, gen_boxed_eq, ieeeEq_comm x y, Bool.and_comm (is_num x)]
    by_cases e : x = y
    · subst e; rfl
    · have e1 : (x == y) = false := by simpa using e
      have e2 : (y == x) = false := by simpa using fun h : y = x => e h.symm
      rw [e1, e2]
  · rw [gen_boxed_eq]
    cases is_num x <;> cases hn : isNaN x <;> simp [ieeeEq, hn]

def posZero : BitVec 64 := 0x0000000000000000#64
def negZero : BitVec 64 := 0x8000000000000000#64
/-- `f64::NAN`, also what `use_sentinel_nan` yields -/
def qNaN : BitVec 64 := 0x7ff8000000000000#64
/-- what `0/0` evaluates to on x86-64 -/
def indefNaN : BitVec 64 := 0xfff8000000000000#64

set_option maxRecDepth 8192 in
/-- `0 == -0` (and the two zeros hash alike), `NaN != NaN` — for `f64::NAN` and for the NaN `0/0`
yields on x86-64 — and `undefined == undefined`, in both representations and per Spec: the inputs of
the repaired defects D8 and D9, kept as closed regression facts. -/
theorem C14_zero_nan_regression :
    boxedEq (encode (.num posZero)) (encode (.num negZero)) = true ∧
    enumEq (.num posZero) (.num negZero) = true ∧ specEq (.num posZero) (.num negZero) = true ∧
    boxedHash (encode (.num posZero)) = boxedHash (encode (.num negZero)) ∧
    boxedEq (encode (.num indefNaN)) (encode (.num indefNaN)) = false ∧
    boxedEq (encode (.num qNaN)) (encode (.num qNaN)) = false ∧
    enumEq (.num indefNaN) (.num indefNaN) = false ∧ specEq (.num qNaN) (.num qNaN) = false ∧
    boxedEq (encode .undefined) (encode .undefined) = true ∧ enumEq .undefined .undefined = true := by
  decide

/-! ## Hash -/

theorem ieeeEq_f64ToU64 (x y : BitVec 64) (h : ieeeEq x y = true) : f64ToU64 x = f64ToU64 y := by
  simp only [ieeeEq, Bool.and_eq_true, Bool.or_eq_true, beq_iff_eq] at h
  rcases h.2 with e | ⟨zx, zy⟩
  · rw [e]
  · rw [f64ToU64_zero x zx, f64ToU64_zero y zy]

/-- **C14_hash_consistent.** In each representation equal values hash equally (the hasher is fed
the same sequence of writes) — on the boxed side for all 2^64 × 2^64 words, `+0`/`-0` included. -/
theorem C14_hash_consistent :
    (∀ a b : Abs, enumEq a b = true → enumHash a = enumHash b) ∧
    (∀ x y : BitVec 64, boxedEq x y = true → boxedHash x = boxedHash y) := by
  constructor
  · intro a b h
    have hs : specEq a b = true := by rw [← C14_enum_eq_spec]; exact h
    unfold enumHash; rw [gen_hash_arms]
    cases a <;> cases b <;> simp [specEq] at hs
    · rfl
    · rfl
    · subst hs; rfl
    · rename_i x y
      simp only [enumHashOf, List.find?, Abs.variant]
      have := ieeeEq_f64ToU64 x y hs
      show [("isize", Kind.Number.disc)] ++ [("u64", f64ToU64 x)] =
        [("isize", Kind.Number.disc)] ++ [("u64", f64ToU64 y)]
      rw [this]
    · subst hs; rfl
  · intro x y h
    rw [gen_boxed_eq] at h
    by_cases hb : (is_num x && is_num y) = true
    · rw [hb] at h
      have h' : ieeeEq x y = true := by simpa using h
      have hx : is_num x = true := by simp_all
      have hy : is_num y = true := by simp_all
      rw [gen_boxed_hash, gen_boxed_hash, hx, hy, ieeeEq_f64ToU64 x y h']
      rfl
    · have hb' : (is_num x && is_num y) = false := by simpa using hb
      rw [hb'] at h
      have : x = y := by simpa using h
      subst this; rfl

/-- **C14_hash_numbers_agree.** A number feeds the hasher the same writes in both representations
(so a map whose keys are numbers has the same layout, hence the same iteration order, in both
builds; the hasher is the deterministic FNV). -/
theorem C14_hash_numbers_agree (x : BitVec 64) (h : (Abs.num x).ok = true) :
    boxedHash (encode (.num x)) = enumHash (.num x) := by
  have hn : is_num x = true := h
  unfold enumHash; rw [gen_hash_arms, gen_boxed_hash]
  simp [encode, from_num, hn, enumHashOf, hashItem, Abs.variant]

/-- **DC14.1 (open finding).** `nil` and the booleans do *not* feed the hasher the same writes in
the two representations (enum: the `ValueKind` discriminant, then the bool as `u8`; boxed: the word),
so the layout of a map with such keys — its iteration order — differs between the builds although it
does not depend on addresses.  Equality and lookups are unaffected (`C14_full`). -/
theorem C14_witness_nil_bool_hash :
    boxedHash (encode .nil) ≠ enumHash .nil ∧ boxedHash (encode (.bool true)) ≠ enumHash (.bool true) ∧
    boxedHash (encode (.bool false)) ≠ enumHash (.bool false) ∧
    enumHash (.bool true) = [("isize", 0), ("u8", 1)] ∧
    boxedHash (encode (.bool true)) = [("u64", 0x7ffc000000000003)] := by decide

/-- distinct hash keys are necessary for the converse *only* up to the `as u64` truncation: e.g.
`0.5` and `0.25` are different values with the same hash input (allowed), in both builds. -/
example : enumHash (.num 0x3fe0000000000000#64) = enumHash (.num 0x3fd0000000000000#64) ∧
    boxedHash (encode (.num 0x3fe0000000000000#64)) = boxedHash (encode (.num 0x3fd0000000000000#64)) := by decide

/-! ## The property -/

/-- **C14_full.** For every pair of values of the envelope, the NaN-boxed representation and the
enum representation are the same language-level value: the boxed word reads back as the value and
answers its kind, every type test agrees, `==` agrees in both builds with the Spec (IEEE on numbers,
identity otherwise), equal values hash equally in both builds, and the collector dereferences the
word exactly when the value is an object.  (Refuted before the repair of D8 — `C14_full_false`.) -/
theorem C14_full (a b : Abs) (ha : a.ok = true) (hb : b.ok = true) :
    (decode (encode a) = some a ∧ kind (encode a) = some a.kind) ∧
    (is_nil (encode a) = enumIsNil a ∧ is_undefined (encode a) = enumIsUndefined a ∧
      is_bool (encode a) = enumIsBool a ∧ is_false (encode a) = enumIsFalse a ∧
      is_num (encode a) = enumIsNum a ∧ is_obj (encode a) = enumIsObj a) ∧
    (boxedEq (encode a) (encode b) = specEq a b ∧ enumEq a b = specEq a b) ∧
    (specEq a b = true → boxedHash (encode a) = boxedHash (encode b) ∧ enumHash a = enumHash b) ∧
    (trace_derefs (encode a) = true ↔ a.kind = Kind.Obj) := by
  refine ⟨C14_roundtrip a ha, C14_tests_agree a ha, ⟨C14_boxed_eq_spec a b ha hb, C14_enum_eq_spec a b⟩,
    ?_, C14_trace_skips_every_number a ha⟩
  intro hs
  exact ⟨C14_hash_consistent.2 _ _ (by rw [C14_boxed_eq_spec a b ha hb]; exact hs),
    C14_hash_consistent.1 _ _ (by rw [C14_enum_eq_spec]; exact hs)⟩

/-! ## Non-vacuity -/

-- values of the envelope: 1.5, -0, +inf, the smallest subnormal, f64::MAX, both arithmetic NaNs,
-- a 47-bit user-space heap address, the largest admissible pointer
example : (Abs.num 0x3ff8000000000000#64).ok = true := by decide
example : (Abs.num negZero).ok = true := by decide
example : (Abs.num 0x7ff0000000000000#64).ok = true := by decide
example : (Abs.num 0x0000000000000001#64).ok = true := by decide
example : (Abs.num 0x7fefffffffffffff#64).ok = true := by decide
example : (Abs.num qNaN).ok = true ∧ (Abs.num indefNaN).ok = true := by decide
example : (Abs.obj 0x00007f3a5c001230#64).ok = true := by decide
example : (Abs.obj 0x0003fffffffffff8#64).ok = true := by decide
-- … and outside: a pointer with bit 50 set, a NaN whose payload contains QNAN's bits
example : (Abs.obj 0x0004000000000000#64).ok = false := by decide
example : (Abs.num 0x7ffc000000000001#64).ok = false ∧ decode (encode (.num 0x7ffc000000000001#64)) = some .nil := by decide
-- pairs on which the repaired `==` matters or must not change: 1.5 vs 1.5, NaN vs another NaN, a NaN-tagged
-- non-number vs itself (still bitwise), a number vs nil, two objects
example : boxedEq (encode (.num 0x3ff8000000000000#64)) (encode (.num 0x3ff8000000000000#64)) = true := by decide
example : boxedEq (encode (.num qNaN)) (encode (.num indefNaN)) = false := by decide
example : boxedEq (encode .nil) (encode .nil) = true ∧ boxedEq (encode (.num qNaN)) (encode .nil) = false := by decide
example : boxedEq (encode (.obj 0x1000#64)) (encode (.obj 0x1000#64)) = true ∧
    boxedEq (encode (.obj 0x1000#64)) (encode (.obj 0x1008#64)) = false := by decide
-- outside the envelope nothing is claimed: the bits of this "number" are the word of `nil`
example : boxedEq (encode (.num 0x7ffc000000000001#64)) (encode .nil) = true := by decide
-- proper / improper patterns
example : proper (encode (.obj 0x00007f3a5c001230#64)) = true := by decide
example : proper 0x7ffc000000000009#64 = false ∧ kind 0x7ffc000000000009#64 = some Kind.Nil ∧
    is_nil 0x7ffc000000000009#64 = false := by decide
example : kind 0x7ffc000000000000#64 = none := by decide
-- the hash input of 1.0 (both builds) and of a pointer
example : enumHash (.num 0x3ff0000000000000#64) = [("isize", 3), ("u64", 1)] ∧
    boxedHash (encode (.num 0x3ff0000000000000#64)) = [("isize", 3), ("u64", 1)] := by decide
example : enumHash (.obj 0x1000#64) = [("isize", 4), ("usize", 4096)] ∧
    boxedHash (encode (.obj 0x1000#64)) = [("u64", 0xfffc000000001000)] := by decide
example : f64ToU64 0x43f0000000000000#64 = 2 ^ 64 - 1 ∧ f64ToU64 0x43efffffffffffff#64 = 18446744073709549568 ∧
    f64ToU64 0xbff0000000000000#64 = 0 ∧ f64ToU64 0x7ff0000000000000#64 = 2 ^ 64 - 1 ∧ f64ToU64 qNaN = 0 := by decide

end LaytheVerif.C14
