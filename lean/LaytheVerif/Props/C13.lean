/-
C13 — Inline caches are transparent.
-/
import LaytheVerif.Model.Cache
import LaytheVerif.Gen.CacheSites
namespace LaytheVerif.C13
open LaytheVerif.Cache

/-- Run a site over a history of inputs, collecting what it did. -/
def runSite {α κ : Type} (step : κ → α → Res × κ) (cache : κ) (xs : List α) : List Res × κ :=
  xs.foldl (fun acc x => let o := step acc.2 x; (acc.1 ++ [o.1], o.2)) ([], cache)

/-- Generic lemma: a cache whose every step agrees with the slow path and keeps its invariant is
transparent on every history. -/
theorem history_transparent {α κ : Type} (step : κ → α → Res × κ) (slow : α → Res) (Good : κ → Prop)
    (P : α → Prop)
    (hstep : ∀ cache x, Good cache → P x → (step cache x).1 = slow x ∧ Good (step cache x).2)
    (xs : List α) (hP : ∀ x ∈ xs, P x) (cache : κ) (hg : Good cache) : (runSite step cache xs).1 = xs.map slow := by
  unfold runSite
  suffices h : ∀ (pre : List Res) cache, Good cache →
      (xs.foldl (fun (acc : List Res × κ) x => let o := step acc.2 x; (acc.1 ++ [o.1], o.2)) (pre, cache)).1
      = pre ++ xs.map slow by
    simpa using h [] cache hg
  induction xs with
  | nil => intro pre cache _; simp
  | cons x xs ih =>
    intro pre cache hg
    obtain ⟨h1, h2⟩ := hstep cache x hg (hP x (by simp))
    simp only [List.foldl, List.map_cons]
    rw [ih (fun y hy => hP y (by simp [hy])) _ _ h2, h1]
    simp

/-- Non-instance receivers belong to built-in classes, which have no fields (a user class deriving
from a built-in one is D11, a known finding of C16). -/
def primNoFields (w : World) (name : String) : Recv → Prop
  | .prim c => w.fieldIndex c name = none
  | .inst _ _ => True

/-- A property-cache entry is consistent with the class tables for this site's name. -/
def GoodP (w : World) (name : String) : PCache → Prop
  | none => True
  | some (c, i) => w.fieldIndex c name = some i

/-- An invoke-cache entry: the class has no such field (so nothing shadows) and this is its method. -/
def GoodI (w : World) (name : String) : ICache → Prop
  | none => True
  | some (c, m) => w.fieldIndex c name = none ∧ w.method c name = some m

def GoodS (w : World) (name : String) : ICache → Prop
  | none => True
  | some (c, m) => w.method c name = some m

theorem get_step (w : World) (name : String) (cache : PCache) (r : Recv) (hg : GoodP w name cache) :
    (getCached w name cache r).1 = getSlow w name r ∧ GoodP w name (getCached w name cache r).2 := by
  cases r with
  | prim c => simp [getCached, getSlow, GoodP]
  | inst c fs =>
    cases cache with
    | none =>
      simp only [getCached, getSlow]
      cases h : w.fieldIndex c name <;> simp [GoodP, h]
    | some p =>
      obtain ⟨cc, i⟩ := p
      simp only [getCached, getSlow]
      by_cases hc : cc = c
      · subst hc
        simp only [GoodP] at hg
        simp [hg, GoodP]
      · simp only [hc, if_false]
        cases h : w.fieldIndex c name <;> simp [GoodP, h]

theorem set_step (w : World) (name : String) (cache : PCache) (r : Recv) (hg : GoodP w name cache) :
    (setCached w name cache r).1 = setSlow w name r ∧ GoodP w name (setCached w name cache r).2 := by
  cases r with
  | prim c => simp [setCached, setSlow, hg]
  | inst c fs =>
    cases cache with
    | none =>
      simp only [setCached, setSlow]
      cases h : w.fieldIndex c name <;> simp [GoodP, h]
    | some p =>
      obtain ⟨cc, i⟩ := p
      simp only [setCached, setSlow]
      by_cases hc : cc = c
      · subst hc
        simp only [GoodP] at hg
        simp [hg, GoodP]
      · simp only [hc, if_false]
        cases h : w.fieldIndex c name
        · exact ⟨by simp, hg⟩
        · simp [GoodP, h]

theorem invoke_step (w : World) (name : String) (cache : ICache) (r : Recv) (hg : GoodI w name cache)
    (hr : primNoFields w name r) :
    (invokeCached w name cache r).1 = invokeSlow w name r ∧ GoodI w name (invokeCached w name cache r).2 := by
  cases cache with
  | none =>
    cases r with
    | prim c =>
      simp only [primNoFields] at hr
      simp only [invokeCached, invokeSlow]; cases h : w.method c name <;> simp [GoodI, h, hr]
    | inst c fs =>
      simp only [invokeCached, invokeSlow]
      cases h : w.fieldIndex c name
      · cases h2 : w.method c name <;> simp [GoodI, h, h2]
      · simp [GoodI]
  | some p =>
    obtain ⟨cc, m⟩ := p
    have hg' : w.fieldIndex cc name = none ∧ w.method cc name = some m := hg
    by_cases hc : cc = r.cls
    · subst hc
      cases r with
      | prim c =>
        have h2 : w.method c name = some m := hg'.2
        exact ⟨by simp [invokeCached, invokeSlow, Recv.cls, h2], by simpa [invokeCached, Recv.cls] using hg⟩
      | inst c fs =>
        have h1 : w.fieldIndex c name = none := hg'.1
        have h2 : w.method c name = some m := hg'.2
        exact ⟨by simp [invokeCached, invokeSlow, Recv.cls, h1, h2], by simpa [invokeCached, Recv.cls] using hg⟩
    · cases r with
      | prim c =>
        simp only [primNoFields] at hr
        simp only [Recv.cls] at hc
        simp only [invokeCached, invokeSlow, Recv.cls, hc, if_false]
        cases h : w.method c name
        · exact ⟨by simp, hg⟩
        · simp [GoodI, h, hr]
      | inst c fs =>
        simp only [Recv.cls] at hc
        simp only [invokeCached, invokeSlow, Recv.cls, hc, if_false]
        cases h : w.fieldIndex c name
        · cases h2 : w.method c name
          · exact ⟨by simp, hg⟩
          · simp [GoodI, h, h2]
        · simp [GoodI]

theorem super_step (w : World) (name : String) (cache : ICache) (sup : Nat) (hg : GoodS w name cache) :
    (superCached w name cache sup).1 = superSlow w name sup ∧ GoodS w name (superCached w name cache sup).2 := by
  cases cache with
  | none => simp only [superCached, superSlow]; cases h : w.method sup name <;> simp [GoodS, h]
  | some p =>
    obtain ⟨cc, m⟩ := p
    simp only [GoodS] at hg
    by_cases hc : cc = sup
    · subst hc; simp [superCached, superSlow, hg, GoodS]
    · simp only [superCached, superSlow, hc, if_false]
      cases h : w.method sup name
      · exact ⟨by simp, hg⟩
      · simp [GoodS, h]

/-- **C13_transparent.** For every site kind and every history of receivers arriving at the site
— first execution, one class repeatedly, many classes alternating, instances whose field shadows a
method, non-instances — the cached implementation does exactly what the slow path does, provided the
class tables are frozen (`World`) and the entry the site starts with is consistent (in particular the
empty entry a fresh module cache holds). -/
theorem C13_transparent (w : World) (name : String) :
    (∀ rs cache, GoodP w name cache → (runSite (getCached w name) cache rs).1 = rs.map (getSlow w name)) ∧
    (∀ rs cache, GoodP w name cache → (runSite (setCached w name) cache rs).1 = rs.map (setSlow w name)) ∧
    (∀ rs cache, GoodI w name cache → (∀ r ∈ rs, primNoFields w name r) →
        (runSite (invokeCached w name) cache rs).1 = rs.map (invokeSlow w name)) ∧
    (∀ ss cache, GoodS w name cache → (runSite (superCached w name) cache ss).1 = ss.map (superSlow w name)) :=
  ⟨fun rs c h => history_transparent _ _ _ (fun _ => True) (fun c r hg _ => get_step w name c r hg) rs (fun _ _ => trivial) c h,
   fun rs c h => history_transparent _ _ _ (fun _ => True) (fun c r hg _ => set_step w name c r hg) rs (fun _ _ => trivial) c h,
   fun rs c h hp => history_transparent _ _ _ (primNoFields w name) (fun c r hg hr => invoke_step w name c r hg hr) rs hp c h,
   fun ss c h => history_transparent _ _ _ (fun _ => True) (fun c s hg _ => super_step w name c s hg) ss (fun _ _ => trivial) c h⟩

/-- Property reads and writes share one slot kind: a site of one kind keeps the other's invariant. -/
theorem C13_fresh_cache_good (w : World) (name : String) :
    GoodP w name none ∧ GoodI w name none ∧ GoodS w name none := ⟨trivial, trivial, trivial⟩

/-- **C13_slot_disjoint.** The ids a compile hands to its sites are pairwise distinct and all below
the count the module's cache vectors are created with. -/
theorem C13_slot_disjoint (n : Nat) : (emitIds n).1.Nodup ∧ ∀ i ∈ (emitIds n).1, i < (emitIds n).2 := by
  simp [emitIds, List.nodup_range]

/-- **C13_slot_disjoint_continued.** A compile that continues a module's numbering
(`CacheIdEmitter::new`, the REPL's later entries) hands out ids that are pairwise distinct, not below
the ids handed out before — so distinct from every earlier site's — and below the count the vectors
are grown to; starting at 0 it is `emitIds`.  (The whole-session statement is C19's
`C19_cache_ids_consecutive`.) -/
theorem C13_slot_disjoint_continued (start n : Nat) :
    (emitIdsFrom start n).1.Nodup ∧ (∀ i ∈ (emitIdsFrom start n).1, start ≤ i ∧ i < (emitIdsFrom start n).2) ∧
    emitIdsFrom 0 n = emitIds n := by
  refine ⟨List.nodup_range' (step := 1), ?_, ?_⟩
  · intro i hi
    simpa [emitIdsFrom, List.mem_range'_1] using hi
  · simp [emitIdsFrom, emitIds, List.range_eq_range']

/-- **C13_witness_address_reuse** (envelope E13): if a cached class address is later occupied by a
*different* class (the caches are not traced, so the class may be collected), the cached site reads
the old class's slot: transparency needs "no cached address is reused" — settled on the
implementation by the class-churn stream. -/
theorem C13_witness_address_reuse :
    let w₁ : World := { fieldIndex := fun c n => if c = 7 ∧ n = "x" then some 0 else none, method := fun _ _ => none }
    let w₂ : World := { fieldIndex := fun c n => if c = 7 ∧ n = "x" then some 1 else none, method := fun _ _ => none }
    let c₁ := (getCached w₁ "x" none (.inst 7 [10, 20])).2
    (getCached w₂ "x" c₁ (.inst 7 [10, 20])).1 ≠ getSlow w₂ "x" (.inst 7 [10, 20]) := by decide

/-! ### non-vacuity -/

example :
    let w : World := { fieldIndex := fun c n => if c = 1 ∧ n = "f" then some 0 else none,
                       method := fun c n => if n = "f" ∧ (c = 2 ∨ c = 3) then some (c * 100) else none }
    (runSite (invokeCached w "f") none [.inst 2 [], .inst 2 [], .inst 1 [5], .inst 3 [], .prim 9, .inst 2 []]).1 =
      [.callMethod 200, .callMethod 200, .callField 5, .callMethod 300, .propertyError, .callMethod 200] := by decide

/-! ### [G] tie to cache.rs / ops.rs as they are now (regenerated by tools/translate.py) -/

/-- Every cache getter answers `Some` only under `cache.class == class` — the guard `getCached`,
`setCached`, `invokeCached` and `superCached` model. -/
theorem C13_getters_guarded : ∀ g ∈ Gen.CacheSites.getters, g.2.2 = true := by
  intro g hg
  simp only [Gen.CacheSites.getters, List.mem_cons, List.not_mem_nil, or_false] at hg
  rcases hg with h | h <;> subst h <;> rfl

/-- The cache accessors each op uses, and the key each is given: the key a slot is filled with is
the key it is checked against (receiver class for invoke/get/set, the popped super class for
`op_super_invoke`), and only `op_invoke`/`op_get_prop_by_name` clear. -/
theorem C13_uses_eq_gen : Gen.CacheSites.uses = [
    ("op_invoke", "get_invoke_cache", ["inline_slot", "class"]),
    ("op_invoke", "clear_invoke_cache", ["inline_slot"]),
    ("op_invoke", "set_invoke_cache", ["inline_slot", "class", "method"]),
    ("op_super_invoke", "get_invoke_cache", ["inline_slot", "super_class"]),
    ("op_super_invoke", "set_invoke_cache", ["inline_slot", "super_class", "method"]),
    ("op_set_prop_by_name", "get_property_cache", ["inline_slot", "class"]),
    ("op_set_prop_by_name", "set_property_cache", ["inline_slot", "class", "property_slot as usize"]),
    ("op_get_prop_by_name", "get_property_cache", ["inline_slot", "class"]),
    ("op_get_prop_by_name", "set_property_cache", ["inline_slot", "class", "property_slot as usize"]),
    ("op_get_prop_by_name", "clear_property_cache", ["inline_slot"])] := rfl

end LaytheVerif.C13
