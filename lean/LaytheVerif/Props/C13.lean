/-
C13 — Inline caches are transparent.

What a site "does" (`Cache.Res`) includes what it leaves on the operand stack: the value read, the
value of an assignment expression (`Res.wrote slot stored left`), the call.  `C13_transparent` is
therefore also the statement that a hit and a fill leave the same value; `C13_write_leaves_assigned`
that this value is the assigned one.  The stack statements of the two property ops are read from the
Rust text (`Gen.CacheSites.paths`, [G] section at the end).
-/
import LaytheVerif.Model.Cache
import LaytheVerif.Gen.CacheSites
namespace LaytheVerif.C13
open LaytheVerif.Cache

/-- Run a site over a history of inputs, collecting what it did. -/
def runSite {α κ : Type} (step : κ → α → Res × κ) (cache : κ) (xs : List α) : List Res × κ :=
  xs.foldl (fun acc x => let o := step acc.2 x; (acc.1 ++ [o.1], o.2)) ([], cache)

/-- Generic lemma: a cache whose every step agrees with the slow path and keeps its invariant is
transparent on every history. -/
theorem history_transparent {α κ : Type} (step : κ → α → Res × κ) (slow : α → Res) (Good : κ → Prop)
    (P : α → Prop)
    (hstep : ∀ cache x, Good cache → P x → (step cache x).1 = slow x ∧ Good (step cache x).2)
    (xs : List α) (hP : ∀ x ∈ xs, P x) (cache : κ) (hg : Good cache) : (runSite step cache xs).1 = xs.map slow := by
  unfold runSite
  suffices h : ∀ (pre : List Res) cache, Good cache →
      (xs.foldl (fun (acc : List Res × κ) x => let o := step acc.2 x; (acc.1 ++ [o.1], o.2)) (pre, cache)).1
      = pre ++ xs.map slow by
    simpa using h [] cache hg
  induction xs with
  | nil => intro pre cache _; simp
  | cons x xs ih =>
    intro pre cache hg
    obtain ⟨h1, h2⟩ := hstep cache x hg (hP x (by simp))
    simp only [List.foldl, List.map_cons]
    rw [ih (fun y hy => hP y (by simp [hy])) _ _ h2, h1]
    simp

/-- Non-instance receivers belong to built-in classes, which have no fields (a user class deriving
from a built-in one is D11, a known finding of C16). -/
def primNoFields (w : World) (name : String) : Recv → Prop
  | .prim c => w.fieldIndex c name = none
  | .inst _ _ => True

/-- A property-cache entry is consistent with the class tables for this site's name. -/
def GoodP (w : World) (name : String) : PCache → Prop
  | none => True
  | some (c, i) => w.fieldIndex c name = some i

/-- An invoke-cache entry: the class has no such field (so nothing shadows) and this is its method. -/
def GoodI (w : World) (name : String) : ICache → Prop
  | none => True
  | some (c, m) => w.fieldIndex c name = none ∧ w.method c name = some m

def GoodS (w : World) (name : String) : ICache → Prop
  | none => True
  | some (c, m) => w.method c name = some m

/-- The stack statements the two property ops have never get stuck, and say: a read leaves the slot's
content in place of the receiver; a write stores the assigned value and leaves the assigned value in
place of receiver and value. -/
theorem C13_shuffles_run (i v fv : Nat) :
    writeRes writeShuffle i v = .wrote i (.val v) (.val v) ∧ readRes readShuffle fv = .value (.val fv) :=
  ⟨rfl, rfl⟩

/-- The same on an operand stack of any depth: nothing below the site's operands is touched. -/
theorem C13_shuffles_any_stack (v fv : Nat) (rest : List Item) :
    runOps fv writeShuffle { stack := .val v :: .recv :: rest } =
      some { stack := .val v :: rest, inst := some .recv, value := some (.val v), stored := some (.val v) } ∧
    runOps fv readShuffle { stack := .recv :: rest } =
      some { stack := .val fv :: rest, inst := some .recv, value := some .recv } :=
  ⟨rfl, rfl⟩

theorem get_step (w : World) (name : String) (cache : PCache) (r : Recv) (hg : GoodP w name cache) :
    (getCached w name cache r).1 = getSlow w name r ∧ GoodP w name (getCached w name cache r).2 := by
  have hr : ∀ fv, readRes readShuffle fv = .value (.val fv) := fun _ => rfl
  cases r with
  | prim c => simp [getCached, getCachedWith, getSlow, GoodP]
  | inst c fs =>
    cases cache with
    | none =>
      simp only [getCached, getCachedWith, getSlow, hr]
      cases h : w.fieldIndex c name <;> simp [GoodP, h]
    | some p =>
      obtain ⟨cc, i⟩ := p
      simp only [getCached, getCachedWith, getSlow, hr]
      by_cases hc : cc = c
      · subst hc
        simp only [GoodP] at hg
        simp [hg, GoodP]
      · simp only [hc, if_false]
        cases h : w.fieldIndex c name <;> simp [GoodP, h]

theorem set_step (w : World) (name : String) (cache : PCache) (rv : Recv × Nat) (hg : GoodP w name cache) :
    (setCached w name cache rv).1 = setSlow w name rv ∧ GoodP w name (setCached w name cache rv).2 := by
  have hw : ∀ i v, writeRes writeShuffle i v = .wrote i (.val v) (.val v) := fun _ _ => rfl
  obtain ⟨r, v⟩ := rv
  cases r with
  | prim c => simp [setCached, setCachedWith, setSlow, hg]
  | inst c fs =>
    cases cache with
    | none =>
      simp only [setCached, setCachedWith, setSlow, hw]
      cases h : w.fieldIndex c name <;> simp [GoodP, h]
    | some p =>
      obtain ⟨cc, i⟩ := p
      simp only [setCached, setCachedWith, setSlow, hw]
      by_cases hc : cc = c
      · subst hc
        simp only [GoodP] at hg
        simp [hg, GoodP]
      · simp only [hc, if_false]
        cases h : w.fieldIndex c name
        · exact ⟨by simp, hg⟩
        · simp [GoodP, h]

theorem invoke_step (w : World) (name : String) (cache : ICache) (r : Recv) (hg : GoodI w name cache)
    (hr : primNoFields w name r) :
    (invokeCached w name cache r).1 = invokeSlow w name r ∧ GoodI w name (invokeCached w name cache r).2 := by
  cases cache with
  | none =>
    cases r with
    | prim c =>
      simp only [primNoFields] at hr
      simp only [invokeCached, invokeSlow]; cases h : w.method c name <;> simp [GoodI, h, hr]
    | inst c fs =>
      simp only [invokeCached, invokeSlow]
      cases h : w.fieldIndex c name
      · cases h2 : w.method c name <;> simp [GoodI, h, h2]
      · simp [GoodI]
  | some p =>
    obtain ⟨cc, m⟩ := p
    have hg' : w.fieldIndex cc name = none ∧ w.method cc name = some m := hg
    by_cases hc : cc = r.cls
    · subst hc
      cases r with
      | prim c =>
        have h2 : w.method c name = some m := hg'.2
        exact ⟨by simp [invokeCached, invokeSlow, Recv.cls, h2], by simpa [invokeCached, Recv.cls] using hg⟩
      | inst c fs =>
        have h1 : w.fieldIndex c name = none := hg'.1
        have h2 : w.method c name = some m := hg'.2
        exact ⟨by simp [invokeCached, invokeSlow, Recv.cls, h1, h2], by simpa [invokeCached, Recv.cls] using hg⟩
    · cases r with
      | prim c =>
        simp only [primNoFields] at hr
        simp only [Recv.cls] at hc
        simp only [invokeCached, invokeSlow, Recv.cls, hc, if_false]
        cases h : w.method c name
        · exact ⟨by simp, hg⟩
        · simp [GoodI, h, hr]
      | inst c fs =>
        simp only [Recv.cls] at hc
        simp only [invokeCached, invokeSlow, Recv.cls, hc, if_false]
        cases h : w.fieldIndex c name
        · cases h2 : w.method c name
          · exact ⟨by simp, hg⟩
          · simp [GoodI, h, h2]
        · simp [GoodI]

theorem super_step (w : World) (name : String) (cache : ICache) (sup : Nat) (hg : GoodS w name cache) :
    (superCached w name cache sup).1 = superSlow w name sup ∧ GoodS w name (superCached w name cache sup).2 := by
  cases cache with
  | none => simp only [superCached, superSlow]; cases h : w.method sup name <;> simp [GoodS, h]
  | some p =>
    obtain ⟨cc, m⟩ := p
    simp only [GoodS] at hg
    by_cases hc : cc = sup
    · subst hc; simp [superCached, superSlow, hg, GoodS]
    · simp only [superCached, superSlow, hc, if_false]
      cases h : w.method sup name
      · exact ⟨by simp, hg⟩
      · simp [GoodS, h]

/-- **C13_transparent.** For every site kind and every history of receivers arriving at the site
— first execution, one class repeatedly, many classes alternating, instances whose field shadows a
method, non-instances — the cached implementation does exactly what the slow path does, *including
what it leaves on the operand stack* (`Res.value left`, `Res.wrote slot stored left`: a hit and a
fill leave the same value), provided the class tables are frozen (`World`) and the entry the site
starts with is consistent (in particular the empty entry a fresh module cache holds).  A write site's
history is a list of (receiver, assigned value). -/
theorem C13_transparent (w : World) (name : String) :
    (∀ rs cache, GoodP w name cache → (runSite (getCached w name) cache rs).1 = rs.map (getSlow w name)) ∧
    (∀ (ws : List (Recv × Nat)) cache, GoodP w name cache →
        (runSite (setCached w name) cache ws).1 = ws.map (setSlow w name)) ∧
    (∀ rs cache, GoodI w name cache → (∀ r ∈ rs, primNoFields w name r) →
        (runSite (invokeCached w name) cache rs).1 = rs.map (invokeSlow w name)) ∧
    (∀ ss cache, GoodS w name cache → (runSite (superCached w name) cache ss).1 = ss.map (superSlow w name)) :=
  ⟨fun rs c h => history_transparent _ _ _ (fun _ => True) (fun c r hg _ => get_step w name c r hg) rs (fun _ _ => trivial) c h,
   fun ws c h => history_transparent _ _ _ (fun _ => True) (fun c r hg _ => set_step w name c r hg) ws (fun _ _ => trivial) c h,
   fun rs c h hp => history_transparent _ _ _ (primNoFields w name) (fun c r hg hr => invoke_step w name c r hg hr) rs hp c h,
   fun ss c h => history_transparent _ _ _ (fun _ => True) (fun c s hg _ => super_step w name c s hg) ss (fun _ _ => trivial) c h⟩

/-- **C13_write_leaves_assigned.** At every position of every history of a write site — first execution,
hit, refill after another class — a write that succeeds stores the value that was assigned at that
position and leaves that value (not the receiver) as the value of the assignment expression. -/
theorem C13_write_leaves_assigned (w : World) (name : String) (ws : List (Recv × Nat)) (cache : PCache)
    (hg : GoodP w name cache) (k slot : Nat) (stored left : Item)
    (hk : (runSite (setCached w name) cache ws).1[k]? = some (.wrote slot stored left)) :
    ∃ r v, ws[k]? = some (r, v) ∧ stored = .val v ∧ left = .val v ∧ w.fieldIndex r.cls name = some slot := by
  rw [(C13_transparent w name).2.1 ws cache hg, List.getElem?_map] at hk
  cases hw : ws[k]? with
  | none => simp [hw] at hk
  | some rv =>
    obtain ⟨r, v⟩ := rv
    refine ⟨r, v, rfl, ?_⟩
    simp only [hw, Option.map_some, Option.some.injEq] at hk
    cases r with
    | prim c => simp [setSlow] at hk
    | inst c fs =>
      simp only [setSlow] at hk
      cases hf : w.fieldIndex c name with
      | none => simp [hf] at hk
      | some i =>
        simp only [hf, Res.wrote.injEq] at hk
        obtain ⟨h1, h2, h3⟩ := hk
        exact ⟨h2.symm, h3.symm, by simp [Recv.cls, hf, h1]⟩

/-- **C13_hit_fill_same_value.** Side by side: the same receiver and value arriving at a slot that
already holds the receiver's class (hit) and at an empty slot (fill) give the same result — the same slot
written, the same value stored, the same value left on the stack. -/
theorem C13_hit_fill_same_value (w : World) (name : String) (c i v : Nat) (fs : List Nat)
    (h : w.fieldIndex c name = some i) :
    (setCached w name (some (c, i)) (.inst c fs, v)).1 = .wrote i (.val v) (.val v) ∧
    (setCached w name none (.inst c fs, v)).1 = .wrote i (.val v) (.val v) := by
  have hw : ∀ i v, writeRes writeShuffle i v = .wrote i (.val v) (.val v) := fun _ _ => rfl
  simp [setCached, setCachedWith, h, hw]

/-- **C13_read_leaves_field.** Likewise a read that finds a field leaves that field's content, at
every position of every history. -/
theorem C13_read_leaves_field (w : World) (name : String) (rs : List Recv) (cache : PCache)
    (hg : GoodP w name cache) (k : Nat) (left : Item)
    (hk : (runSite (getCached w name) cache rs).1[k]? = some (.value left)) :
    ∃ c fs i, rs[k]? = some (.inst c fs) ∧ w.fieldIndex c name = some i ∧ left = .val (fs.getD i 0) := by
  rw [(C13_transparent w name).1 rs cache hg, List.getElem?_map] at hk
  cases hr : rs[k]? with
  | none => simp [hr] at hk
  | some r =>
    simp only [hr, Option.map_some, Option.some.injEq] at hk
    cases r with
    | prim c =>
      simp only [getSlow] at hk
      cases hm : w.method c name <;> simp [hm] at hk
    | inst c fs =>
      simp only [getSlow] at hk
      cases hf : w.fieldIndex c name with
      | none =>
        simp only [hf] at hk
        cases hm : w.method c name <;> simp [hm] at hk
      | some i =>
        simp only [hf, Res.value.injEq] at hk
        exact ⟨c, fs, i, rfl, hf, hk.symm⟩

/-- **C13_witness_hit_leaves_receiver**: what `setCachedWith` is parametrised for.  A hit arm that stores
straight from the stack and then drops the top (`instance[slot] = peek(0); drop()`) writes the right
value but leaves the *receiver*: the first execution (fill) and the second (hit) of one site with one
class then differ in the value of the assignment expression, and only there. -/
theorem C13_witness_hit_leaves_receiver :
    let w : World := { fieldIndex := fun c n => if c = 7 ∧ n = "x" then some 0 else none, method := fun _ _ => none }
    let hit : List SOp := [.letPeek .inst 1, .asInstance .inst, .storePeek 0, .drop]
    (runSite (setCachedWith hit writeShuffle w "x") none [(.inst 7 [0], 5), (.inst 7 [5], 6)]).1 =
      [.wrote 0 (.val 5) (.val 5), .wrote 0 (.val 6) .recv] ∧
    [(Recv.inst 7 [0], 5), (.inst 7 [5], 6)].map (setSlow w "x") = [.wrote 0 (.val 5) (.val 5), .wrote 0 (.val 6) (.val 6)] := by
  decide

/-- Property reads and writes share one slot kind: a site of one kind keeps the other's invariant. -/
theorem C13_fresh_cache_good (w : World) (name : String) :
    GoodP w name none ∧ GoodI w name none ∧ GoodS w name none := ⟨trivial, trivial, trivial⟩

/-- **C13_slot_disjoint.** The ids a compile hands to its sites are pairwise distinct and all below
the count the module's cache vectors are created with. -/
theorem C13_slot_disjoint (n : Nat) : (emitIds n).1.Nodup ∧ ∀ i ∈ (emitIds n).1, i < (emitIds n).2 := by
  simp [emitIds, List.nodup_range]

/-- **C13_slot_disjoint_continued.** A compile that continues a module's numbering
(`CacheIdEmitter::new`, the REPL's later entries) hands out ids that are pairwise distinct, not below
the ids handed out before — so distinct from every earlier site's — and below the count the vectors
are grown to; starting at 0 it is `emitIds`.  (The whole-session statement is C19's
`C19_cache_ids_consecutive`.) -/
theorem C13_slot_disjoint_continued (start n : Nat) :
    (emitIdsFrom start n).1.Nodup ∧ (∀ i ∈ (emitIdsFrom start n).1, start ≤ i ∧ i < (emitIdsFrom start n).2) ∧
    emitIdsFrom 0 n = emitIds n := by
  refine ⟨List.nodup_range' (step := 1), ?_, ?_⟩
  · intro i hi
    simpa [emitIdsFrom, List.mem_range'_1] using hi
  · simp [emitIdsFrom, emitIds, List.range_eq_range']

/-- **C13_witness_address_reuse** (envelope E13): if a cached class address is later occupied by a
*different* class (the caches are not traced, so the class may be collected), the cached site reads
the old class's slot: transparency needs "no cached address is reused" — settled on the
implementation by the class-churn stream. -/
theorem C13_witness_address_reuse :
    let w₁ : World := { fieldIndex := fun c n => if c = 7 ∧ n = "x" then some 0 else none, method := fun _ _ => none }
    let w₂ : World := { fieldIndex := fun c n => if c = 7 ∧ n = "x" then some 1 else none, method := fun _ _ => none }
    let c₁ := (getCached w₁ "x" none (.inst 7 [10, 20])).2
    (getCached w₂ "x" c₁ (.inst 7 [10, 20])).1 ≠ getSlow w₂ "x" (.inst 7 [10, 20]) := by decide

/-! ### non-vacuity -/

example :
    let w : World := { fieldIndex := fun c n => if c = 1 ∧ n = "f" then some 0 else none,
                       method := fun c n => if n = "f" ∧ (c = 2 ∨ c = 3) then some (c * 100) else none }
    (runSite (invokeCached w "f") none [.inst 2 [], .inst 2 [], .inst 1 [5], .inst 3 [], .prim 9, .inst 2 []]).1 =
      [.callMethod 200, .callMethod 200, .callField 5, .callMethod 300, .propertyError, .callMethod 200] := by decide

/-- a write history with a fill, hits (same instance, another instance of the class), a class with the
field in another slot, a class without the field, a non-instance, and a refill -/
example :
    let w : World := { fieldIndex := fun c n => if n = "x" then (if c = 1 then some 0 else if c = 2 then some 1 else none) else none,
                       method := fun _ _ => none }
    (runSite (setCached w "x") none
        [(.inst 1 [0], 5), (.inst 1 [5], 6), (.inst 1 [9], 7), (.inst 2 [0, 0], 8), (.inst 3 [], 9), (.prim 4, 1), (.inst 1 [6], 2)]) =
      ([.wrote 0 (.val 5) (.val 5), .wrote 0 (.val 6) (.val 6), .wrote 0 (.val 7) (.val 7), .wrote 1 (.val 8) (.val 8),
        .propertyError, .notInstanceError, .wrote 0 (.val 2) (.val 2)], some (1, 0)) := by decide

/-! ### [G] tie to cache.rs / ops.rs as they are now (regenerated by tools/translate.py) -/

/-- Every cache getter answers `Some` only under `cache.class == class` — the guard `getCached`,
`setCached`, `invokeCached` and `superCached` model. -/
theorem C13_getters_guarded : ∀ g ∈ Gen.CacheSites.getters, g.2.2 = true := by
  intro g hg
  simp only [Gen.CacheSites.getters, List.mem_cons, List.not_mem_nil, or_false] at hg
  rcases hg with h | h <;> subst h <;> rfl

/-- The cache accessors each op uses, and the key each is given: the key a slot is filled with is
the key it is checked against (receiver class for invoke/get/set, the popped super class for
`op_super_invoke`), and only `op_invoke`/`op_get_prop_by_name` clear. -/
theorem C13_uses_eq_gen : Gen.CacheSites.uses = [
    ("op_invoke", "get_invoke_cache", ["inline_slot", "class"]),
    ("op_invoke", "clear_invoke_cache", ["inline_slot"]),
    ("op_invoke", "set_invoke_cache", ["inline_slot", "class", "method"]),
    ("op_super_invoke", "get_invoke_cache", ["inline_slot", "super_class"]),
    ("op_super_invoke", "set_invoke_cache", ["inline_slot", "super_class", "method"]),
    ("op_set_prop_by_name", "get_property_cache", ["inline_slot", "class"]),
    ("op_set_prop_by_name", "set_property_cache", ["inline_slot", "class", "property_slot as usize"]),
    ("op_get_prop_by_name", "get_property_cache", ["inline_slot", "class"]),
    ("op_get_prop_by_name", "set_property_cache", ["inline_slot", "class", "property_slot as usize"]),
    ("op_get_prop_by_name", "clear_property_cache", ["inline_slot"])] := rfl

/-! ### [G] the control paths and stack statements of the four ops (regenerated from ops.rs)

`Gen.CacheSites.paths` lists every control path through `op_invoke`, `op_super_invoke`,
`op_set_prop_by_name` and `op_get_prop_by_name`: guards taken, cache accessor calls, operand-stack
statements, exits.  `C13_paths_eq_gen` pins that text to the branch structure `…Cached` mirror;
`C13_write_paths_gen` / `C13_read_paths_gen` read the stack statements of the arms that succeed as the
`SOp` sequences the model runs, hit arm and fill arm separately — so an edit to what either arm leaves on
the stack re-opens a proof. -/

/-- what every path of `op_invoke` starts with -/
def invokePre : List (String × String) := [
  ("let", "let constant = self.read_short()"),
  ("let", "let arg_count = self.read_byte()"),
  ("let", "let inline_slot = self.read_slot() as usize"),
  ("let", "let method_name = self.read_string(constant)"),
  ("stack", "let receiver = self.fiber.peek(arg_count as usize)"),
  ("let", "let class = self.value_class(receiver)")]

/-- what every path of `op_super_invoke` starts with -/
def superPre : List (String × String) := [
  ("let", "let constant = self.read_short()"),
  ("let", "let arg_count = self.read_byte()"),
  ("let", "let inline_slot = self.read_slot() as usize"),
  ("let", "let method_name = self.read_string(constant)"),
  ("stack", "let super_class = self.fiber.pop().to_obj().to_class()")]

/-- what every path of `op_set_prop_by_name` starts with -/
def setPre : List (String × String) := [
  ("let", "let slot = self.read_short()"),
  ("stack", "let instance = self.fiber.peek(1)"),
  ("let", "let name = self.read_string(slot)"),
  ("let", "let inline_slot = self.read_slot() as usize")]

/-- what every path of `op_get_prop_by_name` starts with -/
def getPre : List (String × String) := [
  ("let", "let slot = self.read_short()"),
  ("stack", "let value = self.fiber.peek(0)"),
  ("let", "let name = self.read_string(slot)"),
  ("let", "let inline_slot = self.read_slot() as usize")]

/-- the control paths of the four cached ops as the model mirrors them, branch for branch -/
def expectedPaths : List (String × List (String × String)) := [
  ("op_invoke", invokePre ++ [
    ("guard", "match self.inline_cache().get_invoke_cache(inline_slot, class) => Some(method)"),
    ("exit", "self.resolve_call(method, arg_count)")]),
  ("op_invoke", invokePre ++ [
    ("guard", "match self.inline_cache().get_invoke_cache(inline_slot, class) => None"),
    ("bind", "if_let_obj ObjectKind::Instance(instance) = (receiver)"),
    ("guard", "if let Some(field) = instance.get_field(method_name)"),
    ("stack", "self.fiber.peek_set(arg_count as usize, *field)"),
    ("cache", "self.inline_cache_mut().clear_invoke_cache(inline_slot)"),
    ("exit", "return self.resolve_call(*field, arg_count)")]),
  ("op_invoke", invokePre ++ [
    ("guard", "match self.inline_cache().get_invoke_cache(inline_slot, class) => None"),
    ("bind", "if_let_obj ObjectKind::Instance(instance) = (receiver)"),
    ("guard", "not if let Some(field) = instance.get_field(method_name)"),
    ("guard", "match class.get_method(&method_name) => Some(method)"),
    ("cache", "self.inline_cache_mut().set_invoke_cache(inline_slot, class, method)"),
    ("exit", "self.resolve_call(method, arg_count)")]),
  ("op_invoke", invokePre ++ [
    ("guard", "match self.inline_cache().get_invoke_cache(inline_slot, class) => None"),
    ("bind", "if_let_obj ObjectKind::Instance(instance) = (receiver)"),
    ("guard", "not if let Some(field) = instance.get_field(method_name)"),
    ("guard", "match class.get_method(&method_name) => None"),
    ("exit", "runtime_error property")]),
  ("op_invoke", invokePre ++ [
    ("guard", "match self.inline_cache().get_invoke_cache(inline_slot, class) => None"),
    ("guard", "not if_let_obj ObjectKind::Instance(instance) = (receiver)"),
    ("guard", "match class.get_method(&method_name) => Some(method)"),
    ("cache", "self.inline_cache_mut().set_invoke_cache(inline_slot, class, method)"),
    ("exit", "self.resolve_call(method, arg_count)")]),
  ("op_invoke", invokePre ++ [
    ("guard", "match self.inline_cache().get_invoke_cache(inline_slot, class) => None"),
    ("guard", "not if_let_obj ObjectKind::Instance(instance) = (receiver)"),
    ("guard", "match class.get_method(&method_name) => None"),
    ("exit", "runtime_error property")]),
  ("op_super_invoke", superPre ++ [
    ("guard", "match self.inline_cache().get_invoke_cache(inline_slot, super_class) => Some(method)"),
    ("exit", "self.resolve_call(method, arg_count)")]),
  ("op_super_invoke", superPre ++ [
    ("guard", "match self.inline_cache().get_invoke_cache(inline_slot, super_class) => None"),
    ("guard", "match super_class.get_method(&method_name) => Some(method)"),
    ("cache", "self.inline_cache_mut().set_invoke_cache(inline_slot, super_class, method)"),
    ("exit", "self.resolve_call(method, arg_count)")]),
  ("op_super_invoke", superPre ++ [
    ("guard", "match self.inline_cache().get_invoke_cache(inline_slot, super_class) => None"),
    ("guard", "match super_class.get_method(&method_name) => None"),
    ("exit", "runtime_error property")]),
  ("op_set_prop_by_name", setPre ++ [
    ("bind", "if_let_obj ObjectKind::Instance(mut instance) = (instance)"),
    ("let", "let class = instance.class()"),
    ("guard", "match self.inline_cache().get_property_cache(inline_slot, class) => Some(property_slot)"),
    ("stack", "let value = self.fiber.pop()"),
    ("stack", "self.fiber.drop()"),
    ("stack", "self.fiber.push(value)"),
    ("stack", "instance[property_slot] = value"),
    ("exit", "return ExecutionSignal::Ok")]),
  ("op_set_prop_by_name", setPre ++ [
    ("bind", "if_let_obj ObjectKind::Instance(mut instance) = (instance)"),
    ("let", "let class = instance.class()"),
    ("guard", "match self.inline_cache().get_property_cache(inline_slot, class) => None"),
    ("let", "let property_slot = class.get_field_index(&name)"),
    ("stack", "let value = self.fiber.pop()"),
    ("stack", "self.fiber.drop()"),
    ("stack", "self.fiber.push(value)"),
    ("guard", "match property_slot => Some(property_slot)"),
    ("cache", "let cache = self.inline_cache_mut()"),
    ("cache", "cache.set_property_cache(inline_slot, class, property_slot as usize)"),
    ("stack", "instance[property_slot as usize] = value"),
    ("exit", "ExecutionSignal::Ok")]),
  ("op_set_prop_by_name", setPre ++ [
    ("bind", "if_let_obj ObjectKind::Instance(mut instance) = (instance)"),
    ("let", "let class = instance.class()"),
    ("guard", "match self.inline_cache().get_property_cache(inline_slot, class) => None"),
    ("let", "let property_slot = class.get_field_index(&name)"),
    ("stack", "let value = self.fiber.pop()"),
    ("stack", "self.fiber.drop()"),
    ("stack", "self.fiber.push(value)"),
    ("guard", "match property_slot => None"),
    ("exit", "runtime_error property")]),
  ("op_set_prop_by_name", setPre ++ [
    ("guard", "not if_let_obj ObjectKind::Instance(mut instance) = (instance)"),
    ("exit", "runtime_error runtime")]),
  ("op_get_prop_by_name", getPre ++ [
    ("bind", "if_let_obj ObjectKind::Instance(instance) = (value)"),
    ("let", "let class = instance.class()"),
    ("guard", "match self.inline_cache().get_property_cache(inline_slot, class) => Some(property_slot)"),
    ("stack", "self.fiber.peek_set(0, instance[property_slot])"),
    ("exit", "return ExecutionSignal::Ok")]),
  ("op_get_prop_by_name", getPre ++ [
    ("bind", "if_let_obj ObjectKind::Instance(instance) = (value)"),
    ("let", "let class = instance.class()"),
    ("guard", "match self.inline_cache().get_property_cache(inline_slot, class) => None"),
    ("guard", "if let Some(property_slot) = class.get_field_index(&name)"),
    ("cache", "self.inline_cache_mut().set_property_cache(inline_slot, class, property_slot as usize)"),
    ("stack", "self.fiber.peek_set(0, instance[property_slot as usize])"),
    ("exit", "return ExecutionSignal::Ok")]),
  ("op_get_prop_by_name", getPre ++ [
    ("bind", "if_let_obj ObjectKind::Instance(instance) = (value)"),
    ("let", "let class = instance.class()"),
    ("guard", "match self.inline_cache().get_property_cache(inline_slot, class) => None"),
    ("guard", "not if let Some(property_slot) = class.get_field_index(&name)"),
    ("let", "let class = self.value_class(value)"),
    ("cache", "let cache = self.inline_cache_mut()"),
    ("cache", "cache.clear_property_cache(inline_slot)"),
    ("exit", "self.bind_method(class, name)")]),
  ("op_get_prop_by_name", getPre ++ [
    ("guard", "not if_let_obj ObjectKind::Instance(instance) = (value)"),
    ("let", "let class = self.value_class(value)"),
    ("cache", "let cache = self.inline_cache_mut()"),
    ("cache", "cache.clear_property_cache(inline_slot)"),
    ("exit", "self.bind_method(class, name)")])
]

theorem C13_paths_eq_gen : Gen.CacheSites.paths = expectedPaths := rfl

/-- the paths of `op` that leave through `ExecutionSignal::Ok` -/
def okPaths (op : String) : List (List (String × String)) :=
  (Gen.CacheSites.paths.filter (fun p => p.1 == op &&
    (p.2.contains ("exit", "return ExecutionSignal::Ok") || p.2.contains ("exit", "ExecutionSignal::Ok")))).map (·.2)

/-- does the path go through the hit arm of the property cache test? -/
def isHitPath (p : List (String × String)) : Bool :=
  p.contains ("guard", "match self.inline_cache().get_property_cache(inline_slot, class) => Some(property_slot)")

/-- **C13_write_paths_gen.** `op_set_prop_by_name` completes on exactly two paths, the hit arm and the
fill arm, and the stack statements of each read as `writeShuffle` — the sequences `setCached` runs
(`setCachedWith writeShuffle writeShuffle`).  With `C13_shuffles_run`: both leave the assigned value. -/
theorem C13_write_paths_gen :
    (okPaths "op_set_prop_by_name").map (fun p => (isHitPath p, pathOps p)) =
      [(true, some writeShuffle), (false, some writeShuffle)] := by decide

/-- **C13_read_paths_gen.** Likewise `op_get_prop_by_name` and `readShuffle`. -/
theorem C13_read_paths_gen :
    (okPaths "op_get_prop_by_name").map (fun p => (isHitPath p, pathOps p)) =
      [(true, some readShuffle), (false, some readShuffle)] := by decide

/-- may the path store into the instance?  (a statement the model cannot read counts as a store) -/
def mayStore (p : List (String × String)) : Bool :=
  match pathOps p with
  | some ops => ops.any (fun o => match o with | .storeValue | .storePeek _ => true | _ => false)
  | none => true

/-- The other paths of the two property ops (field not found, receiver not an instance; bound-method
read) consist of statements the model can read, and none stores into the instance. -/
theorem C13_error_paths_do_not_store :
    (Gen.CacheSites.paths.filter (fun p => (p.1 == "op_set_prop_by_name" || p.1 == "op_get_prop_by_name") &&
      !(okPaths p.1).contains p.2)).map (fun p => (p.1, mayStore p.2)) =
    [("op_set_prop_by_name", false), ("op_set_prop_by_name", false),
     ("op_get_prop_by_name", false), ("op_get_prop_by_name", false)] := by decide

end LaytheVerif.C13
