import LaytheVerif.Model.Signature
import LaytheVerif.Props.C16Rec
/-!
# C16 — No accepted program can crash the runtime  (DESIGN.md §5 C16)

*Spec.*  outcome ∈ {normal exit, exit code, reported deadlock, language error with traceback}.

What is proved here (the parts of the property a model can carry — host panics and memory faults are
runtime behaviour; the model predicts where they *cannot* happen):

* `C16_sigcheck_sound` — `check_if_valid_call` accepts only argument lists whose every argument has a kind its
  guarding parameter allows (fixed, default and variadic arities; all argument lists);
* `C16_signatures_cover_unwraps` — by `decide` over the **regenerated** table of all natives: for *every* native, every
  site where a body indexes / unwraps `args[i]` is justified by the declared parameter (or, for the receiver of a
  method, by class dispatch — envelope E16 `receiverOk`); there is no list of exceptions any more (D22, D24 repaired);
  `C16_unwraps_safe` / `C16_natives_safe` lift the table check to *all* accepted argument lists;
* `C16_result_unwraps_none`, `C16_field_unwraps_none` — no result of a user callback is unwrapped unchecked (D23
  repaired); no assignable instance field is unwrapped unchecked, directly or through a name it was bound to — the one
  unwrap there is (`get_regex!`, the RegExp pattern) sits behind a test of its kind (DC16.5 repaired);
* `C16_hook_signals_handled`, `C16_hook_never_panics_on_resolved_call` — `run_fun` / `run_method` have an arm for every
  signal the functions behind `resolve_call` can answer, the exit of a native called directly included (DC16.10 repaired);
* `C16_no_std_sort_in_natives` — no native sorts with `slice::sort_by` and its relatives, which panic on a comparator that is
  not a total order (DC16.15 repaired);
* `C16_display_depth_bounded`, `C16_display_terminates`, `C16_display_bound_text` — `Display` of a value nests at most
  `DISPLAY_MAX_DEPTH` activations of `fmt_nested` and terminates on every object graph, cyclic or not; the `Display` impls
  that write nested values go through `fmt_nested` (DC16.11 repaired);
* `C16_frame_limit`, `C16_frame_limit_always`, `C16_frame_limit_from_any_state`, `C16_stack_overflow_at_limit` — every
  push of a call frame (Laythe frame or native stub frame) sits behind `frames().len() >= MAX_FRAME_SIZE`
  (`C16_frame_guard_text`): along **every** sequence of calls, native entries/exits and returns the frame count never
  exceeds `MAX_FRAME_SIZE` — no envelope (DC16.1 repaired: the old `==` guard with an unguarded stub push could be
  stepped over);
* (in `Props/C16Rec.lean`, on the structured model `Model/RecFrames.lean`) `C16_temp_roots_balanced`,
  `C16_no_root_assertion_panic`, `C16_overflow_catchable`, `C16_rec_frame_limit`, `C16_call_native_root_exits_balanced` — for
  every program of Laythe calls, natives with callbacks, `try`s and a recursive function: the overflow is caught by the
  innermost `try` at whatever level it sits, the run continues with the frames and temporary roots it had, `call_native`
  leaves the temporary roots unchanged on every exit (the frame-limit test precedes `push_root(stub)`), so the debug
  assertion `assert_roots` of an enclosing native never fires;
* `C16_fiber_init_text`, `C16_fiber_init_any_size` — the initial stack of a fiber is copied from a slice of exactly the
  requested length, whatever that length is (D10 repaired);
* `C16_chan_capacity_text`, `C16_chan_capacity_bounded` — `chan(n)` allocates a buffer only for 1 ≤ n ≤ `MAX_CHANNEL_CAPACITY`
  (DC16.3 repaired);
* `C16_noncallable` — `resolve_call` dispatches on five object kinds and reports everything else as not callable;
* generated-table lemmas tying the model to the text of signature.rs / native.rs / ops.rs.

`C16_full` (stated, not proved): every accepted program ends in one of the four outcomes.
-/
namespace LaytheVerif.C16
open LaytheVerif.Gen LaytheVerif.Signature

/-! ## generated-table lemmas: the model mirrors the text -/

theorem C16_isValid_eq_gen_aux : ∀ p ∈ PKind.all, ∀ v ∈ VKind.all, genIsValid p v = p.isValid v := by decide

theorem PKind_all_complete (p : PKind) : p ∈ PKind.all := by cases p <;> decide
theorem ObjKind_all_complete (k : ObjKind) : k ∈ ObjKind.all := by cases k <;> decide
theorem VKind_all_complete (v : VKind) : v ∈ VKind.all := by
  cases v with
  | obj k => cases k <;> decide
  | _ => decide

theorem firstInvalid_none {ps : List PKind} {as : List VKind} {i : Nat}
    (h : firstInvalid ps as i = none) :
    ∀ (j : Nat) (p : PKind) (a : VKind), ps[j]? = some p → as[j]? = some a → p.isValid a = true := by
  induction ps generalizing as i with
  | nil => intro j p a hp; simp at hp
  | cons p0 ps ih =>
    cases as with
    | nil => intro j p a _ ha; simp at ha
    | cons a0 as =>
      simp only [firstInvalid] at h
      split at h
      · simp at h
      · rename_i hv
        intro j p a hp ha
        cases j with
        | zero =>
          simp at hp ha; subst hp; subst ha
          simpa using hv
        | succ j =>
          simp at hp ha
          exact ih h j p a hp ha

theorem firstInvalidRest_none {vt : PKind} {as : List VKind} {i : Nat}
    (h : firstInvalidRest vt as i = none) :
    ∀ (j : Nat) (a : VKind), as[j]? = some a → vt.isValid a = true := by
  induction as generalizing i with
  | nil => intro j a ha; simp at ha
  | cons a0 as ih =>
    simp only [firstInvalidRest] at h
    split at h
    · simp at h
    · rename_i hv
      intro j a ha
      cases j with
      | zero => simp at ha; subst ha; simpa using hv
      | succ j => simp at ha; exact ih h j a ha

theorem accepts_iff {s : NativeSig} {args : List VKind} :
    accepts s args = true ↔ checkIfValidCall s args = .ok () := by
  unfold accepts
  split
  · rename_i u hu; cases u; simp [hu]
  · rename_i e he; simp [he]

theorem check_fixed {s : NativeSig} {args : List VKind} {n : Nat} (ha : s.arity = .fixed n)
    (h : checkIfValidCall s args = .ok ()) :
    args.length = n ∧ firstInvalid s.params args 0 = none := by
  unfold checkIfValidCall at h; simp only [ha] at h
  by_cases hl : args.length = n
  · refine ⟨hl, ?_⟩
    simp [hl] at h
    cases hf : firstInvalid s.params args 0 with
    | none => rfl
    | some i => simp [hf] at h
  · simp [hl] at h

theorem check_default {s : NativeSig} {args : List VKind} {lo hi : Nat} (ha : s.arity = .default lo hi)
    (h : checkIfValidCall s args = .ok ()) :
    lo ≤ args.length ∧ args.length ≤ hi ∧ firstInvalid s.params args 0 = none := by
  unfold checkIfValidCall at h; simp only [ha] at h
  by_cases h1 : args.length < lo
  · simp [h1] at h
  · by_cases h2 : args.length > hi
    · simp [h1, h2] at h
    · refine ⟨by omega, by omega, ?_⟩
      simp [h1, h2] at h
      cases hf : firstInvalid s.params args 0 with
      | none => rfl
      | some i => simp [hf] at h

theorem check_variadic {s : NativeSig} {args : List VKind} {n : Nat} (ha : s.arity = .variadic n)
    (h : checkIfValidCall s args = .ok ()) :
    n ≤ args.length ∧ ∃ vt, s.params[n]? = some vt ∧
      (n ≠ 0 → firstInvalid (s.params.take n) (args.take n) 0 = none) ∧
      firstInvalidRest vt (args.drop n) n = none := by
  unfold checkIfValidCall at h; simp only [ha] at h
  by_cases h1 : args.length < n
  · simp [h1] at h
  · refine ⟨by omega, ?_⟩
    simp [h1] at h
    cases hp : s.params[n]? with
    | none => simp [hp] at h
    | some vt =>
      refine ⟨vt, rfl, ?_⟩
      simp only [hp] at h
      by_cases hn : n = 0
      · subst hn
        simp at h
        refine ⟨by simp, ?_⟩
        cases hf : firstInvalidRest vt args 0 with
        | none => simpa using hf
        | some i => simp [hf] at h
      · simp [hn] at h
        cases hf1 : firstInvalid (List.take n s.params) (List.take n args) 0 with
        | some i => simp [hf1] at h
        | none =>
          simp [hf1] at h
          refine ⟨fun _ => rfl, ?_⟩
          cases hf : firstInvalidRest vt (List.drop n args) n with
          | none => rfl
          | some i => simp [hf] at h

/-- **C16_sigcheck_sound** — if `check_if_valid_call` accepts an argument list for a signature built by
    `to_sig`/`to_method_sig`, every argument has a kind its guarding parameter allows (all arities,
    default and variadic included, all argument lists). -/
theorem C16_sigcheck_sound (s : NativeSig) (args : List VKind) (hwf : s.wellFormed = true)
    (h : accepts s args = true) :
    ∀ (i : Nat) (a : VKind), args[i]? = some a → ∃ p, s.paramAt i = some p ∧ p.isValid a = true := by
  have h' := accepts_iff.mp h
  intro i a hia
  have hi : i < args.length := by
    rcases Nat.lt_or_ge i args.length with hlt | hge
    · exact hlt
    · simp [List.getElem?_eq_none hge] at hia
  unfold NativeSig.wellFormed at hwf
  cases ha : s.arity with
  | fixed n =>
    obtain ⟨hl, hf⟩ := check_fixed ha h'
    simp [ha, Arity.requiredParameter] at hwf
    have hin : i < n := by omega
    have hip : i < s.params.length := by omega
    refine ⟨s.params[i], ?_, ?_⟩
    · simp [NativeSig.paramAt, ha, hin, List.getElem?_eq_getElem hip]
    · exact firstInvalid_none hf i _ a (List.getElem?_eq_getElem hip) hia
  | «default» lo hi =>
    obtain ⟨_, hhi, hf⟩ := check_default ha h'
    simp [ha, Arity.requiredParameter] at hwf
    have hin : i < hi := by omega
    have hip : i < s.params.length := by omega
    refine ⟨s.params[i], ?_, ?_⟩
    · simp [NativeSig.paramAt, ha, hin, List.getElem?_eq_getElem hip]
    · exact firstInvalid_none hf i _ a (List.getElem?_eq_getElem hip) hia
  | variadic n =>
    obtain ⟨hl, vt, hvt, hf1, hf2⟩ := check_variadic ha h'
    simp [ha, Arity.requiredParameter] at hwf
    by_cases hin : i < n
    · have hip : i < s.params.length := by omega
      refine ⟨s.params[i], ?_, ?_⟩
      · simp [NativeSig.paramAt, ha, hin, List.getElem?_eq_getElem hip]
      · have hn : n ≠ 0 := by omega
        refine firstInvalid_none (hf1 hn) i _ a ?_ ?_
        · simp [hin, List.getElem?_eq_getElem hip]
        · simp [hin, hia]
    · refine ⟨vt, ?_, ?_⟩
      · simp [NativeSig.paramAt, ha, hin, hvt]
      · refine firstInvalidRest_none hf2 (i - n) a ?_
        have : n + (i - n) = i := by omega
        simp [List.getElem?_drop, this, hia]

/-! ## lifting the table check to all argument lists -/

theorem accepts_minArgs {s : NativeSig} {args : List VKind} (h : accepts s args = true) :
    s.arity.minArgs ≤ args.length := by
  have h' := accepts_iff.mp h
  cases ha : s.arity with
  | fixed n => have := (check_fixed ha h').1; simp [Arity.minArgs]; omega
  | «default» lo hi => have := (check_default ha h').1; simp [Arity.minArgs]; omega
  | variadic n => have := (check_variadic ha h').1; simp [Arity.minArgs]; omega

theorem covers_sound {p : PKind} {u : UKind} {a : VKind} (hc : p.covers u = true) (hv : p.isValid a = true) :
    u.holds a = true := by
  unfold PKind.covers at hc
  have := List.all_eq_true.mp hc a (VKind_all_complete a)
  simpa [hv] using this

/-- one index: the table obligation `kindOkAt` implies the unwrap survives on every accepted call -/
theorem kindOkAt_sound (r : NativeRow) (u : UKind) (args : List VKind) (hwf : r.sig.wellFormed = true)
    (hacc : accepts r.sig args = true)
    (hrecv : r.isMethod = true → ∀ a, args[0]? = some a → receiverOk r.owner a = true)
    (i : Nat) (a : VKind) (hia : args[i]? = some a) (hk : kindOkAt r u i = true) : u.holds a = true := by
  unfold kindOkAt at hk
  by_cases hr : (r.hasReceiver && i == 0) = true
  · simp only [hr, if_true] at hk
    simp only [NativeRow.hasReceiver, Bool.and_eq_true, beq_iff_eq] at hr
    obtain ⟨hm, hi0⟩ := hr
    subst hi0
    have hro := hrecv hm a hia
    unfold receiverOk at hro
    have hmem : a ∈ recvKinds r.owner := by simpa using hro
    exact List.all_eq_true.mp hk a hmem
  · simp only [hr] at hk
    obtain ⟨p, hp, hv⟩ := C16_sigcheck_sound r.sig args hwf hacc i a hia
    simp only [hp] at hk
    exact covers_sound (by simpa using hk) hv

theorem sig_variadic_method {r : NativeRow} {n : Nat} (ha : r.sig.arity = .variadic n)
    (hm : r.hasReceiver = true) : n ≠ 0 := by
  unfold NativeRow.sig NativeSig.build at ha
  simp only [NativeRow.hasReceiver] at hm
  simp only [hm, if_true] at ha
  cases hra : r.arity with
  | fixed k => simp [hra, Arity.methodArity] at ha
  | «default» a b => simp [hra, Arity.methodArity] at ha
  | variadic k => simp [hra, Arity.methodArity] at ha; omega

/-- in the variadic tail every index is guarded by the same (last) parameter -/
theorem kindOkAt_tail (r : NativeRow) (u : UKind) {n : Nat} (ha : r.sig.arity = .variadic n)
    {i : Nat} (hi : n ≤ i) : kindOkAt r u i = kindOkAt r u n ∨ (r.hasReceiver = true ∧ n = 0) := by
  by_cases hm : r.hasReceiver = true
  · have hn := sig_variadic_method ha hm
    left
    have hi0 : i ≠ 0 := by omega
    unfold kindOkAt
    simp [hm, hi0, hn, NativeSig.paramAt, ha, Nat.not_lt.mpr hi]
  · left
    unfold kindOkAt
    simp [hm, NativeSig.paramAt, ha, Nat.not_lt.mpr hi]

/-- **C16_unwraps_safe** — the lifted form of the table lemma: on a healthy row, for *every* argument
    list `check_if_valid_call` accepts (receiver inside the envelope E16 for methods), every site of the
    body indexes inside the slice and unwraps a value of the kind it assumes. -/
theorem C16_unwraps_safe (r : NativeRow) (hok : r.ok = true) (args : List VKind)
    (hacc : accepts r.sig args = true)
    (hrecv : r.isMethod = true → ∀ a, args[0]? = some a → receiverOk r.owner a = true)
    (s : Site) (hs : s ∈ r.sites) (hlen : s.minLen ≤ args.length) :
    (s.rest = false → ∃ a, args[s.idx]? = some a ∧ (s.guarded = false → s.kind.holds a = true)) ∧
    (s.rest = true → s.idx ≤ args.length ∧
        ∀ (i : Nat) (a : VKind), s.idx ≤ i → args[i]? = some a → s.guarded = false → s.kind.holds a = true) := by
  unfold NativeRow.ok at hok
  simp only [Bool.and_eq_true, List.all_eq_true] at hok
  obtain ⟨⟨_, hwf⟩, hsites⟩ := hok
  have hso := hsites s hs
  unfold Site.ok at hso
  simp only [Bool.and_eq_true] at hso
  obtain ⟨hb, hk⟩ := hso
  have hmin := accepts_minArgs hacc
  have hmax : Nat.max r.sig.arity.minArgs s.minLen ≤ args.length := Nat.max_le.mpr ⟨hmin, hlen⟩
  unfold Site.boundsOk at hb
  unfold Site.kindOk at hk
  constructor
  · intro hrest
    simp only [hrest] at hb hk
    have hidx : s.idx < args.length := by
      have : s.idx < Nat.max r.sig.arity.minArgs s.minLen := by simpa using hb
      omega
    refine ⟨args[s.idx], List.getElem?_eq_getElem hidx, ?_⟩
    intro hg
    simp only [hg, Bool.false_or, Bool.or_eq_true, beq_iff_eq] at hk
    rcases hk with hany | hk
    · rw [hany]; rfl
    · exact kindOkAt_sound r s.kind args hwf hacc hrecv s.idx _ (List.getElem?_eq_getElem hidx) (by simpa using hk)
  · intro hrest
    simp only [hrest] at hb hk
    constructor
    · have : s.idx ≤ Nat.max r.sig.arity.minArgs s.minLen := by simpa using hb
      omega
    · intro i a hi hia hg
      simp only [hg, Bool.false_or, Bool.or_eq_true, beq_iff_eq] at hk
      rcases hk with hany | hk
      · rw [hany]; rfl
      · simp only [if_true, Bool.and_eq_true, List.all_eq_true, List.mem_range, Bool.or_eq_true, decide_eq_true_eq] at hk
        obtain ⟨hk, hktail⟩ := hk
        have hilt : i < args.length := by
          rcases Nat.lt_or_ge i args.length with hlt | hge
          · exact hlt
          · simp [List.getElem?_eq_none hge] at hia
        have h' := accepts_iff.mp hacc
        have hwf' := hwf
        unfold NativeSig.wellFormed at hwf'
        have key : kindOkAt r s.kind i = true := by
          cases ha : r.sig.arity with
          | fixed n =>
            have hl := (check_fixed ha h').1
            simp [ha, Arity.requiredParameter] at hwf'
            rcases hk i (by omega) with h1 | h1
            · omega
            · exact h1
          | «default» lo hi' =>
            have hl := (check_default ha h').2.1
            simp [ha, Arity.requiredParameter] at hwf'
            rcases hk i (by omega) with h1 | h1
            · omega
            · exact h1
          | variadic n =>
            simp [ha, Arity.requiredParameter] at hwf'
            by_cases hin : i < n
            · rcases hk i (by omega) with h1 | h1
              · omega
              · exact h1
            · have hni : n ≤ i := by omega
              have hnm : n ≤ Nat.max s.idx r.sig.params.length := by
                have : r.sig.params.length ≤ Nat.max s.idx r.sig.params.length := Nat.le_max_right _ _
                omega
              rcases kindOkAt_tail r s.kind ha hni with heq | ⟨hm, hn0⟩
              · rcases kindOkAt_tail r s.kind ha hnm with heq' | ⟨hm, hn0⟩
                · rw [heq, ← heq']; exact hktail
                · exact absurd hn0 (sig_variadic_method ha hm)
              · exact absurd hn0 (sig_variadic_method ha hm)
        exact kindOkAt_sound r s.kind args hwf hacc hrecv i a hia key

/-- the hand-written `is_valid` equals the predicate read off the regenerated `match` arms -/
theorem C16_isValid_eq_gen (p : PKind) (v : VKind) : genIsValid p v = p.isValid v :=
  C16_isValid_eq_gen_aux p (PKind_all_complete p) v (VKind_all_complete v)

/-! ## the table of natives -/

/-- **C16_signatures_cover_unwraps** — every native is classified, has a well-formed signature, and each site of its
    body is justified (bounds by the arity or a length guard, kind by the declared parameter / receiver convention / a
    dominating `is_*` test).  No exceptions: a new mismatching native, a loosened parameter kind or an unclassifiable
    body breaks this lemma. -/
theorem C16_signatures_cover_unwraps : ∀ r ∈ natives, r.ok = true := by decide +kernel

/-- struct names identify rows -/
theorem C16_native_structs_distinct : (natives.map (·.struct)).Nodup := by decide +kernel

/-- no body was left unclassified by the scan -/
theorem C16_all_classified : ∀ r ∈ natives, r.unclassified = "" := by decide +kernel

/-- every registered signature satisfies the `assert_eq!` of `to_sig` / `to_method_sig` -/
theorem C16_signatures_wellFormed : ∀ r ∈ natives, r.sig.wellFormed = true := by decide +kernel

/-- **C16_natives_safe** — table lemma and lifting combined: for every native, every argument list the signature
    check accepts (receiver inside E16), every unguarded site is in bounds and unwraps a value of the assumed kind. -/
theorem C16_natives_safe (r : NativeRow) (hr : r ∈ natives)
    (args : List VKind) (hacc : accepts r.sig args = true)
    (hrecv : r.isMethod = true → ∀ a, args[0]? = some a → receiverOk r.owner a = true)
    (s : Site) (hs : s ∈ r.sites) (hlen : s.minLen ≤ args.length) :
    (s.rest = false → ∃ a, args[s.idx]? = some a ∧ (s.guarded = false → s.kind.holds a = true)) ∧
    (s.rest = true → s.idx ≤ args.length ∧
        ∀ (i : Nat) (a : VKind), s.idx ≤ i → args[i]? = some a → s.guarded = false → s.kind.holds a = true) :=
  C16_unwraps_safe r (C16_signatures_cover_unwraps r hr) args hacc hrecv s hs hlen

/-- **C16_result_unwraps_none** — nowhere in laythe_lib, nor in `op_interpolate`, is the result of a user callback
    (`hooks.call`, `hooks.call_method`, a `str()` result on the VM stack) unwrapped without a test -/
theorem C16_result_unwraps_none : resultUnwraps = [] := by decide

/-- **C16_field_unwraps_none** — nowhere in laythe_lib or in the VM is an assignable instance field unwrapped without a test
    of its kind, neither directly (`instance[0].to_obj().to_str()`) nor through a name the field was bound to
    (`Fiber::print_error` writes the message of an uncaught error with `Display`: DC16.4 repaired; `get_regex!` tests the
    pattern field before it unwraps it: DC16.5 repaired) -/
theorem C16_field_unwraps_none : fieldUnwraps = [] := by decide

/-- the unwraps of an instance field that exist sit behind a test of the same kind: the RegExp pattern (so the theorem
    above is not true for want of field reads) -/
theorem C16_field_unwraps_guarded :
    guardedFieldUnwraps = [
      ("laythe_lib/src/regexp/class.rs", "macro get_regex!", "instance[0]", .ok .string)] := by decide

/-- **C16_stackless_callbacks_listed** — natives with `NativeEnvironment::StackLess` (no stub frame) whose body can run
    user code are exactly these.  An error raised in such a callback is unwound with no frame between the callback and
    the native's caller; `Fiber::stack_unwind` accepts only handlers *above* the frame count recorded when the native
    called back, so a `try` of the caller is reached after the native has returned the error (the streams call every
    native from an activation with an active `try`).  The `for … in` instruction over a lazy iterator
    (`op_iter_next`) has the same shape. -/
theorem C16_stackless_callbacks_listed :
    (natives.filter fun r => !r.stack && r.callsBack).map (·.struct) =
      ["IterNext", "IterFirst", "IterLast", "IterLen", "IterToList", "ListCollect", "MethodName", "TupleCollect"] := by
  decide +kernel

/-! ### witness of the open finding outside the envelope E16 (model level; the program is under `known_findings/`) -/

/-- D11 (`class A : List {}; A().push(1)`): an instance reaches `List.push` through inheritance, outside the
    envelope E16, and the body casts the receiver to a list. -/
theorem C16_witness_builtin_subclass :
    ∃ r ∈ natives, r.struct = "ListPush" ∧ receiverOk r.owner (.obj .instance_) = false ∧
      accepts r.sig [.obj .instance_, .number] = true ∧
      ∃ s ∈ r.sites, s.idx = 0 ∧ s.kind.holds (.obj .instance_) = false := by decide +kernel

/-! ## call depth -/

/-- the text of the guards: `>=` against `MAX_FRAME_SIZE` in front of the one `push_frame` of `call_native` (arm
    `NativeEnvironment::Normal`), `call_closure` and `call`; no other function of the VM pushes a frame
    (`vm/basic.rs:push_frame` is the wrapper the three call) -/
theorem C16_frame_guard_text :
    Limits.frameGuards = [("call_native", ">=", "MAX_FRAME_SIZE"), ("call_closure", ">=", "MAX_FRAME_SIZE"),
      ("call", ">=", "MAX_FRAME_SIZE")] ∧
    Limits.nativeStubPush = (1, true) ∧
    Limits.pushFrameSites = ["vm/basic.rs:push_frame", "vm/ops.rs:call_native", "vm/ops.rs:call_closure", "vm/ops.rs:call"] := by
  decide

/-- the model's guard is the comparison of the text -/
theorem guardTrips_iff (n : Nat) : guardTrips n = true ↔ n ≥ Limits.maxFrameSize := by
  simp [guardTrips]

/-- **C16_stack_overflow_at_limit** — at (or above) the limit a Laythe call *and* the entry of a stack-using native raise
    the (catchable) error and push nothing -/
theorem C16_stack_overflow_at_limit (s : FrameState) (h : s.frames ≥ Limits.maxFrameSize) :
    frameStep s .callLaythe = some (s, .stackOverflow) ∧ frameStep s .nativeEnter = some (s, .stackOverflow) := by
  have hg : guardTrips s.frames = true := (guardTrips_iff _).mpr h
  simp [frameStep, hg]

/-- below the limit both are admitted and push exactly one frame -/
theorem C16_call_below_limit (s : FrameState) (h : s.frames < Limits.maxFrameSize) :
    frameStep s .callLaythe = some ({ frames := s.frames + 1 }, .ok) ∧
    frameStep s .nativeEnter = some ({ frames := s.frames + 1 }, .ok) := by
  have hg : guardTrips s.frames = false := by
    cases hgt : guardTrips s.frames with
    | false => rfl
    | true => have := (guardTrips_iff _).mp hgt; omega
  simp [frameStep, hg]

/-- one step never takes the frame count above `max (frames before) MAX_FRAME_SIZE` -/
theorem frameStep_bound (s s' : FrameState) (op : FrameOp) (r : FrameResult) (b : Nat)
    (hb : Limits.maxFrameSize ≤ b) (h0 : s.frames ≤ b) (h : frameStep s op = some (s', r)) : s'.frames ≤ b := by
  cases op with
  | callLaythe =>
    simp only [frameStep] at h
    by_cases hg : guardTrips s.frames = true
    · simp [hg] at h; obtain ⟨h1, _⟩ := h; subst h1; exact h0
    · simp [hg] at h; obtain ⟨h1, _⟩ := h; subst h1
      have : ¬ s.frames ≥ Limits.maxFrameSize := fun hh => hg ((guardTrips_iff _).mpr hh)
      simp; omega
  | nativeEnter =>
    simp only [frameStep] at h
    by_cases hg : guardTrips s.frames = true
    · simp [hg] at h; obtain ⟨h1, _⟩ := h; subst h1; exact h0
    · simp [hg] at h; obtain ⟨h1, _⟩ := h; subst h1
      have : ¬ s.frames ≥ Limits.maxFrameSize := fun hh => hg ((guardTrips_iff _).mpr hh)
      simp; omega
  | nativeLeave =>
    simp only [frameStep] at h
    by_cases hz : s.frames = 0
    · simp [hz] at h
    · simp [hz] at h; obtain ⟨h1, _⟩ := h; subst h1; simp; omega
  | ret =>
    simp only [frameStep] at h
    by_cases hz : s.frames = 0
    · simp [hz] at h
    · simp [hz] at h; obtain ⟨h1, _⟩ := h; subst h1; simp; omega

/-- **C16_frame_limit_from_any_state** — for every sequence of calls, returns and native entries/exits from *any* state,
    every state on the way has at most `max (frames at the start) MAX_FRAME_SIZE` frames: no sequence steps over the guard. -/
theorem C16_frame_limit_from_any_state (ops : List FrameOp) :
    ∀ (s : FrameState) (b : Nat), Limits.maxFrameSize ≤ b → s.frames ≤ b →
      ∀ t ∈ frameTrace s ops, t.frames ≤ b := by
  induction ops with
  | nil => intro s b _ h0 t ht; simp [frameTrace] at ht; subst ht; exact h0
  | cons op ops ih =>
    intro s b hb h0 t ht
    simp only [frameTrace, List.mem_cons] at ht
    rcases ht with ht | ht
    · subst ht; exact h0
    · cases hstep : frameStep s op with
      | none => simp [hstep] at ht
      | some p =>
        obtain ⟨s', r⟩ := p
        simp only [hstep] at ht
        exact ih s' b hb (frameStep_bound s s' op r b hb h0 hstep) t ht

/-- **C16_frame_limit_always** — the property at full strength: a fiber that starts with at most `MAX_FRAME_SIZE` frames
    (a new fiber has one) never has more than `MAX_FRAME_SIZE` frames, at any point of any sequence of Laythe calls,
    entries and exits of stack-using natives and returns.  No envelope. -/
theorem C16_frame_limit_always (ops : List FrameOp) (s : FrameState) (h0 : s.frames ≤ Limits.maxFrameSize) :
    ∀ t ∈ frameTrace s ops, t.frames ≤ Limits.maxFrameSize :=
  C16_frame_limit_from_any_state ops s Limits.maxFrameSize (Nat.le_refl _) h0

/-- the final state of a completed run is on the trace -/
theorem frameRun_mem_trace (ops : List FrameOp) : ∀ (s s' : FrameState), frameRun s ops = some s' → s' ∈ frameTrace s ops := by
  induction ops with
  | nil => intro s s' h; simp [frameRun] at h; subst h; simp [frameTrace]
  | cons op ops ih =>
    intro s s' h
    simp only [frameRun] at h
    cases hstep : frameStep s op with
    | none => simp [hstep] at h
    | some p =>
      obtain ⟨s1, r⟩ := p
      simp only [hstep] at h
      simp only [frameTrace, hstep, List.mem_cons]
      exact Or.inr (ih s1 s' h)

/-- **C16_frame_limit** — the end-state form (the former `C16_frame_limit_partial` without its envelope `noNativeAtLimit`) -/
theorem C16_frame_limit (ops : List FrameOp) (s s' : FrameState) (h0 : s.frames ≤ Limits.maxFrameSize)
    (hr : frameRun s ops = some s') : s'.frames ≤ Limits.maxFrameSize :=
  C16_frame_limit_always ops s h0 s' (frameRun_mem_trace ops s s' hr)

/-- the sequence that stepped over the old `==` guard (a stack-using native entered at exactly the limit, then Laythe
    calls: `known_findings` DC16.1, now `corpus/C16`) stays at the limit: every further call raises `Stack overflow.` -/
theorem C16_native_at_limit_then_calls (n : Nat) :
    frameRun { frames := Limits.maxFrameSize } (.nativeEnter :: List.replicate n .callLaythe)
      = some { frames := Limits.maxFrameSize } := by
  have hg : guardTrips Limits.maxFrameSize = true := (guardTrips_iff _).mpr (Nat.le_refl _)
  simp only [frameRun, frameStep, hg, if_true]
  induction n with
  | zero => simp [frameRun]
  | succ n ih => simp only [List.replicate_succ, frameRun, frameStep, hg, if_true]; exact ih

/-! ## the hooks and the signal of the call they resolve (DC16.10) -/

/-- the text: the three places outside the interpreter loop that match on `resolve_call`.  `run_fun` / `run_method` resolve a
    callable handed in by a native (any callable of the program); `runtime_error` resolves one of the VM's own error
    classes, whose initialiser is the native `Error.init` (it never exits): its match has no `Exit` arm. -/
theorem C16_resolve_call_matches_text :
    Limits.resolveCallMatches.map (fun m => (m.1, m.2.1, m.2.2.1)) = [
      ("vm/error.rs:runtime_error", "val!(error)", ["Ok", "OkReturn", "RuntimeError"]),
      ("vm/hooks.rs:run_fun", "callable", ["Ok", "OkReturn", "RuntimeError", "Exit"]),
      ("vm/hooks.rs:run_method", "method", ["Ok", "OkReturn", "RuntimeError", "Exit"])] ∧
    Limits.toCallResultPanics = ["CompileError"] := by decide

/-- the model's `hookStep` is the match of the text: a signal has an arm of its own in `run_fun` and in `run_method` iff the
    model does not answer `internalError` -/
theorem C16_hookStep_eq_gen : ∀ m ∈ Limits.resolveCallMatches, m.1 = "vm/hooks.rs:run_fun" ∨ m.1 = "vm/hooks.rs:run_method" →
    ∀ s ∈ Signal.all, (m.2.2.1.contains s.name) = (hookStep s != .internalError) := by decide

theorem Signal_all_complete (s : Signal) : s ∈ Signal.all := by cases s <;> decide

/-- every signal named in the text of a function behind `resolve_call` is one of the model's `resolvedCallSignals` -/
theorem C16_call_family_signals : ∀ f ∈ Limits.callFamily, ∀ n ∈ f.2, ∃ s ∈ resolvedCallSignals, s.name = n := by decide

/-- the functions behind `resolve_call` (an added function that answers a signal re-opens this) -/
theorem C16_call_family_text :
    Limits.callFamily.map (·.1) = ["call", "call_class", "call_closure", "call_method", "call_native", "check_arity",
      "check_native_arity", "resolve_call", "runtime_error", "runtime_error_from_str", "set_error", "set_exit"] := by decide

/-- **C16_hook_signals_handled** — table form: `run_fun` and `run_method` have an arm of their own for every signal the text
    of the functions behind `resolve_call` names (before the repair of DC16.10: `Exit`, answered by `call_native` through
    `set_exit`, fell into the `_` arm: `Unexpected signal in run_fun.`) -/
theorem C16_hook_signals_handled : ∀ m ∈ Limits.resolveCallMatches, m.1 = "vm/hooks.rs:run_fun" ∨ m.1 = "vm/hooks.rs:run_method" →
    ∀ f ∈ Limits.callFamily, ∀ n ∈ f.2, n ∈ m.2.2.1 := by decide

/-- **C16_hook_never_panics_on_resolved_call** — model form: whatever signal a resolved call comes back with, the hook does
    not reach `internal_error` -/
theorem C16_hook_never_panics_on_resolved_call (s : Signal) (h : s ∈ resolvedCallSignals) : hookStep s ≠ .internalError := by
  cases s <;> simp [resolvedCallSignals] at h <;> simp [hookStep]

/-- and the exit of a directly called native is handed on as an exit -/
example : hookStep .exit = .exit ∧ hookStep .contextSwitch = .internalError := by decide

/-- **C16_no_std_sort_in_natives** — no native sorts with a sorting routine of the Rust standard library: those panic
    (`user-provided comparison function does not correctly implement a total order`) when they notice an inconsistent
    comparator, and the only order Laythe values have is the program's comparator (`List.sort` runs the stable merge sort
    written out in list.rs: DC16.15 repaired) -/
theorem C16_no_std_sort_in_natives : Limits.libStdSorts = [] := by decide

/-! ## `Display` of a value: bounded native recursion (DC16.11) -/

/-- the text: the bound, the test of `fmt_nested`, and which `Display` impls behind `ObjectRef`'s `Display` write another value
    (third component) through `fmt_nested` (fourth).  The two that write one outside it cannot nest: a `LyBox` (the cell of a
    captured variable) is not a first-class value and never holds a box, a `Closure` writes its `Fun`, whose `Display` is flat. -/
theorem C16_display_bound_text :
    Limits.displayMaxDepth = 64 ∧
    Limits.displayGuard = "displaying.len() >= DISPLAY_MAX_DEPTH || displaying.contains(&address)" ∧
    (Limits.displayImpls.filter (fun r => r.2.2.1)).map (fun r => (r.1, r.2.2.2)) =
      [("List", true), ("Map", true), ("LyBox", false), ("Closure", false), ("Method", true), ("Tuple", true)] := by decide

theorem displayRefuses_of_full (displaying : List Nat) (a : Nat) (h : displaying.length ≥ Limits.displayMaxDepth) :
    displayRefuses displaying a = true := by
  simp [displayRefuses, h]

/-- folding `max` over the children keeps a bound that holds for the start value and for every child -/
theorem displayFold_bound (f : Nat → Option Nat) (b : Nat) (hf : ∀ c d, f c = some d → d ≤ b) :
    ∀ (cs : List Nat) (init : Option Nat) (r : Nat), (∀ m, init = some m → m ≤ b) →
      cs.foldl (fun acc c => match acc, f c with
                             | some m, some d => some (max m d)
                             | _, _ => none) init = some r → r ≤ b := by
  intro cs
  induction cs with
  | nil => intro init r hi h; simp at h; exact hi r h
  | cons c cs ih =>
    intro init r hi h
    simp only [List.foldl_cons] at h
    refine ih _ r ?_ h
    intro m hm
    cases hinit : init with
    | none => simp [hinit] at hm
    | some m0 =>
      cases hc : f c with
      | none => simp [hinit, hc] at hm
      | some d =>
        simp [hinit, hc] at hm
        have h1 := hi m0 hinit
        have h2 := hf c d hc
        omega

/-- **C16_display_depth_bounded** — on every object graph (cycles, any depth), from any set of objects in progress that
    respects the bound, the nesting of `fmt_nested` activations never exceeds `DISPLAY_MAX_DEPTH` -/
theorem C16_display_depth_bounded (g : DisplayGraph) : ∀ (fuel : Nat) (displaying : List Nat) (a d : Nat),
    displaying.length ≤ Limits.displayMaxDepth → displayDepth g fuel displaying a = some d → d ≤ Limits.displayMaxDepth := by
  intro fuel
  induction fuel with
  | zero => intro displaying a d _ h; simp [displayDepth] at h
  | succ fuel ih =>
    intro displaying a d hlen h
    simp only [displayDepth] at h
    by_cases hr : displayRefuses displaying a = true
    · simp [hr] at h; omega
    · simp only [hr] at h
      have hlt : displaying.length < Limits.displayMaxDepth := by
        rcases Nat.lt_or_ge displaying.length Limits.displayMaxDepth with hlt | hge
        · exact hlt
        · exact absurd (displayRefuses_of_full displaying a hge) hr
      refine displayFold_bound (fun c => displayDepth g fuel (a :: displaying) c) Limits.displayMaxDepth ?_ (g a) _ d ?_ h
      · intro c d' hd'
        exact ih (a :: displaying) c d' (by simp; omega) hd'
      · intro m hm; simp at hm; omega

theorem displayFold_some (f : Nat → Option Nat) (hf : ∀ c, (f c).isSome = true) :
    ∀ (cs : List Nat) (init : Option Nat), init.isSome = true →
      (cs.foldl (fun acc c => match acc, f c with
                              | some m, some d => some (max m d)
                              | _, _ => none) init).isSome = true := by
  intro cs
  induction cs with
  | nil => intro init hi; simpa using hi
  | cons c cs ih =>
    intro init hi
    simp only [List.foldl_cons]
    apply ih
    cases hinit : init with
    | none => simp [hinit] at hi
    | some m0 =>
      cases hc : f c with
      | none => have := hf c; simp [hc] at this
      | some d => simp

/-- **C16_display_terminates** — `Display` needs no more nesting than the bound allows on any graph: with
    `DISPLAY_MAX_DEPTH - (objects in progress) + 1` levels of recursion the model never runs out of fuel (the fuel is a device
    of the model; the Rust recursion stops because every level adds an object in progress) -/
theorem C16_display_terminates (g : DisplayGraph) : ∀ (fuel : Nat) (displaying : List Nat) (a : Nat),
    Limits.displayMaxDepth - displaying.length < fuel → (displayDepth g fuel displaying a).isSome = true := by
  intro fuel
  induction fuel with
  | zero => intro displaying a h; omega
  | succ fuel ih =>
    intro displaying a h
    simp only [displayDepth]
    by_cases hr : displayRefuses displaying a = true
    · simp [hr]
    · simp only [hr]
      have hlt : displaying.length < Limits.displayMaxDepth := by
        rcases Nat.lt_or_ge displaying.length Limits.displayMaxDepth with hlt | hge
        · exact hlt
        · exact absurd (displayRefuses_of_full displaying a hge) hr
      apply displayFold_some
      · intro c
        apply ih
        simp; omega
      · simp

/-- a list that contains itself twice is written once, one level deep; a chain of 100 lists is cut at the bound -/
example : displayDepth (fun _ => [0, 0]) 65 [] 0 = some 1 ∧ displayText (fun _ => [0, 0]) 65 [] 0 = "[[...], [...]]" := by decide
example : displayDepth (fun n => if n < 100 then [n + 1] else []) 65 [] 0 = some 64 := by decide +kernel
example : displayDepth (fun n => if n < 10 then [n + 1] else []) 65 [] 0 = some 11 ∧
    displayText (fun n => if n < 2 then [n + 1, n + 1] else []) 65 [] 0 = "[[[], []], [[], []]]" := by decide

/-! ## non-callables -/

/-- **C16_noncallable** — `resolve_call` on every value kind either dispatches (closure, method, native, class,
    fun) or raises `… is not callable.` -/
theorem C16_noncallable (v : VKind) :
    resolveCall v = .notCallable ↔
      v ∉ [VKind.obj .closure, .obj .method, .obj .native, .obj .class_, .obj .fun_] := by
  cases v with
  | obj k => cases k <;> decide
  | _ => decide

/-- the dispatch table is the regenerated one -/
theorem C16_resolveCall_eq_gen (v : VKind) : genResolveCall v = (resolveCall v).handler :=
  (by decide : ∀ v ∈ VKind.all, genResolveCall v = (resolveCall v).handler) v (VKind_all_complete v)

/-! ## fiber stack sizing -/

/-- `Fiber::new` / `Fiber::split` copy the initial `stack_count` slots from `&vec![VALUE_UNDEFINED; stack_count]`: the
    slice is built for the requested count (the fixed 255-element `UNDEFINED_ARRAY` of D10 is gone) -/
theorem C16_fiber_init_text :
    Limits.fiberInitStack = [("new", "&vec![VALUE_UNDEFINED; stack_count]", "stack_count"),
      ("split", "&vec![VALUE_UNDEFINED; stack_count]", "stack_count")] := by decide

/-- model of that construction: the slice handed to `VecBuilder::new(slice, cap)` -/
def fiberInitSlice (stackCount : Nat) : List VKind := List.replicate stackCount .undefined

/-- `VecBuilder::new(slice, cap)` asserts `slice.len() <= cap` and copies `slice.len()` slots -/
def fiberInitOk (stackCount : Nat) : Bool := (fiberInitSlice stackCount).length == stackCount

/-- **C16_fiber_init_any_size** — for every requested slot count the slice has exactly that length: no slot count (a
    300-element literal at module level needs 302) can index out of the source of the initial stack -/
theorem C16_fiber_init_any_size (stackCount : Nat) : fiberInitOk stackCount = true := by
  simp [fiberInitOk, fiberInitSlice]

/-! ## channel capacity -/

/-- the tests of `op_buffered_channel` in front of the allocation, and the bound (DC16.3 repaired: there was no upper test) -/
theorem C16_chan_capacity_text :
    Limits.chanCapacityTests = [("!capacity.is_num()", "type_"), ("capacity.fract() != 0.0 || capacity < 1.0", "type_"),
      ("capacity > MAX_CHANNEL_CAPACITY as f64", "value")] ∧
    Limits.maxChannelCapacity = 2 ^ 24 := by decide

/-- **C16_chan_capacity_bounded** — whatever is handed to `chan(…)`, a buffer is only ever allocated for a capacity between
    1 and `MAX_CHANNEL_CAPACITY`; everything else is a language error -/
theorem C16_chan_capacity_bounded (a : ChanArg) (n : Nat) (h : chanCapacity a = .ok n) :
    1 ≤ n ∧ n ≤ Limits.maxChannelCapacity ∧ a = .positive n := by
  cases a with
  | notNumber => simp [chanCapacity] at h
  | notIntegral => simp [chanCapacity] at h
  | belowOne => simp [chanCapacity] at h
  | positive k =>
    simp only [chanCapacity] at h
    by_cases h0 : k = 0
    · simp [h0] at h
    · by_cases h1 : k > Limits.maxChannelCapacity
      · simp [h0, h1] at h
      · simp [h0, h1] at h; subst h; exact ⟨by omega, by omega, rfl⟩

example : (chanCapacity (.positive 65536)).toOption = some 65536 ∧ (chanCapacity (.positive 16777217)).toOption = none ∧
    (chanCapacity (.positive 16777216)).toOption = some 16777216 ∧ (chanCapacity (.positive 0)).toOption = none := by decide

/-! ## the skeletons the model mirrors (an edit to the Rust text re-opens these) -/

theorem C16_arity_check_text :
    SigTable.arityCheck = [
      ("Fixed", ["arity"], ["if arg_count != arity => Err"]),
      ("Variadic", ["arity"], ["if arg_count < arity => Err"]),
      ("Default", ["min_arity", "max_arity"], ["if arg_count < min_arity => Err", "if arg_count > max_arity => Err"])] := by
  decide

theorem C16_check_if_valid_call_text :
    SigTable.checkIfValidCall = [
      ("Fixed", ["arity"], ["if args_count != arity as usize => Err",
        "for args.iter().zip(parameters.iter()) => Err unless is_valid"]),
      ("Variadic", ["arity"], ["if args_count < arity as usize => Err", "if arity != 0 {",
        "for args.iter().zip(parameters.iter()).take(arity as usize) => Err unless is_valid",
        "for args[arity as usize..].iter() => Err unless is_valid"]),
      ("Default", ["min_arity", "max_arity"], ["if args_count < min_arity as usize => Err",
        "if args_count > max_arity as usize => Err",
        "for args.iter().zip(parameters.iter()) => Err unless is_valid"])] := by
  decide

theorem C16_method_convention_text :
    SigTable.methodSelfKind = "Object" ∧
    SigTable.methodArity = ["Arity::Fixed(i) => Arity::Fixed(i + 1)", "Arity::Variadic(i) => Arity::Variadic(i + 1)",
      "Arity::Default(required, total) => Arity::Default(required + 1, total + 1)"] ∧
    SigTable.requiredParameter = ["Self::Fixed(i) => i as usize", "Self::Variadic(i) => i as usize + 1",
      "Self::Default(_, i) => i as usize"] := by decide

/-- the enum shapes the model's `VKind` / `PKind` assume -/
theorem C16_enum_text :
    SigTable.parameterKinds = PKind.all.map (·.name) ∧ SigTable.objectKinds = ObjKind.all.map (·.name) ∧
    SigTable.valueKinds = ["Bool", "Nil", "Undefined", "Number", "Obj"] := by decide

/-- `Arity::check` in closed form -/
theorem C16_arity_check_spec (a : Arity) (n : Nat) :
    a.check n = .ok () ↔
      match a with
      | .fixed k => n = k
      | .variadic k => k ≤ n
      | .default lo hi => lo ≤ n ∧ n ≤ hi := by
  cases a with
  | fixed k => by_cases h : n = k <;> simp [Arity.check, h]
  | variadic k => by_cases h : n < k <;> simp [Arity.check, h] <;> omega
  | «default» lo hi =>
    by_cases h1 : n < lo
    · simp [Arity.check, h1] <;> omega
    · by_cases h2 : n > hi
      · simp [Arity.check, h1, h2] <;> omega
      · simp [Arity.check, h1, h2] <;> omega

/-- the length part of `check_if_valid_call` is `Arity::check` -/
theorem C16_accepts_arity (s : NativeSig) (args : List VKind) (h : accepts s args = true) :
    s.arity.check args.length = .ok () := by
  have h' := accepts_iff.mp h
  rw [C16_arity_check_spec]
  cases ha : s.arity with
  | fixed n => exact (check_fixed ha h').1
  | variadic n => exact (check_variadic ha h').1
  | «default» lo hi => exact ⟨(check_default ha h').1, (check_default ha h').2.1⟩

/-! ## non-vacuity -/

-- a healthy row with a non-trivial signature and several sites exists, and the lifted theorem applies to it
example : ∃ r ∈ natives, r.struct = "ListInsert" ∧ r.ok = true ∧ r.sites.length = 3 ∧
    accepts r.sig [.obj .list, .number, .nil] = true ∧ receiverOk r.owner (.obj .list) = true := by decide +kernel
-- the signature check rejects what it should: wrong kind, too few, too many
example : ∃ r ∈ natives, r.struct = "ListInsert" ∧
    checkOutcome r.sig [.obj .list, .obj .string, .nil] = some (.typeWrong 1) ∧
    checkOutcome r.sig [.obj .list, .number] = some (.lenFixed 3) := by decide +kernel
-- default arity: both bounds matter
example : checkOutcome (NativeSig.build true (.default 0 2) [.number, .number]) [.obj .list, .number, .number, .number]
    = some (.lenDefaultHigh 3) := by decide
example : accepts (NativeSig.build true (.default 0 2) [.number, .number]) [.obj .list, .number] = true := by decide
-- variadic: the tail is checked against the last parameter
example : checkOutcome (NativeSig.build false (.variadic 1) [.number, .number]) [.number, .number, .obj .string]
    = some (.typeWrong 2) := by decide
-- a run that reaches the limit through a native stub frame, is refused a Laythe call and a native entry there, and unwinds
example : frameTrace { frames := 253 } [.callLaythe, .nativeEnter, .callLaythe, .nativeEnter, .nativeLeave, .ret, .callLaythe]
    = [⟨253⟩, ⟨254⟩, ⟨255⟩, ⟨255⟩, ⟨255⟩, ⟨254⟩, ⟨253⟩, ⟨254⟩] ∧
    frameStep { frames := 255 } .nativeEnter = some ({ frames := 255 }, .stackOverflow) := by decide
-- the repaired rows: the declared kind now rejects what the body cannot unwrap, and accepts what it can
example : ∃ r ∈ natives, r.struct = "ListCollect" ∧ checkOutcome r.sig [.number] = some (.typeWrong 0) ∧
    accepts r.sig [.obj .enumerator] = true := by decide +kernel
example : ∃ r ∈ natives, r.struct = "ObjectIsA" ∧ checkOutcome r.sig [.obj .instance_, .number] = some (.typeWrong 1) ∧
    accepts r.sig [.number, .obj .class_] = true := by decide +kernel
example : ∃ r ∈ natives, r.struct = "IterZip" ∧ checkOutcome r.sig [.obj .enumerator, .obj .enumerator, .obj .list] = some (.typeWrong 2) ∧
    accepts r.sig [.obj .enumerator] = true := by decide +kernel
-- `print()` is accepted and its only site ranges over the (possibly empty) slice
example : ∃ r ∈ natives, r.struct = "Print" ∧ accepts r.sig [] = true ∧ r.sites = [⟨0, true, .any, 0, false⟩] := by decide +kernel
-- a guarded site and a length-guarded site exist in the table
example : ∃ r ∈ natives, ∃ s ∈ r.sites, s.guarded = true := by decide +kernel
example : ∃ r ∈ natives, ∃ s ∈ r.sites, s.minLen = 3 ∧ s.idx = 2 := by decide +kernel

/-- the full property (not proved: panics and memory faults of the host are outside any model) -/
def C16_full : Prop :=
  ∀ (Program Outcome : Type) (accepted : Program → Prop) (run : Program → Outcome) (normal : Outcome → Prop),
    ∀ p, accepted p → normal (run p)

end LaytheVerif.C16
