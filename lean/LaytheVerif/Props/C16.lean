import LaytheVerif.Model.Signature
/-!
# C16 — No accepted program can crash the runtime  (DESIGN.md §5 C16)

*Spec.*  outcome ∈ {normal exit, exit code, reported deadlock, language error with traceback}.

What is proved here (the parts of the property a model can carry — host panics and memory faults are
runtime behaviour; the model predicts where they *cannot* happen):

* `C16_sigcheck_sound` — `check_if_valid_call` accepts only argument lists whose every argument has a kind its
  guarding parameter allows (fixed, default and variadic arities; all argument lists);
* `C16_signatures_cover_unwraps` — by `decide` over the **regenerated** table of all natives: outside the committed
  list `knownBadRows`, every site where a body indexes / unwraps `args[i]` is justified by the declared parameter
  (or, for the receiver of a method, by class dispatch — envelope E16 `receiverOk`);
  `C16_knownBadRows_fail` shows every listed row really fails (the list cannot hide a healthy row);
  `C16_unwraps_safe` lifts the table check to *all* accepted argument lists;
* `C16_result_unwraps_listed`, `C16_field_unwraps_listed` — the places where the result of a user callback / an
  assignable instance field is unwrapped unchecked are exactly the committed ones (D23 …);
* `C16_frame_limit_partial`, `C16_stack_overflow_at_limit` and the witness `C16_witness_frame_limit_bypass` (the
  guard is `==` and `call_native` pushes its stub frame unguarded: entering a stack-using native at exactly
  `MAX_FRAME_SIZE` frames switches the guard off for good — found by this model, reproduced on the binary);
* `C16_noncallable` — `resolve_call` dispatches on five object kinds and reports everything else as not callable;
* generated-table lemmas tying the model to the text of signature.rs / native.rs / ops.rs.

`C16_full` (stated, not proved): every accepted program ends in one of the four outcomes.
-/
namespace LaytheVerif.C16
open LaytheVerif.Gen LaytheVerif.Signature

/-! ## generated-table lemmas: the model mirrors the text -/

theorem C16_isValid_eq_gen_aux : ∀ p ∈ PKind.all, ∀ v ∈ VKind.all, genIsValid p v = p.isValid v := by decide

theorem PKind_all_complete (p : PKind) : p ∈ PKind.all := by cases p <;> decide
theorem ObjKind_all_complete (k : ObjKind) : k ∈ ObjKind.all := by cases k <;> decide
theorem VKind_all_complete (v : VKind) : v ∈ VKind.all := by
  cases v with
  | obj k => cases k <;> decide
  | _ => decide

theorem firstInvalid_none {ps : List PKind} {as : List VKind} {i : Nat}
    (h : firstInvalid ps as i = none) :
    ∀ (j : Nat) (p : PKind) (a : VKind), ps[j]? = some p → as[j]? = some a → p.isValid a = true := by
  induction ps generalizing as i with
  | nil => intro j p a hp; simp at hp
  | cons p0 ps ih =>
    cases as with
    | nil => intro j p a _ ha; simp at ha
    | cons a0 as =>
      simp only [firstInvalid] at h
      split at h
      · simp at h
      · rename_i hv
        intro j p a hp ha
        cases j with
        | zero =>
          simp at hp ha; subst hp; subst ha
          simpa using hv
        | succ j =>
          simp at hp ha
          exact ih h j p a hp ha

theorem firstInvalidRest_none {vt : PKind} {as : List VKind} {i : Nat}
    (h : firstInvalidRest vt as i = none) :
    ∀ (j : Nat) (a : VKind), as[j]? = some a → vt.isValid a = true := by
  induction as generalizing i with
  | nil => intro j a ha; simp at ha
  | cons a0 as ih =>
    simp only [firstInvalidRest] at h
    split at h
    · simp at h
    · rename_i hv
      intro j a ha
      cases j with
      | zero => simp at ha; subst ha; simpa using hv
      | succ j => simp at ha; exact ih h j a ha

theorem accepts_iff {s : NativeSig} {args : List VKind} :
    accepts s args = true ↔ checkIfValidCall s args = .ok () := by
  unfold accepts
  split
  · rename_i u hu; cases u; simp [hu]
  · rename_i e he; simp [he]

theorem check_fixed {s : NativeSig} {args : List VKind} {n : Nat} (ha : s.arity = .fixed n)
    (h : checkIfValidCall s args = .ok ()) :
    args.length = n ∧ firstInvalid s.params args 0 = none := by
  unfold checkIfValidCall at h; simp only [ha] at h
  by_cases hl : args.length = n
  · refine ⟨hl, ?_⟩
    simp [hl] at h
    cases hf : firstInvalid s.params args 0 with
    | none => rfl
    | some i => simp [hf] at h
  · simp [hl] at h

theorem check_default {s : NativeSig} {args : List VKind} {lo hi : Nat} (ha : s.arity = .default lo hi)
    (h : checkIfValidCall s args = .ok ()) :
    lo ≤ args.length ∧ args.length ≤ hi ∧ firstInvalid s.params args 0 = none := by
  unfold checkIfValidCall at h; simp only [ha] at h
  by_cases h1 : args.length < lo
  · simp [h1] at h
  · by_cases h2 : args.length > hi
    · simp [h1, h2] at h
    · refine ⟨by omega, by omega, ?_⟩
      simp [h1, h2] at h
      cases hf : firstInvalid s.params args 0 with
      | none => rfl
      | some i => simp [hf] at h

theorem check_variadic {s : NativeSig} {args : List VKind} {n : Nat} (ha : s.arity = .variadic n)
    (h : checkIfValidCall s args = .ok ()) :
    n ≤ args.length ∧ ∃ vt, s.params[n]? = some vt ∧
      (n ≠ 0 → firstInvalid (s.params.take n) (args.take n) 0 = none) ∧
      firstInvalidRest vt (args.drop n) n = none := by
  unfold checkIfValidCall at h; simp only [ha] at h
  by_cases h1 : args.length < n
  · simp [h1] at h
  · refine ⟨by omega, ?_⟩
    simp [h1] at h
    cases hp : s.params[n]? with
    | none => simp [hp] at h
    | some vt =>
      refine ⟨vt, rfl, ?_⟩
      simp only [hp] at h
      by_cases hn : n = 0
      · subst hn
        simp at h
        refine ⟨by simp, ?_⟩
        cases hf : firstInvalidRest vt args 0 with
        | none => simpa using hf
        | some i => simp [hf] at h
      · simp [hn] at h
        cases hf1 : firstInvalid (List.take n s.params) (List.take n args) 0 with
        | some i => simp [hf1] at h
        | none =>
          simp [hf1] at h
          refine ⟨fun _ => rfl, ?_⟩
          cases hf : firstInvalidRest vt (List.drop n args) n with
          | none => rfl
          | some i => simp [hf] at h

/-- **C16_sigcheck_sound** — if `check_if_valid_call` accepts an argument list for a signature built by
    `to_sig`/`to_method_sig`, every argument has a kind its guarding parameter allows (all arities,
    default and variadic included, all argument lists). -/
theorem C16_sigcheck_sound (s : NativeSig) (args : List VKind) (hwf : s.wellFormed = true)
    (h : accepts s args = true) :
    ∀ (i : Nat) (a : VKind), args[i]? = some a → ∃ p, s.paramAt i = some p ∧ p.isValid a = true := by
  have h' := accepts_iff.mp h
  intro i a hia
  have hi : i < args.length := by
    rcases Nat.lt_or_ge i args.length with hlt | hge
    · exact hlt
    · simp [List.getElem?_eq_none hge] at hia
  unfold NativeSig.wellFormed at hwf
  cases ha : s.arity with
  | fixed n =>
    obtain ⟨hl, hf⟩ := check_fixed ha h'
    simp [ha, Arity.requiredParameter] at hwf
    have hin : i < n := by omega
    have hip : i < s.params.length := by omega
    refine ⟨s.params[i], ?_, ?_⟩
    · simp [NativeSig.paramAt, ha, hin, List.getElem?_eq_getElem hip]
    · exact firstInvalid_none hf i _ a (List.getElem?_eq_getElem hip) hia
  | «default» lo hi =>
    obtain ⟨_, hhi, hf⟩ := check_default ha h'
    simp [ha, Arity.requiredParameter] at hwf
    have hin : i < hi := by omega
    have hip : i < s.params.length := by omega
    refine ⟨s.params[i], ?_, ?_⟩
    · simp [NativeSig.paramAt, ha, hin, List.getElem?_eq_getElem hip]
    · exact firstInvalid_none hf i _ a (List.getElem?_eq_getElem hip) hia
  | variadic n =>
    obtain ⟨hl, vt, hvt, hf1, hf2⟩ := check_variadic ha h'
    simp [ha, Arity.requiredParameter] at hwf
    by_cases hin : i < n
    · have hip : i < s.params.length := by omega
      refine ⟨s.params[i], ?_, ?_⟩
      · simp [NativeSig.paramAt, ha, hin, List.getElem?_eq_getElem hip]
      · have hn : n ≠ 0 := by omega
        refine firstInvalid_none (hf1 hn) i _ a ?_ ?_
        · simp [hin, List.getElem?_eq_getElem hip]
        · simp [hin, hia]
    · refine ⟨vt, ?_, ?_⟩
      · simp [NativeSig.paramAt, ha, hin, hvt]
      · refine firstInvalidRest_none hf2 (i - n) a ?_
        have : n + (i - n) = i := by omega
        simp [List.getElem?_drop, this, hia]

/-! ## lifting the table check to all argument lists -/

theorem accepts_minArgs {s : NativeSig} {args : List VKind} (h : accepts s args = true) :
    s.arity.minArgs ≤ args.length := by
  have h' := accepts_iff.mp h
  cases ha : s.arity with
  | fixed n => have := (check_fixed ha h').1; simp [Arity.minArgs]; omega
  | «default» lo hi => have := (check_default ha h').1; simp [Arity.minArgs]; omega
  | variadic n => have := (check_variadic ha h').1; simp [Arity.minArgs]; omega

theorem covers_sound {p : PKind} {u : UKind} {a : VKind} (hc : p.covers u = true) (hv : p.isValid a = true) :
    u.holds a = true := by
  unfold PKind.covers at hc
  have := List.all_eq_true.mp hc a (VKind_all_complete a)
  simpa [hv] using this

/-- one index: the table obligation `kindOkAt` implies the unwrap survives on every accepted call -/
theorem kindOkAt_sound (r : NativeRow) (u : UKind) (args : List VKind) (hwf : r.sig.wellFormed = true)
    (hacc : accepts r.sig args = true)
    (hrecv : r.isMethod = true → ∀ a, args[0]? = some a → receiverOk r.owner a = true)
    (i : Nat) (a : VKind) (hia : args[i]? = some a) (hk : kindOkAt r u i = true) : u.holds a = true := by
  unfold kindOkAt at hk
  by_cases hr : (r.hasReceiver && i == 0) = true
  · simp only [hr, if_true] at hk
    simp only [NativeRow.hasReceiver, Bool.and_eq_true, beq_iff_eq] at hr
    obtain ⟨hm, hi0⟩ := hr
    subst hi0
    have hro := hrecv hm a hia
    unfold receiverOk at hro
    have hmem : a ∈ recvKinds r.owner := by simpa using hro
    exact List.all_eq_true.mp hk a hmem
  · simp only [hr] at hk
    obtain ⟨p, hp, hv⟩ := C16_sigcheck_sound r.sig args hwf hacc i a hia
    simp only [hp] at hk
    exact covers_sound (by simpa using hk) hv

theorem sig_variadic_method {r : NativeRow} {n : Nat} (ha : r.sig.arity = .variadic n)
    (hm : r.hasReceiver = true) : n ≠ 0 := by
  unfold NativeRow.sig NativeSig.build at ha
  simp only [NativeRow.hasReceiver] at hm
  simp only [hm, if_true] at ha
  cases hra : r.arity with
  | fixed k => simp [hra, Arity.methodArity] at ha
  | «default» a b => simp [hra, Arity.methodArity] at ha
  | variadic k => simp [hra, Arity.methodArity] at ha; omega

/-- in the variadic tail every index is guarded by the same (last) parameter -/
theorem kindOkAt_tail (r : NativeRow) (u : UKind) {n : Nat} (ha : r.sig.arity = .variadic n)
    {i : Nat} (hi : n ≤ i) : kindOkAt r u i = kindOkAt r u n ∨ (r.hasReceiver = true ∧ n = 0) := by
  by_cases hm : r.hasReceiver = true
  · have hn := sig_variadic_method ha hm
    left
    have hi0 : i ≠ 0 := by omega
    unfold kindOkAt
    simp [hm, hi0, hn, NativeSig.paramAt, ha, Nat.not_lt.mpr hi]
  · left
    unfold kindOkAt
    simp [hm, NativeSig.paramAt, ha, Nat.not_lt.mpr hi]

/-- **C16_unwraps_safe** — the lifted form of the table lemma: on a healthy row, for *every* argument
    list `check_if_valid_call` accepts (receiver inside the envelope E16 for methods), every site of the
    body indexes inside the slice and unwraps a value of the kind it assumes. -/
theorem C16_unwraps_safe (r : NativeRow) (hok : r.ok = true) (args : List VKind)
    (hacc : accepts r.sig args = true)
    (hrecv : r.isMethod = true → ∀ a, args[0]? = some a → receiverOk r.owner a = true)
    (s : Site) (hs : s ∈ r.sites) (hlen : s.minLen ≤ args.length) :
    (s.rest = false → ∃ a, args[s.idx]? = some a ∧ (s.guarded = false → s.kind.holds a = true)) ∧
    (s.rest = true → s.idx ≤ args.length ∧
        ∀ (i : Nat) (a : VKind), s.idx ≤ i → args[i]? = some a → s.guarded = false → s.kind.holds a = true) := by
  unfold NativeRow.ok at hok
  simp only [Bool.and_eq_true, List.all_eq_true] at hok
  obtain ⟨⟨_, hwf⟩, hsites⟩ := hok
  have hso := hsites s hs
  unfold Site.ok at hso
  simp only [Bool.and_eq_true] at hso
  obtain ⟨hb, hk⟩ := hso
  have hmin := accepts_minArgs hacc
  have hmax : Nat.max r.sig.arity.minArgs s.minLen ≤ args.length := Nat.max_le.mpr ⟨hmin, hlen⟩
  unfold Site.boundsOk at hb
  unfold Site.kindOk at hk
  constructor
  · intro hrest
    simp only [hrest] at hb hk
    have hidx : s.idx < args.length := by
      have : s.idx < Nat.max r.sig.arity.minArgs s.minLen := by simpa using hb
      omega
    refine ⟨args[s.idx], List.getElem?_eq_getElem hidx, ?_⟩
    intro hg
    simp only [hg, Bool.false_or, Bool.or_eq_true, beq_iff_eq] at hk
    rcases hk with hany | hk
    · rw [hany]; rfl
    · exact kindOkAt_sound r s.kind args hwf hacc hrecv s.idx _ (List.getElem?_eq_getElem hidx) (by simpa using hk)
  · intro hrest
    simp only [hrest] at hb hk
    constructor
    · have : s.idx ≤ Nat.max r.sig.arity.minArgs s.minLen := by simpa using hb
      omega
    · intro i a hi hia hg
      simp only [hg, Bool.false_or, Bool.or_eq_true, beq_iff_eq] at hk
      rcases hk with hany | hk
      · rw [hany]; rfl
      · simp only [if_true, Bool.and_eq_true, List.all_eq_true, List.mem_range, Bool.or_eq_true, decide_eq_true_eq] at hk
        obtain ⟨hk, hktail⟩ := hk
        have hilt : i < args.length := by
          rcases Nat.lt_or_ge i args.length with hlt | hge
          · exact hlt
          · simp [List.getElem?_eq_none hge] at hia
        have h' := accepts_iff.mp hacc
        have hwf' := hwf
        unfold NativeSig.wellFormed at hwf'
        have key : kindOkAt r s.kind i = true := by
          cases ha : r.sig.arity with
          | fixed n =>
            have hl := (check_fixed ha h').1
            simp [ha, Arity.requiredParameter] at hwf'
            rcases hk i (by omega) with h1 | h1
            · omega
            · exact h1
          | «default» lo hi' =>
            have hl := (check_default ha h').2.1
            simp [ha, Arity.requiredParameter] at hwf'
            rcases hk i (by omega) with h1 | h1
            · omega
            · exact h1
          | variadic n =>
            simp [ha, Arity.requiredParameter] at hwf'
            by_cases hin : i < n
            · rcases hk i (by omega) with h1 | h1
              · omega
              · exact h1
            · have hni : n ≤ i := by omega
              have hnm : n ≤ Nat.max s.idx r.sig.params.length := by
                have : r.sig.params.length ≤ Nat.max s.idx r.sig.params.length := Nat.le_max_right _ _
                omega
              rcases kindOkAt_tail r s.kind ha hni with heq | ⟨hm, hn0⟩
              · rcases kindOkAt_tail r s.kind ha hnm with heq' | ⟨hm, hn0⟩
                · rw [heq, ← heq']; exact hktail
                · exact absurd hn0 (sig_variadic_method ha hm)
              · exact absurd hn0 (sig_variadic_method ha hm)
        exact kindOkAt_sound r s.kind args hwf hacc hrecv i a hia key

/-- the hand-written `is_valid` equals the predicate read off the regenerated `match` arms -/
theorem C16_isValid_eq_gen (p : PKind) (v : VKind) : genIsValid p v = p.isValid v :=
  C16_isValid_eq_gen_aux p (PKind_all_complete p) v (VKind_all_complete v)

/-! ## the table of natives -/

/-- Natives (Rust struct names) whose body is **not** covered by its declared signature on the pinned
    code.  `Print`: D22 (`args[0]` with `Variadic(0)`); the others: D24 (an unconstrained parameter is cast
    to an iterator / class without a test).  Each is a known finding with a witness program. -/
def knownBadRows : List String :=
  ["Print", "IterZip", "IterChain", "ListCollect", "ObjectIsA", "TupleCollect"]

/-- **C16_signatures_cover_unwraps** — every native outside `knownBadRows` is classified, has a well-formed
    signature, and each site of its body is justified (bounds by the arity or a length guard, kind by the
    declared parameter / receiver convention / a dominating `is_*` test).  A new mismatching native, a loosened
    parameter kind or an unclassifiable body breaks this lemma. -/
theorem C16_signatures_cover_unwraps :
    ∀ r ∈ natives, r.struct ∉ knownBadRows → r.ok = true := by decide +kernel

/-- every listed row really fails the check -/
theorem C16_knownBadRows_fail :
    ∀ n ∈ knownBadRows, ∃ r ∈ natives, r.struct = n ∧ r.ok = false := by decide +kernel

/-- struct names identify rows -/
theorem C16_native_structs_distinct : (natives.map (·.struct)).Nodup := by decide +kernel

/-- no body was left unclassified by the scan -/
theorem C16_all_classified : ∀ r ∈ natives, r.unclassified = "" := by decide +kernel

/-- every registered signature satisfies the `assert_eq!` of `to_sig` / `to_method_sig` -/
theorem C16_signatures_wellFormed : ∀ r ∈ natives, r.sig.wellFormed = true := by decide +kernel

/-- **C16_natives_safe** — table lemma and lifting combined: for every native outside `knownBadRows`, every
    argument list the signature check accepts (receiver inside E16), every unguarded site is in bounds and
    unwraps a value of the assumed kind. -/
theorem C16_natives_safe (r : NativeRow) (hr : r ∈ natives) (hb : r.struct ∉ knownBadRows)
    (args : List VKind) (hacc : accepts r.sig args = true)
    (hrecv : r.isMethod = true → ∀ a, args[0]? = some a → receiverOk r.owner a = true)
    (s : Site) (hs : s ∈ r.sites) (hlen : s.minLen ≤ args.length) :
    (s.rest = false → ∃ a, args[s.idx]? = some a ∧ (s.guarded = false → s.kind.holds a = true)) ∧
    (s.rest = true → s.idx ≤ args.length ∧
        ∀ (i : Nat) (a : VKind), s.idx ≤ i → args[i]? = some a → s.guarded = false → s.kind.holds a = true) :=
  C16_unwraps_safe r (C16_signatures_cover_unwraps r hr hb) args hacc hrecv s hs hlen

/-- **C16_result_unwraps_listed** — the unchecked unwraps of a user callback's result are exactly these (D23) -/
theorem C16_result_unwraps_listed :
    resultUnwraps = [
      ("laythe_lib/src/global/misc.rs", "Print::call", .ok .string, "direct x2"),
      ("laythe_vm/src/vm/ops.rs", "Vm::op_interpolate", .ok .string, "stack slice x2")] := by decide

/-- **C16_field_unwraps_listed** — the unchecked unwraps of an assignable instance field are exactly these -/
theorem C16_field_unwraps_listed :
    fieldUnwraps = [
      ("laythe_lib/src/regexp/class.rs", "macro get_regex!", "instance[0]", .ok .string)] := by decide

/-- **C16_stackless_callbacks_listed** — natives with `NativeEnvironment::StackLess` (no stub frame) whose body can run
    user code are exactly these.  An error raised in such a callback is unwound with no frame between the callback and
    the native's caller: when that caller has an active `try`, its handler runs inside the nested `execute` of the hook
    (known finding D12: wrong value caught / missed catch / heap corruption).  The `for … in` instruction over a lazy
    iterator (`op_iter_next`) has the same shape. -/
theorem C16_stackless_callbacks_listed :
    (natives.filter fun r => !r.stack && r.callsBack).map (·.struct) =
      ["IterNext", "IterFirst", "IterLast", "IterLen", "IterToList", "ListCollect", "MethodName", "TupleCollect"] := by
  decide +kernel

/-! ### witnesses for the listed rows (model level; the programs are under `known_findings/`) -/

/-- D22: `print()` — the signature accepts the empty argument list, the body reads `args[0]` -/
theorem C16_witness_print_no_args :
    ∃ r ∈ natives, r.struct = "Print" ∧ accepts r.sig [] = true ∧
      ∃ s ∈ r.sites, s.rest = false ∧ s.idx = 0 ∧ ([] : List VKind)[s.idx]? = none := by decide +kernel

/-- D24: `List.collect(1)` — accepted, and the body casts a number to an iterator -/
theorem C16_witness_collect_non_iterator :
    ∃ r ∈ natives, r.struct = "ListCollect" ∧ accepts r.sig [.number] = true ∧
      ∃ s ∈ r.sites, s.idx = 0 ∧ s.guarded = false ∧ s.kind.holds .number = false := by decide +kernel

/-- D24: `x.isA?(1)` -/
theorem C16_witness_isA_non_class :
    ∃ r ∈ natives, r.struct = "ObjectIsA" ∧ accepts r.sig [.obj .instance_, .number] = true ∧
      ∃ s ∈ r.sites, s.idx = 1 ∧ s.guarded = false ∧ s.kind.holds .number = false := by decide +kernel

/-- D24: `it.zip([1])` / `it.chain("s")` — variadic `Object` tail cast to iterators -/
theorem C16_witness_zip_non_iterator :
    ∃ r ∈ natives, r.struct = "IterZip" ∧ accepts r.sig [.obj .enumerator, .obj .list] = true ∧
      ∃ s ∈ r.sites, s.rest = true ∧ s.idx ≤ 1 ∧ s.guarded = false ∧ s.kind.holds (.obj .list) = false := by
  decide +kernel

/-- D11 (`class A : List {}; A().push(1)`): an instance reaches `List.push` through inheritance, outside the
    envelope E16, and the body casts the receiver to a list. -/
theorem C16_witness_builtin_subclass :
    ∃ r ∈ natives, r.struct = "ListPush" ∧ receiverOk r.owner (.obj .instance_) = false ∧
      accepts r.sig [.obj .instance_, .number] = true ∧
      ∃ s ∈ r.sites, s.idx = 0 ∧ s.kind.holds (.obj .instance_) = false := by decide +kernel

/-! ## call depth -/

/-- the text of the guards: `==` against `MAX_FRAME_SIZE` in `call_closure` and `call`, none in `call_native` -/
theorem C16_frame_guard_text :
    Limits.frameGuards = [("call_closure", "==", "MAX_FRAME_SIZE"), ("call", "==", "MAX_FRAME_SIZE")] ∧
    Limits.nativeStubPush = (1, false) := by decide

/-- the envelope under which the limit holds: no stack-using native is entered at exactly the limit -/
def noNativeAtLimit : FrameState → List FrameOp → Bool
  | _, [] => true
  | s, op :: ops =>
    !(op == .nativeEnter && guardTrips s.frames) &&
      match frameStep s op with
      | some (s', _) => noNativeAtLimit s' ops
      | none => true

/-- **C16_stack_overflow_at_limit** — at the limit a Laythe call raises the (catchable) error and pushes nothing -/
theorem C16_stack_overflow_at_limit (s : FrameState) (h : s.frames = Limits.maxFrameSize) :
    frameStep s .callLaythe = some (s, .stackOverflow) := by
  simp [frameStep, guardTrips, h]

/-- **C16_frame_limit_partial** — for every sequence of calls, returns and native entries/exits inside the
    envelope, the frame count never exceeds `MAX_FRAME_SIZE`.  (`_partial`: the full statement — without the
    envelope — is false on the pinned code, see the witness below.) -/
theorem C16_frame_limit_partial (ops : List FrameOp) :
    ∀ (s s' : FrameState), s.frames ≤ Limits.maxFrameSize → noNativeAtLimit s ops = true →
      frameRun s ops = some s' → s'.frames ≤ Limits.maxFrameSize := by
  induction ops with
  | nil => intro s s' h0 _ hr; simp [frameRun] at hr; subst hr; exact h0
  | cons op ops ih =>
    intro s s' h0 henv hr
    simp only [noNativeAtLimit, Bool.and_eq_true] at henv
    obtain ⟨hne, hrest⟩ := henv
    simp only [frameRun] at hr
    cases op with
    | callLaythe =>
      simp only [frameStep] at hr hrest
      by_cases hg : guardTrips s.frames = true
      · simp only [hg, if_true] at hr hrest
        exact ih s s' h0 hrest hr
      · simp only [hg] at hr hrest
        refine ih _ s' ?_ hrest hr
        simp [guardTrips] at hg
        simp; omega
    | nativeEnter =>
      simp only [frameStep] at hr hrest
      refine ih _ s' ?_ hrest hr
      simp [guardTrips] at hne
      simp; omega
    | nativeLeave =>
      simp only [frameStep] at hr hrest
      by_cases hz : s.frames = 0
      · simp [hz] at hr
      · simp only [hz, if_false] at hr hrest
        refine ih _ s' ?_ hrest hr
        simp; omega
    | ret =>
      simp only [frameStep] at hr hrest
      by_cases hz : s.frames = 0
      · simp [hz] at hr
      · simp only [hz, if_false] at hr hrest
        refine ih _ s' ?_ hrest hr
        simp; omega

theorem frameRun_calls_above_limit (n : Nat) :
    ∀ k, Limits.maxFrameSize < k →
      frameRun { frames := k } (List.replicate n .callLaythe) = some { frames := k + n } := by
  induction n with
  | zero => intro k _; simp [frameRun]
  | succ n ih =>
    intro k hk
    have hg : guardTrips k = false := by
      simp [guardTrips]; omega
    simp [List.replicate_succ, frameRun, frameStep, hg, ih (k + 1) (by omega)]
    omega

/-- **C16_witness_frame_limit_bypass** (genuine defect, found with this model and reproduced on the binary:
    `known_findings/D25-frame-limit-bypass`): enter a stack-using native (`iter.each`, `list.sort`, `print`, …) with
    exactly `MAX_FRAME_SIZE` frames on the fiber; the unguarded stub frame makes the count `MAX_FRAME_SIZE + 1`,
    the `==` guard never fires again, and *any* number `n` of further Laythe calls is admitted. -/
theorem C16_witness_frame_limit_bypass (n : Nat) :
    frameRun { frames := Limits.maxFrameSize } (.nativeEnter :: List.replicate n .callLaythe)
      = some { frames := Limits.maxFrameSize + 1 + n } := by
  simp only [frameRun, frameStep]
  exact frameRun_calls_above_limit n _ (by omega)

/-! ## non-callables -/

/-- **C16_noncallable** — `resolve_call` on every value kind either dispatches (closure, method, native, class,
    fun) or raises `… is not callable.` -/
theorem C16_noncallable (v : VKind) :
    resolveCall v = .notCallable ↔
      v ∉ [VKind.obj .closure, .obj .method, .obj .native, .obj .class_, .obj .fun_] := by
  cases v with
  | obj k => cases k <;> decide
  | _ => decide

/-- the dispatch table is the regenerated one -/
theorem C16_resolveCall_eq_gen (v : VKind) : genResolveCall v = (resolveCall v).handler :=
  (by decide : ∀ v ∈ VKind.all, genResolveCall v = (resolveCall v).handler) v (VKind_all_complete v)

/-! ## fiber stack sizing (D10) -/

/-- `Fiber::new` / `split` build the initial stack from `&UNDEFINED_ARRAY[0..stack_count]` -/
def fiberInitSliceOk (stackCount : Nat) : Bool := stackCount ≤ Limits.undefinedArrayLen

/-- D10: a script whose `max_slots + 1` exceeds 255 (a 300-element list literal at module level needs 302)
    slices out of range → host panic -/
theorem C16_witness_fiber_stack : fiberInitSliceOk 302 = false := by decide

/-! ## the skeletons the model mirrors (an edit to the Rust text re-opens these) -/

theorem C16_arity_check_text :
    SigTable.arityCheck = [
      ("Fixed", ["arity"], ["if arg_count != arity => Err"]),
      ("Variadic", ["arity"], ["if arg_count < arity => Err"]),
      ("Default", ["min_arity", "max_arity"], ["if arg_count < min_arity => Err", "if arg_count > max_arity => Err"])] := by
  decide

theorem C16_check_if_valid_call_text :
    SigTable.checkIfValidCall = [
      ("Fixed", ["arity"], ["if args_count != arity as usize => Err",
        "for args.iter().zip(parameters.iter()) => Err unless is_valid"]),
      ("Variadic", ["arity"], ["if args_count < arity as usize => Err", "if arity != 0 {",
        "for args.iter().zip(parameters.iter()).take(arity as usize) => Err unless is_valid",
        "for args[arity as usize..].iter() => Err unless is_valid"]),
      ("Default", ["min_arity", "max_arity"], ["if args_count < min_arity as usize => Err",
        "if args_count > max_arity as usize => Err",
        "for args.iter().zip(parameters.iter()) => Err unless is_valid"])] := by
  decide

theorem C16_method_convention_text :
    SigTable.methodSelfKind = "Object" ∧
    SigTable.methodArity = ["Arity::Fixed(i) => Arity::Fixed(i + 1)", "Arity::Variadic(i) => Arity::Variadic(i + 1)",
      "Arity::Default(required, total) => Arity::Default(required + 1, total + 1)"] ∧
    SigTable.requiredParameter = ["Self::Fixed(i) => i as usize", "Self::Variadic(i) => i as usize + 1",
      "Self::Default(_, i) => i as usize"] := by decide

/-- the enum shapes the model's `VKind` / `PKind` assume -/
theorem C16_enum_text :
    SigTable.parameterKinds = PKind.all.map (·.name) ∧ SigTable.objectKinds = ObjKind.all.map (·.name) ∧
    SigTable.valueKinds = ["Bool", "Nil", "Undefined", "Number", "Obj"] := by decide

/-- `Arity::check` in closed form -/
theorem C16_arity_check_spec (a : Arity) (n : Nat) :
    a.check n = .ok () ↔
      match a with
      | .fixed k => n = k
      | .variadic k => k ≤ n
      | .default lo hi => lo ≤ n ∧ n ≤ hi := by
  cases a with
  | fixed k => by_cases h : n = k <;> simp [Arity.check, h]
  | variadic k => by_cases h : n < k <;> simp [Arity.check, h] <;> omega
  | «default» lo hi =>
    by_cases h1 : n < lo
    · simp [Arity.check, h1] <;> omega
    · by_cases h2 : n > hi
      · simp [Arity.check, h1, h2] <;> omega
      · simp [Arity.check, h1, h2] <;> omega

/-- the length part of `check_if_valid_call` is `Arity::check` -/
theorem C16_accepts_arity (s : NativeSig) (args : List VKind) (h : accepts s args = true) :
    s.arity.check args.length = .ok () := by
  have h' := accepts_iff.mp h
  rw [C16_arity_check_spec]
  cases ha : s.arity with
  | fixed n => exact (check_fixed ha h').1
  | variadic n => exact (check_variadic ha h').1
  | «default» lo hi => exact ⟨(check_default ha h').1, (check_default ha h').2.1⟩

/-! ## non-vacuity -/

-- a healthy row with a non-trivial signature and several sites exists, and the lifted theorem applies to it
example : ∃ r ∈ natives, r.struct = "ListInsert" ∧ r.ok = true ∧ r.sites.length = 3 ∧
    accepts r.sig [.obj .list, .number, .nil] = true ∧ receiverOk r.owner (.obj .list) = true := by decide +kernel
-- the signature check rejects what it should: wrong kind, too few, too many
example : ∃ r ∈ natives, r.struct = "ListInsert" ∧
    checkOutcome r.sig [.obj .list, .obj .string, .nil] = some (.typeWrong 1) ∧
    checkOutcome r.sig [.obj .list, .number] = some (.lenFixed 3) := by decide +kernel
-- default arity: both bounds matter
example : checkOutcome (NativeSig.build true (.default 0 2) [.number, .number]) [.obj .list, .number, .number, .number]
    = some (.lenDefaultHigh 3) := by decide
example : accepts (NativeSig.build true (.default 0 2) [.number, .number]) [.obj .list, .number] = true := by decide
-- variadic: the tail is checked against the last parameter
example : checkOutcome (NativeSig.build false (.variadic 1) [.number, .number]) [.number, .number, .obj .string]
    = some (.typeWrong 2) := by decide
-- the frame envelope is satisfiable by a run that reaches the limit and raises the error
example : noNativeAtLimit { frames := 254 } [.callLaythe, .callLaythe, .ret, .nativeEnter, .nativeLeave] = true ∧
    frameStep { frames := 255 } .callLaythe = some ({ frames := 255 }, .stackOverflow) := by decide
-- a guarded site and a length-guarded site exist in the table
example : ∃ r ∈ natives, ∃ s ∈ r.sites, s.guarded = true := by decide +kernel
example : ∃ r ∈ natives, ∃ s ∈ r.sites, s.minLen = 3 ∧ s.idx = 2 := by decide +kernel

/-- the full property (not proved: panics and memory faults of the host are outside any model) -/
def C16_full : Prop :=
  ∀ (Program Outcome : Type) (accepted : Program → Prop) (run : Program → Outcome) (normal : Outcome → Prop),
    ∀ p, accepted p → normal (run p)

end LaytheVerif.C16
