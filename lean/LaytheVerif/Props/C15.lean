import LaytheVerif.Gen.Tokens
import LaytheVerif.Gen.FrontLimits
import LaytheVerif.Model.Scanner
import LaytheVerif.Model.FrontEnd
import LaytheVerif.Lemmas.ScannerTotal
import LaytheVerif.Lemmas.ParserLoop
import LaytheVerif.Model.Contract
import LaytheVerif.Lemmas.ContractSep
/-!
# C15 — the front end is total: any text yields a program or diagnostics, never a crash

What is proved here (models: `Model/Scanner.lean`, `Model/FrontEnd.lean`; generated tables: `Gen/Tokens.lean`,
`Gen/Limits.lean`):

* `C15_scanner_total`            scanner: terminates on every input, exactly one EOF (last), spans inside the input on
                                 character boundaries, non-empty, disjoint and increasing; `C15_unterminated_*`
* `C15_sync_progress`, `C15_parse_terminates`   each iteration of the declaration loop, error recovery included, consumes
                                 a token; parsing terminates for every grammar oracle
* `C15_parser_shape_gen` [G]     the facts of parser.rs the loop model relies on, over the regenerated table
* `C15_limits_guarded` [G]       every `as u8` / `as u16` of the compiler is dominated by a guard with a sufficient bound,
                                 except the listed `knownUnguarded` sites, each of which is shown to be unguarded
* `C15_resolve_then_compile_total_events`       resolver clean ⇒ no lookup `panic!`/`expect` in the compiler, over all
                                 scoping-event sequences
* `C15_resolve_then_compile_total_partial`      the same at AST level in the two real traversal orders, for every program in
                                 which no `for` iterable reads its loop variable and no `catch` class is its variable;
                                 `C15_witness_*`: outside that envelope the real code panics (defect D151)

`C15_full` (below) is the full statement; it is not proved: the parser's grammar (~2 300 lines) and the compiler's code
generation are sampled by the malformed-input stream of `vlib/props/c15.py`, not modelled.
-/
namespace LaytheVerif.C15
open LaytheVerif LaytheVerif.Gen

/-! ## Scanner -/

open LaytheVerif.Scanner in
/-- **C15_scanner_total.**  For every input the model scanner (total by construction; `scan` iterates `scan_token`
with fuel `length + 1`) yields `body ++ [eof]` where `eof` is the only `Eof` token and spans
`[current, current_offset())`; every other token is non-empty, lies inside the input (positions are character
indices, hence on character boundaries), and the tokens are disjoint and increasing. -/
theorem C15_scanner_total (input : List Char) :
    ∃ body eof, scan input = body ++ [eof] ∧ eof.kind = .Eof ∧
      eof.start = input.length - 1 ∧ eof.stop = off input.length ∧
      (∀ t ∈ body, t.kind ≠ .Eof ∧ t.start < t.stop ∧ t.stop ≤ input.length) ∧
      body.Pairwise (fun a b => a.stop ≤ b.start) := by
  obtain ⟨body, eof, h1, h2, h3, h4, h5, h6⟩ := (scan_ok input).shape
  exact ⟨body, eof, h1, h2, h3, h4, fun t ht => ⟨(h5 t ht).1, (h5 t ht).2.2.1, (h5 t ht).2.2.2⟩, h6⟩

open LaytheVerif.Scanner in
/-- The fuel of `scan` is never the reason it stops: every `scan_token` that does not return `Eof` consumes input. -/
theorem C15_scanner_progress (s : St) (h : (scanToken s).1.kind ≠ .Eof) :
    (scanToken s).2.rest.length < s.rest.length := scanToken_progress s h

/-- byte offset of a character index (what the Rust scanner reports): sum of the UTF-8 sizes of the prefix -/
def byteOff (input : List Char) (k : Nat) : Nat := ((input.take k).map Char.utf8Size).sum

theorem byteOff_mono (input : List Char) (a b : Nat) (h : a ≤ b) : byteOff input a ≤ byteOff input b := by
  induction input generalizing a b with
  | nil => simp [byteOff]
  | cons c r ih =>
    cases a with
    | zero => simp [byteOff]
    | succ a =>
      cases b with
      | zero => omega
      | succ b =>
        have := ih a b (by omega)
        simp only [byteOff, List.take_succ_cons, List.map_cons, List.sum_cons] at *
        omega

open LaytheVerif.Scanner in
/-- Reaching the end of the input inside a string literal — in the body, after a backslash, inside `\u{…` — always
produces an error token. -/
theorem C15_unterminated_string_is_error (q : Char) (kind : TokenKind) (m : SMode) (k : Nat) (ls : List Nat) :
    (strLoop q kind m [] k ls).kind = .Error := strLoop_end_is_error q kind m k ls

open LaytheVerif.Scanner in
/-- A string whose body has no closing quote (and no escape / interpolation) is one "Unterminated string." token that
extends to the end of the input. -/
theorem C15_unterminated_plain_string (q : Char) (kind : TokenKind) (body : List Char) (k : Nat) (ls : List Nat)
    (h : ∀ c ∈ body, c ≠ q ∧ c ≠ '\\' ∧ c ≠ '$') :
    (strLoop q kind .str body k ls).kind = .Error ∧ (strLoop q kind .str body k ls).err = some .unterminatedString ∧
    (strLoop q kind .str body k ls).rest = [] ∧ (strLoop q kind .str body k ls).k = k + body.length :=
  strLoop_unterminated q kind body k ls h

section ScannerExamples
open LaytheVerif.Scanner
private def kinds (s : String) : List TokenKind := (scan s.toList).map (·.kind)
private def spans (s : String) : List (Nat × Nat) := (scan s.toList).map fun t => (t.start, t.stop)

/-- non-vacuity: a real program text -/
example : kinds "let x = \"a${1}b\"; // c" =
    [.Let, .Identifier, .Equal, .StringStart, .Number, .StringEnd, .Semicolon, .Eof] := by decide
example : spans "let é=1;" = [(0, 3), (4, 5), (5, 6), (6, 7), (7, 8), (7, 8)] := by decide
/-- unterminated string ⇒ error token -/
example : kinds "x = \"abc" = [.Identifier, .Equal, .Error, .Eof] := by decide
/-- an unterminated *interpolation* is not an error of the scanner (the parser reports it) -/
example : kinds "\"a${1 +" = [.StringStart, .Number, .Plus, .Eof] := by decide
/-- wart mirrored: while nothing has been consumed `current_offset()` is 1: the EOF token of the empty text is
`[0, 1)` (outside the text) … -/
example : scan [] = [⟨.Eof, 0, 1, none⟩] := by decide
/-- … and the comment look-ahead of the very first `/` examines the third character: `/a/ b` scans as a comment -/
example : kinds "/a/ b" = [.Eof] := by decide
example : kinds "x /a/ b" = [.Identifier, .Slash, .Identifier, .Slash, .Identifier, .Eof] := by decide
end ScannerExamples

/-- [G] the character classes in scanner.rs are the ones the model uses -/
theorem C15_char_classes_gen : Gen.charClassText = Gen.charClassExpected := by decide

/-- [G] the keyword table extracted from the trie: no keyword maps to a meta token, all keywords are distinct -/
theorem C15_keywords_gen :
    (∀ kw ∈ Gen.keywords, kw.2 ≠ .Eof ∧ kw.2 ≠ .Error ∧ kw.2 ≠ .Identifier) ∧
    (Gen.keywords.map (·.1)).Nodup ∧ Gen.keywords.length = 27 := by decide

/-! ## Declaration loop -/

open LaytheVerif.FrontEnd in
/-- **C15_sync_progress.**  Whatever the grammar of a declaration does (oracle `o`), one iteration of the declaration
loop — `decl()` including `synchronize` on error — returns (the fuel of `synchronize` suffices) and has consumed at
least one token. -/
theorem C15_sync_progress (o : Oracle) (p : PState) (h : p.cur ≠ .Eof) :
    ∃ r, decl o p = some r ∧ r.1.mu < p.mu := decl_progress o p h

open LaytheVerif.FrontEnd in
/-- Parsing terminates on every token stream, for every grammar oracle. -/
theorem C15_parse_terminates (o : Oracle) (toks : List TokenKind) : ∃ r, parse o toks = some r := parse_total o toks

/-- [G] what the loop model assumes about parser.rs, over the regenerated table: every arm of `decl`/`stmt` starts with
`advance()` or delegates (`_ => stmt()`, `_ => expr_stmt()`), `expr_stmt → expr → parse_precedence → advance()?`,
`advance()` shifts unconditionally, the loops have the modelled shape, `synchronize` continues after `Semicolon`, stops
at 16 kinds all of which are token kinds, never stops at `Eof`. -/
theorem C15_parser_shape_gen :
    (∀ a ∈ Gen.parserArms, a.2.2 = "advance" ∨ (a.2.1 = "_" ∧ (a = ("decl", "_", "stmt") ∨ a = ("stmt", "_", "expr_stmt")))) ∧
    Gen.exprChain = [("expr_stmt", "expr"), ("expr", "parse_precedence"), ("parse_precedence", "advance")] ∧
    Gen.advanceShifts = true ∧ Gen.declLoopShape = (true, true) ∧ Gen.syncContinuesAfter = "Semicolon" ∧
    (∀ s ∈ Gen.syncStops, s ∈ Gen.tokenKinds.map TokenKind.name) ∧ ¬ "Eof" ∈ Gen.syncStops ∧ ¬ "Error" ∈ Gen.syncStops ∧
    Gen.syncStops.length = 16 := by decide

section LoopExamples
open LaytheVerif.FrontEnd
/-- non-vacuity: `) ; ] ; let` — the first declaration fails at `)`, `synchronize` skips to `let`, the oracle fails
again, recovery runs to the end: the loop returns. -/
example : (parse ⟨fun _ => 0, fun _ => true⟩ [.RightParen, .Semicolon, .RightBracket, .Semicolon, .Let, .Eof]).isSome = true := by
  decide
/-- an error token inside recovery aborts the parse with `Err` (second component `false`) -/
example : (parse ⟨fun _ => 0, fun _ => true⟩ [.RightParen, .Semicolon, .Error, .Let, .Eof]).map (·.2) = some false := by decide
end LoopExamples

/-! ## Narrowing sites -/

/-- the largest operand value that can reach the narrowing without a diagnostic having been reported / outside the
guarded branch; `none` = no guard -/
def admittedMax (s : NarrowSite) : Option Nat :=
  match s.guard, s.cmp with
  | .error, .eq => some (s.bound + s.addend)      -- counter compared at every increment: it never exceeds the bound silently
  | .error, .ge => some (s.bound + s.addend)
  | .error, .gt => some (s.bound + s.addend)
  | .branch, .le => some (s.bound + s.addend)
  | .branch, .lt => some (s.bound - 1 + s.addend)
  | _, _ => none

def siteGuarded (s : NarrowSite) : Bool :=
  match admittedMax s with
  | some m => m ≤ s.targetMax
  | none => false

/-- Narrowing sites that are NOT protected.  `line_number`: `line as u16 + 1` in `emit_byte` — reachable (65 536 lines),
defect D153.  `interpolate_count`: guard bound 65535 but the operand is `segments + 2` — reachable (65 534 segments
compile to `Interpolate 0`), defect D155.  `handler_slots`: `slots as u16` in `apply_stack_effects` (marked TODO in the
source) — not reachable: `try` is a statement, the depth there is the number of locals in scope (≤ 256, see
`local_slot`) plus loop temporaries. -/
def knownUnguarded : List String := ["line_number", "interpolate_count", "handler_slots"]

/-- **C15_limits_guarded** [G]: over the regenerated table, every narrowing site is dominated by a guard whose bound
(plus the constant added before narrowing) fits the target type — or is one of the listed unguarded sites. -/
theorem C15_limits_guarded :
    ∀ s ∈ Gen.narrowSites, siteGuarded s = true ∨ s.id ∈ knownUnguarded := by decide

/-- every listed site really is unguarded in the table (so the list cannot silently rot) -/
theorem C15_known_unguarded_are_unguarded :
    ∀ i ∈ knownUnguarded, ∃ s ∈ Gen.narrowSites, s.id = i ∧ siteGuarded s = false := by decide

/-- [G] the numeric limits of the front end (a changed bound re-opens this) -/
theorem C15_limits_table_gen :
    Gen.limits = [("arguments", 255), ("captures", 255), ("constantIndex", 255), ("constants", 65535), ("fields", 65535),
      ("interpolationSegments", 65535), ("jumpDistance", 65535), ("listItems", 65535), ("locals", 255), ("mapEntries", 65535),
      ("moduleSymbols", 65535), ("parameters", 255), ("tupleItems", 65535)] ∧ Gen.narrowSites.length = 20 := by decide

/-- [G] resolver.rs: in every function body each `declare_variable(x)` is followed by `define_variable(x)`: no symbol
is left `Uninitialized` in a finished table (the `Uninitialized` panic arms of `variable_get`/`variable_set` need this). -/
theorem C15_resolver_declare_define_gen : ∀ r ∈ Gen.resolverDeclareDefine, r.2.2.2 = true ∧ r.2.1 = r.2.2.1 := by decide

/-! ## Resolver ⇒ compiler (`Model/Contract.lean`, `Lemmas/ContractSep.lean`) -/

open LaytheVerif.Contract in
/-- **C15_resolve_then_compile_total** over scoping events: for every event sequence, if the resolver run is clean then
every lookup of the compiler run over the same events (`resolve_local → resolve_capture → module table`,
`load_module_variable`) succeeds and never finds a non-captured local of an enclosing function: the
`panic!("Symbol … not found")`, `panic!("Unexpected symbol … with state …")` and `expect("Expected symbol.")` sites are
not reached. -/
theorem C15_resolve_then_compile_total_events (isGlobal : Name → Bool) (es : List Ev)
    (herr : (resolve isGlobal es).errors = 0) (hh : (resolve isGlobal es).unhoisted = 0) :
    (compileAfter isGlobal es es).ok = true := resolve_then_compile_events isGlobal es herr hh

open LaytheVerif.Contract in
/-- AST level, in the two REAL traversal orders (the compiler visits a `for` iterable before declaring the loop
variable and a `catch` class before the catch variable; the resolver the other way round): inside the decidable
envelope `sep` — no `for` iterable reads its own loop variable, no `catch` class is its own variable — a clean resolver
run implies a panic-free compiler run.  **Partial** with respect to the real front end: the scoping skeleton `Item` has
`let`, `fn`, lambdas, blocks, `for`, `catch`; classes (`self`/`super` scopes), imports/exports and the REPL fallbacks are
not in it, and that the real passes perform exactly these events is checked by the streams, not proved.  Outside the
envelope the contract is FALSE for the real code (witnesses below, defect D151). -/
theorem C15_resolve_then_compile_total_partial (isGlobal : Name → Bool) (prog : Items) (hsep : sep prog = true)
    (herr : (resolve isGlobal (resolverEvents prog)).errors = 0)
    (hh : (resolve isGlobal (resolverEvents prog)).unhoisted = 0) :
    (compileAfter isGlobal (resolverEvents prog) (compilerEvents prog)).ok = true :=
  resolve_then_compile_ast_sep isGlobal prog hsep herr hh

open LaytheVerif.Contract in
/-- inside the envelope the compiler cannot tell the two traversal orders apart -/
theorem C15_traversal_orders_agree (mods : List Name) (cap : Id → Bool) (prog : Items) (hsep : sep prog = true) :
    compile mods cap (resolverEvents prog) = compile mods cap (compilerEvents prog) :=
  compile_orders_agree mods cap prog hsep

section ContractExamples
open LaytheVerif.Contract
private def noGlobals : Name → Bool := fun _ => false
/-- the resolver does reject what it should: use of an undeclared name, self-initialisation in a local scope,
a duplicate declaration -/
example : (resolve noGlobals (resolverEvents (Items.ofList [.use 99]))).errors = 1 := by decide
example : (resolve noGlobals (resolverEvents (Items.ofList [.block (Items.ofList [.letD 11 1 (Items.ofList [.use 11])])]))).errors = 1 := by
  decide
example : (resolve noGlobals (resolverEvents (Items.ofList [.block (Items.ofList [.letD 11 1 .nil, .letD 11 2 .nil])]))).errors = 1 := by
  decide

/-- non-vacuity of the theorem's hypotheses: a closure capturing an outer local, a `for` over a variable and over a
capturing lambda with a nested `for`, a `catch` with a global class — inside the envelope, resolver clean, a capture
recorded, compiler ok -/
theorem C15_example_inside_envelope :
    let prog := Items.ofList [.funD 20 1 [(12, 2)] (Items.ofList [
      .letD 10 3 .nil,
      .letD 13 4 (Items.ofList [.lam [(15, 5)] (Items.ofList [.use 10, .use 15])]),
      .forD 11 6 (Items.ofList [.use 10, .lam [] (Items.ofList [.use 12, .forD 11 7 (Items.ofList [.use 13]) .nil])])
        (Items.ofList [.use 11, .use 10]),
      .block (Items.ofList [.catchD 14 8 50 (Items.ofList [.use 14, .use 50])])])]
    let g : Name → Bool := fun n => n == 50
    sep prog = true ∧
    (resolve g (resolverEvents prog)).errors = 0 ∧ (resolve g (resolverEvents prog)).unhoisted = 0 ∧
    (resolve g (resolverEvents prog)).captured ≠ [] ∧
    (compileAfter g (resolverEvents prog) (compilerEvents prog)).ok = true := example_inside_envelope

/-- **witness (defect D151)** `for x in x {}`: resolver clean, compiler reaches `panic!("Symbol x not found …")` -/
theorem C15_witness_for_iter_sees_item :
    let prog := Items.ofList [.forD 10 1 (Items.ofList [.use 10]) .nil]
    (resolve noGlobals (resolverEvents prog)).errors = 0 ∧ (resolve noGlobals (resolverEvents prog)).unhoisted = 0 ∧
    (compileAfter noGlobals (resolverEvents prog) (compilerEvents prog)).ok = false ∧ sep prog = false := witness_for_self

/-- **witness (defect D151)** `catch e: e {}` -/
theorem C15_witness_catch_class_is_catch_var :
    let prog := Items.ofList [.catchD 10 1 10 .nil]
    (resolve noGlobals (resolverEvents prog)).errors = 0 ∧ (resolve noGlobals (resolverEvents prog)).unhoisted = 0 ∧
    (compileAfter noGlobals (resolverEvents prog) (compilerEvents prog)).ok = false ∧ sep prog = false := witness_catch_self

/-- **witness (defect D151)** `fn f() { let x; fn g() { for x in x {} } }`: the compiler finds the enclosing function's
never-captured `x`: `panic!("Unexpected symbol x … LocalInitialized")` -/
theorem C15_witness_for_iter_finds_uncaptured_outer_local :
    let prog := Items.ofList [.funD 20 1 [] (Items.ofList [.letD 10 2 .nil,
      .funD 21 3 [] (Items.ofList [.forD 10 4 (Items.ofList [.use 10]) .nil])])]
    (resolve noGlobals (resolverEvents prog)).errors = 0 ∧ (resolve noGlobals (resolverEvents prog)).unhoisted = 0 ∧
    (compileAfter noGlobals (resolverEvents prog) (compilerEvents prog)).ok = false ∧ sep prog = false := witness_for_shadow
end ContractExamples

/-! ## The full statement (not proved) -/

/-- what a front end answers -/
inductive Outcome where
  | program (code : List Nat)            -- a runnable program
  | diagnostics (n : Nat)                -- `n` diagnostics, compile-error status, nothing executed

/-- The full property, as a statement about the REAL front end seen as a (total: terminating, non-crashing) function
from texts to outcomes.  It is not provable here: only the scanner, the progress of the declaration loop, the narrowing
guards and the resolver ⇒ compiler lookup contract are modelled; the parser's grammar and the code generator are
sampled by the malformed-input stream. -/
def C15_full (frontEnd : List Char → Outcome) : Prop :=
  ∀ text : List Char, match frontEnd text with
    | .program _ => True
    | .diagnostics n => 0 < n

end LaytheVerif.C15
