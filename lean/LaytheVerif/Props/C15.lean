import LaytheVerif.Gen.Tokens
import LaytheVerif.Gen.FrontLimits
import LaytheVerif.Model.Scanner
import LaytheVerif.Model.FrontEnd
import LaytheVerif.Lemmas.ScannerTotal
import LaytheVerif.Lemmas.ParserLoop
import LaytheVerif.Model.Contract
import LaytheVerif.Lemmas.ContractOrder
import LaytheVerif.Model.LoopDepth
import LaytheVerif.Lemmas.LoopDepth
/-!
# C15 — the front end is total: any text yields a program or diagnostics, never a crash

What is proved here (models: `Model/Scanner.lean`, `Model/FrontEnd.lean`; generated tables: `Gen/Tokens.lean`,
`Gen/FrontLimits.lean`):

* `C15_scanner_total`            scanner: terminates on every input, exactly one EOF (last), spans inside the input on
                                 character boundaries, non-empty, disjoint and increasing; `C15_unterminated_*`
* `C15_sync_progress`, `C15_parse_terminates`   each iteration of the declaration loop, error recovery included, consumes
                                 a token; parsing terminates for every grammar oracle
* `C15_parser_shape_gen` [G]     the facts of parser.rs the loop model relies on, over the regenerated table
* `C15_loop_depth_balanced`, `C15_break_only_inside_loops`   the parser's `loop_depth` is restored by every call on
                                 every path (success, failure, error recovery) and never underflows; on a text without
                                 diagnostics the compiler's `expect("Parser should have caught the loop constraint")` is not
                                 reached (`Model/LoopDepth.lean`); `C15_loop_depth_gen` [G] ties every mention of `loop_depth` /
                                 `loop_attributes` and the save/restore shapes to the Rust text
* `C15_limits_guarded` [G]       every `as u8` / `as u16` of the compiler is dominated by a guard with a sufficient bound
                                 (or saturates), except the listed `knownUnguarded` site, which is shown to be unguarded;
                                 `C15_label_limit_gen` [G]: too many labels in one function is a diagnostic
* `C15_resolve_then_compile_total_events`       resolver clean ⇒ no lookup `panic!`/`expect` in the compiler, over all
                                 scoping-event sequences
* `C15_resolve_then_compile_total_ast`          the same at AST level in the two real traversal orders, for EVERY program of
                                 the scoping skeleton (no envelope); `C15_scope_order_gen` [G] ties the order of the
                                 scoping actions of `for_` / `try_` / `catch` in resolver.rs and compiler/mod.rs to the model

`C15_full` (below) is the full statement; it is not proved: the parser's grammar (~2 300 lines) and the compiler's code
generation are sampled by the malformed-input stream of `vlib/props/c15.py`, not modelled.
-/
namespace LaytheVerif.C15
open LaytheVerif LaytheVerif.Gen

/-! ## Scanner -/

open LaytheVerif.Scanner in
/-- **C15_scanner_total.**  For every input the model scanner (total by construction; `scan` iterates `scan_token`
with fuel `length + 1`) yields `body ++ [eof]` where `eof` is the only `Eof` token and spans
`[current, current_offset())`; every other token is non-empty, lies inside the input (positions are character
indices, hence on character boundaries), and the tokens are disjoint and increasing. -/
theorem C15_scanner_total (input : List Char) :
    ∃ body eof, scan input = body ++ [eof] ∧ eof.kind = .Eof ∧
      eof.start = input.length - 1 ∧ eof.stop = off input.length ∧
      (∀ t ∈ body, t.kind ≠ .Eof ∧ t.start < t.stop ∧ t.stop ≤ input.length) ∧
      body.Pairwise (fun a b => a.stop ≤ b.start) := by
  obtain ⟨body, eof, h1, h2, h3, h4, h5, h6⟩ := (scan_ok input).shape
  exact ⟨body, eof, h1, h2, h3, h4, fun t ht => ⟨(h5 t ht).1, (h5 t ht).2.2.1, (h5 t ht).2.2.2⟩, h6⟩

open LaytheVerif.Scanner in
/-- The fuel of `scan` is never the reason it stops: every `scan_token` that does not return `Eof` consumes input. -/
theorem C15_scanner_progress (s : St) (h : (scanToken s).1.kind ≠ .Eof) :
    (scanToken s).2.rest.length < s.rest.length := scanToken_progress s h

/-- byte offset of a character index (what the Rust scanner reports): sum of the UTF-8 sizes of the prefix -/
def byteOff (input : List Char) (k : Nat) : Nat := ((input.take k).map Char.utf8Size).sum

theorem byteOff_mono (input : List Char) (a b : Nat) (h : a ≤ b) : byteOff input a ≤ byteOff input b := by
  induction input generalizing a b with
  | nil => simp [byteOff]
  | cons c r ih =>
    cases a with
    | zero => simp [byteOff]
    | succ a =>
      cases b with
      | zero => omega
      | succ b =>
        have := ih a b (by omega)
        simp only [byteOff, List.take_succ_cons, List.map_cons, List.sum_cons] at *
        omega

open LaytheVerif.Scanner in
/-- Reaching the end of the input inside a string literal — in the body, after a backslash, inside `\u{…` — always
produces an error token. -/
theorem C15_unterminated_string_is_error (q : Char) (kind : TokenKind) (m : SMode) (k : Nat) (ls : List Nat) :
    (strLoop q kind m [] k ls).kind = .Error := strLoop_end_is_error q kind m k ls

open LaytheVerif.Scanner in
/-- A string whose body has no closing quote (and no escape / interpolation) is one "Unterminated string." token that
extends to the end of the input. -/
theorem C15_unterminated_plain_string (q : Char) (kind : TokenKind) (body : List Char) (k : Nat) (ls : List Nat)
    (h : ∀ c ∈ body, c ≠ q ∧ c ≠ '\\' ∧ c ≠ '$') :
    (strLoop q kind .str body k ls).kind = .Error ∧ (strLoop q kind .str body k ls).err = some .unterminatedString ∧
    (strLoop q kind .str body k ls).rest = [] ∧ (strLoop q kind .str body k ls).k = k + body.length :=
  strLoop_unterminated q kind body k ls h

section ScannerExamples
open LaytheVerif.Scanner
private def kinds (s : String) : List TokenKind := (scan s.toList).map (·.kind)
private def spans (s : String) : List (Nat × Nat) := (scan s.toList).map fun t => (t.start, t.stop)

/-- non-vacuity: a real program text -/
example : kinds "let x = \"a${1}b\"; // c" =
    [.Let, .Identifier, .Equal, .StringStart, .Number, .StringEnd, .Semicolon, .Eof] := by decide
example : spans "let é=1;" = [(0, 3), (4, 5), (5, 6), (6, 7), (7, 8), (7, 8)] := by decide
/-- unterminated string ⇒ error token -/
example : kinds "x = \"abc" = [.Identifier, .Equal, .Error, .Eof] := by decide
/-- an unterminated *interpolation* is not an error of the scanner (the parser reports it) -/
example : kinds "\"a${1 +" = [.StringStart, .Number, .Plus, .Eof] := by decide
/-- wart mirrored: while nothing has been consumed `current_offset()` is 1: the EOF token of the empty text is
`[0, 1)` (outside the text) … -/
example : scan [] = [⟨.Eof, 0, 1, none⟩] := by decide
/-- … and the comment look-ahead of the very first `/` examines the third character: `/a/ b` scans as a comment -/
example : kinds "/a/ b" = [.Eof] := by decide
example : kinds "x /a/ b" = [.Identifier, .Slash, .Identifier, .Slash, .Identifier, .Eof] := by decide
end ScannerExamples

/-- [G] the character classes in scanner.rs are the ones the model uses -/
theorem C15_char_classes_gen : Gen.charClassText = Gen.charClassExpected := by decide

/-- [G] the keyword table extracted from the trie: no keyword maps to a meta token, all keywords are distinct -/
theorem C15_keywords_gen :
    (∀ kw ∈ Gen.keywords, kw.2 ≠ .Eof ∧ kw.2 ≠ .Error ∧ kw.2 ≠ .Identifier) ∧
    (Gen.keywords.map (·.1)).Nodup ∧ Gen.keywords.length = 27 := by decide

/-! ## Declaration loop -/

open LaytheVerif.FrontEnd in
/-- **C15_sync_progress.**  Whatever the grammar of a declaration does (oracle `o`), one iteration of the declaration
loop — `decl()` including `synchronize` on error — returns (the fuel of `synchronize` suffices) and has consumed at
least one token. -/
theorem C15_sync_progress (o : Oracle) (p : PState) (h : p.cur ≠ .Eof) :
    ∃ r, decl o p = some r ∧ r.1.mu < p.mu := decl_progress o p h

open LaytheVerif.FrontEnd in
/-- Parsing terminates on every token stream, for every grammar oracle. -/
theorem C15_parse_terminates (o : Oracle) (toks : List TokenKind) : ∃ r, parse o toks = some r := parse_total o toks

/-- [G] what the loop model assumes about parser.rs, over the regenerated table: every arm of `decl`/`stmt` starts with
`advance()` or delegates (`_ => stmt()`, `_ => expr_stmt()`), `expr_stmt → expr → parse_precedence → advance()?`,
`advance()` shifts unconditionally, the loops have the modelled shape, `synchronize` continues after `Semicolon`, stops
at 16 kinds all of which are token kinds, never stops at `Eof`. -/
theorem C15_parser_shape_gen :
    (∀ a ∈ Gen.parserArms, a.2.2 = "advance" ∨ (a.2.1 = "_" ∧ (a = ("decl", "_", "stmt") ∨ a = ("stmt", "_", "expr_stmt")))) ∧
    Gen.exprChain = [("expr_stmt", "expr"), ("expr", "parse_precedence"), ("parse_precedence", "advance")] ∧
    Gen.advanceShifts = true ∧ Gen.declLoopShape = (true, true) ∧ Gen.syncContinuesAfter = "Semicolon" ∧
    (∀ s ∈ Gen.syncStops, s ∈ Gen.tokenKinds.map TokenKind.name) ∧ ¬ "Eof" ∈ Gen.syncStops ∧ ¬ "Error" ∈ Gen.syncStops ∧
    Gen.syncStops.length = 16 := by decide

section LoopExamples
open LaytheVerif.FrontEnd
/-- non-vacuity: `) ; ] ; let` — the first declaration fails at `)`, `synchronize` skips to `let`, the oracle fails
again, recovery runs to the end: the loop returns. -/
example : (parse ⟨fun _ => 0, fun _ => true⟩ [.RightParen, .Semicolon, .RightBracket, .Semicolon, .Let, .Eof]).isSome = true := by
  decide
/-- an error token inside recovery aborts the parse with `Err` (second component `false`) -/
example : (parse ⟨fun _ => 0, fun _ => true⟩ [.RightParen, .Semicolon, .Error, .Let, .Eof]).map (·.2) = some false := by decide
end LoopExamples

/-! ## `loop_depth` (`Model/LoopDepth.lean`, `Lemmas/LoopDepth.lean`) -/

open LaytheVerif.LoopDepth in
/-- **C15_loop_depth_balanced.**  Every parser call — whatever it contains, whether it succeeds or fails, whatever
`synchronize` recovered inside — returns with the `loop_depth` it was entered with, and `loop_depth -= 1` is never
executed at 0 (the debug panic "attempt to subtract with overflow" of `loop_`, repaired defect D21, is unreachable). -/
theorem C15_loop_depth_balanced (c : Call) (s : PS) :
    (c.run s).1.depth = s.depth ∧ (c.run s).1.underflow = s.underflow := Call.run_balanced c s

open LaytheVerif.LoopDepth in
/-- … in particular a whole parse (sequence of declarations from the initial state) never underflows and ends at depth 0 -/
theorem C15_loop_depth_never_underflows (prog : Calls) :
    (prog.run {}).1.underflow = false ∧ (prog.run {}).1.depth = 0 :=
  ⟨(Calls.run_balanced prog {}).2, (Calls.run_balanced prog {}).1⟩

open LaytheVerif.LoopDepth in
/-- **C15_break_only_inside_loops.**  If a text parses without a diagnostic then every `break`/`continue` the compiler
visits sits in the body of a loop of the same function/lambda: `loop_attributes` is `Some`, the
`expect("Parser should have caught the loop constraint")` of `Compiler::break_`/`continue_` (repaired defect D152) is not
reached.  `gram` is the grammar fact that `break`/`continue` are statements and expressions contain statements only
inside bodies of function literals. -/
theorem C15_break_only_inside_loops (prog : Calls) (hg : prog.gram false = true)
    (hok : (prog.run {}).2 = true) (hd : (prog.run {}).1.diags = 0) : prog.comp false = true :=
  Calls.comp_ok prog {} false false hg (fun _ => rfl) hok hd

/-- [G] parser.rs / compiler/mod.rs: every mention of `loop_depth` and of `loop_attributes` is one of the modelled
actions, `loop_` is `inc; cb; dec`, `function` and `lambda` zero the depth after their signature and restore it on every
path (the body result is bound, no `?`/`return` in between), `break_`/`continue_` check first, only `for_` and `while_`
use `loop_`, `decl()` (`.or_else(synchronize)`, which pushes the diagnostic) is the only place where a failed parse
continues, a fresh compiler starts outside of any loop, the two `expect`s are the only consumers. -/
theorem C15_loop_depth_gen :
    Gen.loopDepthSites = [("-", "field"), ("new", "init0"), ("loop_", "inc"), ("loop_", "dec"), ("continue_", "check0"),
      ("break_", "check0"), ("lambda", "save0"), ("lambda", "restore"), ("function", "save0"), ("function", "restore")] ∧
    (∀ r ∈ Gen.loopDepthShape, r.2 = true) ∧ Gen.loopDepthShape.length = 7 ∧
    Gen.loopUsers = ["for_", "while_"] ∧ Gen.errorCatchers = ["decl"] ∧
    Gen.loopAttrSites = [("-", "field"), ("new", "none"), ("child", "none"), ("loop_scope", "replace"), ("loop_scope", "restore"),
      ("continue_", "expect"), ("break_", "expect")] := by decide

section LoopDepthExamples
open LaytheVerif.LoopDepth
/-- non-vacuity: `while c { break; let f = || { for x in (|| 1) { continue; } }; fn g( … }` without the failing `fn`:
a loop with a `break`, a lambda with its own loop and `continue` — parses clean, compiles -/
example :
    let t := Calls.ofList [.decl (Calls.ofList [.loop .nil (Calls.ofList [.decl (Calls.ofList [.brk]) true,
      .decl (Calls.ofList [.node (Calls.ofList [.fn .nil (Calls.ofList [.decl (Calls.ofList [
        .loop (Calls.ofList [.fn .nil .nil]) (Calls.ofList [.decl (Calls.ofList [.brk]) true])]) true])])]) true])]) true]
    t.gram false = true ∧ t.run {} = ({}, true) ∧ t.comp false = true := by decide

/-- **regression (repaired defect D21, repo 23aed49)** `while c { fn f( <syntax error> … }`: the old `function` zeroed the
depth before the signature and restored it only on success: after recovery the enclosing `loop_` decrements at 0; the
present code reports one diagnostic and ends balanced -/
theorem C15_regress_function_failure_restores_depth :
    let t := Calls.ofList [.decl (Calls.ofList [.loop .nil (Calls.ofList [.decl (Calls.ofList [.fn (Calls.ofList [.fail]) .nil]) true])]) true]
    (t.runOld false {}).1.underflow = true ∧ t.run {} = ({ diags := 1 }, true) := by decide

/-- **regression (repaired defect D152, repo a54a572)** `while c { (|| { break; }); }`: the old `lambda` kept the
enclosing depth: the text parsed clean and the lambda's compiler reached the `expect`; the present parser rejects it -/
theorem C15_regress_lambda_resets_depth :
    let t := Calls.ofList [.decl (Calls.ofList [.loop .nil (Calls.ofList [.decl (Calls.ofList [.node (Calls.ofList [
      .fn .nil (Calls.ofList [.decl (Calls.ofList [.brk]) true])])]) true])]) true]
    t.gram false = true ∧ t.runOld true {} = ({}, true) ∧ t.comp false = false ∧ t.run {} = ({ diags := 1 }, true) := by decide
end LoopDepthExamples

/-! ## Narrowing sites -/

/-- the largest operand value that can reach the narrowing without a diagnostic having been reported / outside the
guarded branch; `none` = no guard.  A guard `if q + g CMP bound { error }` lets through `q ≤ bound - g` (for `==`/`>=` the
counter is compared at every increment, for `>` the check dominates the narrowing); the operand is `q + addend`. -/
def admittedMax (s : NarrowSite) : Option Nat :=
  match s.guard, s.cmp with
  | .error, .eq => some (s.bound - s.guardAddend + s.addend)
  | .error, .ge => some (s.bound - s.guardAddend + s.addend)
  | .error, .gt => some (s.bound - s.guardAddend + s.addend)
  | .branch, .le => some (s.bound + s.addend)
  | .branch, .lt => some (s.bound - 1 + s.addend)
  | .clamp, .le => some s.bound                     -- the operand is `(…).min(bound)`
  | _, _ => none

def siteGuarded (s : NarrowSite) : Bool :=
  match admittedMax s with
  | some m => m ≤ s.targetMax
  | none => false

/-- Narrowing sites that are NOT protected by the source text.  `handler_slots`: `(slots + params) as u16` in
`apply_stack_effects` (marked TODO in the source) — not reachable: `try` is a statement, the depth there is the number
of locals in scope (≤ 256, see `local_slot`) plus parameters (≤ 255, see `arity`) plus loop temporaries.
(`line_number` — `line as u16 + 1`, defect D153 — and `interpolate_count` — guard bound 65535 for an operand
`segments + 2`, defect D155 — were listed here until repo commits 3eaeafb and f23bea6.) -/
def knownUnguarded : List String := ["handler_slots"]

/-- **C15_limits_guarded** [G]: over the regenerated table, every narrowing site is dominated by a guard whose bound
(corrected by the constants added on either side) fits the target type, or saturates at a value that fits — or is the
listed unguarded site. -/
theorem C15_limits_guarded :
    ∀ s ∈ Gen.narrowSites, siteGuarded s = true ∨ s.id ∈ knownUnguarded := by decide

/-- every listed site really is unguarded in the table (so the list cannot silently rot) -/
theorem C15_known_unguarded_are_unguarded :
    ∀ i ∈ knownUnguarded, ∃ s ∈ Gen.narrowSites, s.id = i ∧ siteGuarded s = false := by decide

/-- [G] the two repaired sites, as they are now: the line number saturates at 65535 (`(line + 1).min(u16::MAX)`), and the
interpolation guard counts the start and the end of the string (`segments.len() + 2 > u16::MAX`), so the operand
`segments + 2` of `Interpolate` is at most 65535 -/
theorem C15_repaired_sites_gen :
    (∃ s ∈ Gen.narrowSites, s.id = "line_number" ∧ s.guard = .clamp ∧ admittedMax s = some 65535) ∧
    (∃ s ∈ Gen.narrowSites, s.id = "interpolate_count" ∧ s.guard = .error ∧ s.guardAddend = s.addend ∧
      admittedMax s = some 65535) := by decide

/-- [G] `peephole_compile`: more than 65535 labels in one function is reported as a diagnostic (`return Err(…)`), not a
host panic (`todo!()` until repo commit d9eb4e4, defect D154) -/
theorem C15_label_limit_gen : Gen.labelLimit = (65535, "diagnostic") := by decide

/-- [G] the numeric limits of the front end (a changed bound re-opens this) -/
theorem C15_limits_table_gen :
    Gen.limits = [("arguments", 255), ("captures", 255), ("constantIndex", 255), ("constants", 65535), ("fields", 65535),
      ("interpolationSegments", 65533), ("jumpDistance", 65535), ("listItems", 65535), ("locals", 255), ("mapEntries", 65535),
      ("moduleSymbols", 65535), ("parameters", 255), ("tupleItems", 65535)] ∧ Gen.narrowSites.length = 20 := by decide

/-- [G] resolver.rs: in every function body each `declare_variable(x)` is followed by `define_variable(x)`: no symbol
is left `Uninitialized` in a finished table (the `Uninitialized` panic arms of `variable_get`/`variable_set` need this). -/
theorem C15_resolver_declare_define_gen : ∀ r ∈ Gen.resolverDeclareDefine, r.2.2.2 = true ∧ r.2.1 = r.2.2.1 := by decide

/-! ## Resolver ⇒ compiler (`Model/Contract.lean`, `Lemmas/ContractSep.lean`) -/

open LaytheVerif.Contract in
/-- **C15_resolve_then_compile_total** over scoping events: for every event sequence, if the resolver run is clean then
every lookup of the compiler run over the same events (`resolve_local → resolve_capture → module table`,
`load_module_variable`) succeeds and never finds a non-captured local of an enclosing function: the
`panic!("Symbol … not found")`, `panic!("Unexpected symbol … with state …")` and `expect("Expected symbol.")` sites are
not reached. -/
theorem C15_resolve_then_compile_total_events (isGlobal : Name → Bool) (es : List Ev)
    (herr : (resolve isGlobal es).errors = 0) (hh : (resolve isGlobal es).unhoisted = 0) :
    (compileAfter isGlobal es es).ok = true := resolve_then_compile_events isGlobal es herr hh

open LaytheVerif.Contract in
/-- **C15_resolve_then_compile_total_ast.**  AST level, in the two REAL traversal orders (`Item.revs` = resolver.rs,
`Item.cevs` = compiler/mod.rs), for EVERY program of the scoping skeleton: a clean resolver run implies a panic-free
compiler run.  No envelope: since resolver.rs visits the iterable of a `for` before declaring the loop variable and
the class of a `catch` before declaring the catch variable (repo commits 22c8429, b3a40ba) the two traversals differ
only in the position of `define` events.  **Partial** only with respect to the real front end: the skeleton `Item` has
`let`, `fn`, lambdas, blocks, `for`, `catch`; classes (`self`/`super` scopes), imports/exports and the REPL fallbacks are
not in it, and that the real passes perform exactly these events is checked by the contract stream (and, for the order
of the actions of `for_`/`try_`/`catch`, by `C15_scope_order_gen`), not proved. -/
theorem C15_resolve_then_compile_total_ast (isGlobal : Name → Bool) (prog : Items)
    (herr : (resolve isGlobal (resolverEvents prog)).errors = 0)
    (hh : (resolve isGlobal (resolverEvents prog)).unhoisted = 0) :
    (compileAfter isGlobal (resolverEvents prog) (compilerEvents prog)).ok = true :=
  resolve_then_compile_ast isGlobal prog herr hh

open LaytheVerif.Contract in
/-- the compiler cannot tell the two traversal orders apart: same final state for every module table and oracle -/
theorem C15_traversal_orders_agree (mods : List Name) (cap : Id → Bool) (prog : Items) :
    compile mods cap (resolverEvents prog) = compile mods cap (compilerEvents prog) :=
  compile_orders_agree mods cap prog

open LaytheVerif.Contract in
/-- the two traversals perform the same declarations, scope brackets and lookups in the same order -/
theorem C15_traversals_same_events (prog : Items) :
    eraseDefs (Items.revs prog) = eraseDefs (Items.cevs prog) := Items.eraseDefs_revs prog

section ScopeOrder
open LaytheVerif.Contract
/-- the label of a scoping event of the probes below, in the vocabulary of `Gen.scopeOrder` (`endScope` has no
counterpart in the text: scopes are closures) -/
private def label : Ev → List String
  | .beginScope => ["scope"]
  | .use 20 => ["iter"]
  | .use 21 => ["class"]
  | .use _ => ["body"]
  | .declare n _ => if n = nIter then ["declare $iter"] else if n = 10 then ["declare item"] else ["declare var"]
  | .define n => if n = nIter then ["define $iter"] else if n = 10 then ["define item"] else ["define var"]
  | _ => []

/-- `for v10 in v20 { v30 }` and `catch v11: v21 { v30 }` -/
private def forProbe : Item := .forD 10 1 (Items.ofList [.use 20]) (Items.ofList [.use 30])
private def catchProbe : Item := .catchD 11 1 21 (Items.ofList [.use 30])

/-- **C15_scope_order_gen** [G]: the order in which `Resolver::for_`, `Resolver::try_` + `catch`, `Compiler::for_`,
`Compiler::try_` + `catch` perform their scoping actions — read off the Rust text by the translator — is the order of
the events of the model's traversals `Item.revs` / `Item.cevs`.  (The resolver opens the catch scope in `try_`, the
compiler in `catch`.)  Moving a `declare_variable` in front of the visit of the iterable / the lookup of the class in
either pass re-opens this. -/
theorem C15_scope_order_gen :
    Gen.scopeOrder.lookup "resolver.for_" = some ((Item.revs forProbe).flatMap label) ∧
    Gen.scopeOrder.lookup "compiler.for_" = some ((Item.cevs forProbe).flatMap label) ∧
    Gen.scopeOrder.lookup "resolver.try_" = some ["scope", "body", "scope", "catch"] ∧
    (Gen.scopeOrder.lookup "resolver.catch").map ("scope" :: ·) = some ((Item.revs catchProbe).flatMap label) ∧
    Gen.scopeOrder.lookup "compiler.try_" = some ["scope", "body", "catch"] ∧
    Gen.scopeOrder.lookup "compiler.catch" = some ((Item.cevs catchProbe).flatMap label) := by decide
end ScopeOrder

section ContractExamples
open LaytheVerif.Contract
private def noGlobals : Name → Bool := fun _ => false
/-- the resolver does reject what it should: use of an undeclared name, self-initialisation in a local scope,
a duplicate declaration -/
example : (resolve noGlobals (resolverEvents (Items.ofList [.use 99]))).errors = 1 := by decide
example : (resolve noGlobals (resolverEvents (Items.ofList [.block (Items.ofList [.letD 11 1 (Items.ofList [.use 11])])]))).errors = 1 := by
  decide
example : (resolve noGlobals (resolverEvents (Items.ofList [.block (Items.ofList [.letD 11 1 .nil, .letD 11 2 .nil])]))).errors = 1 := by
  decide

/-- non-vacuity of the theorem's hypotheses: a closure capturing an outer local, a `for` whose iterable reads an outer
variable named like the loop variable and contains a capturing lambda with a nested `for`, a `catch` with a global
class and one whose variable is named like its class — resolver clean, a capture recorded, compiler ok -/
theorem C15_example_contract :
    let prog := Items.ofList [.funD 20 1 [(12, 2)] (Items.ofList [
      .letD 10 3 .nil,
      .letD 11 9 .nil,
      .letD 13 4 (Items.ofList [.lam [(15, 5)] (Items.ofList [.use 10, .use 15])]),
      .forD 11 6 (Items.ofList [.use 11, .lam [] (Items.ofList [.use 12, .use 11, .forD 11 7 (Items.ofList [.use 13]) .nil])])
        (Items.ofList [.use 11, .use 10]),
      .block (Items.ofList [.catchD 14 8 50 (Items.ofList [.use 14, .use 50]), .catchD 50 10 50 (Items.ofList [.use 50])])])]
    let g : Name → Bool := fun n => n == 50
    (resolve g (resolverEvents prog)).errors = 0 ∧ (resolve g (resolverEvents prog)).unhoisted = 0 ∧
    (resolve g (resolverEvents prog)).captured ≠ [] ∧
    (compileAfter g (resolverEvents prog) (compilerEvents prog)).ok = true := example_contract

/-- **regression (repaired defect D151)** `for x in x {}`: the iterable is resolved before `x` exists: a diagnostic
(the old order gave a clean resolver run and a compiler panic "Symbol x not found") -/
theorem C15_regress_for_iter_does_not_see_item :
    (resolve noGlobals (resolverEvents (Items.ofList [.forD 10 1 (Items.ofList [.use 10]) .nil]))).errors = 1 := regress_for_self

/-- **regression (D151)** `catch e: e {}`: a diagnostic -/
theorem C15_regress_catch_class_is_not_catch_var :
    (resolve noGlobals (resolverEvents (Items.ofList [.catchD 10 1 10 .nil]))).errors = 1 := regress_catch_self

/-- **regression (D151 / D31)** `fn f() { let x; fn g() { for x in x {} } }`: the iterable's `x` is the enclosing
function's local, now marked captured; resolver clean, compiler ok -/
theorem C15_regress_for_iter_captures_outer_local :
    let prog := Items.ofList [.funD 20 1 [] (Items.ofList [.letD 10 2 .nil,
      .funD 21 3 [] (Items.ofList [.forD 10 4 (Items.ofList [.use 10]) .nil])])]
    (resolve noGlobals (resolverEvents prog)).errors = 0 ∧ (resolve noGlobals (resolverEvents prog)).unhoisted = 0 ∧
    (resolve noGlobals (resolverEvents prog)).captured = [2] ∧
    (compileAfter noGlobals (resolverEvents prog) (compilerEvents prog)).ok = true := regress_for_shadow
end ContractExamples

/-! ## The full statement (not proved) -/

/-- what a front end answers -/
inductive Outcome where
  | program (code : List Nat)            -- a runnable program
  | diagnostics (n : Nat)                -- `n` diagnostics, compile-error status, nothing executed

/-- The full property, as a statement about the REAL front end seen as a (total: terminating, non-crashing) function
from texts to outcomes.  It is not provable here: only the scanner, the progress of the declaration loop, the narrowing
guards and the resolver ⇒ compiler lookup contract are modelled; the parser's grammar and the code generator are
sampled by the malformed-input stream. -/
def C15_full (frontEnd : List Char → Outcome) : Prop :=
  ∀ text : List Char, match frontEnd text with
    | .program _ => True
    | .diagnostics n => 0 < n

end LaytheVerif.C15
