import LaytheVerif.Model.Scope
import LaytheVerif.Model.ScopeSpec
import LaytheVerif.Model.ScopeMachine
import LaytheVerif.Lemmas.ScopeRes
/-!
`drv_scope`: line-protocol driver of the C02 models.  One program (S-expression) per stdin line, one
answer line per program, three tab-separated parts:

* `P <status>|<fun>|<fun>…`   the model front end (resolver + compiler): per finished function, in
  completion order, `name:ev;ev;…` with the scope-relevant instructions;
* `S <status>|<out>,<out>…`   the Spec interpreter (cell environments): printed lines;
* `M <status>|<out>,<out>…`   the slot/box/capture machine run on the model's access paths;
* `X <ok | what disagrees>`   self-checks of the model on this program (resolver resolution =
  `Spec.lookup`, emitted paths designate `Spec.lookup`, table symbol = binder).
-/
open LaytheVerif.Scope

inductive SExp | atom (s : String) | list (l : List SExp)
  deriving Inhabited

partial def parseS : List String → Option (SExp × List String)
  | [] => none
  | "(" :: rest =>
    let rec go (acc : List SExp) (ts : List String) : Option (SExp × List String) :=
      match ts with
      | [] => none
      | ")" :: r => some (.list acc.reverse, r)
      | _ => match parseS ts with
        | some (e, r) => go (e :: acc) r
        | none => none
    go [] rest
  | ")" :: _ => none
  | a :: rest => some (.atom a, rest)

def tokenize (s : String) : List String :=
  (((s.replace "(" " ( ").replace ")" " ) ").splitOn " ").filter (· ≠ "")

def opKind (s : String) : Option OpKind :=
  match s.splitOn ":" with
  | ["add"] => some .add | ["sub"] => some .sub | ["mul"] => some .mul | ["lt"] => some .lt
  | ["eq"] => some .eq | ["not"] => some .not | ["call"] => some .call | ["list"] => some .list
  | ["index"] => some .index | ["push"] => some .push | ["len"] => some .len
  | ["getF", f] => some (.getF f) | ["setF", f] => some (.setF f) | ["invoke", m] => some (.invoke m)
  | ["exprS"] => some .exprS | ["ret"] => some .ret | ["raise"] => some .raise
  | _ => none

def funKind : String → Option FunKind
  | "fn" => some .fn | "method" => some .method | "init" => some .init | "static" => some .static
  | _ => none

def parseParams : List SExp → Option (List Param)
  | [] => some []
  | .list [.atom d, .atom x] :: rest => do
    let d ← d.toNat?
    let ps ← parseParams rest
    pure ({ d := d, name := x } :: ps)
  | _ => none

def chain : List Tm → Tm
  | [] => .nil
  | t :: ts => .seq t (chain ts)

partial def toTm : SExp → Option Tm
  | .atom "nil" => some .nil
  | .list (.atom "b" :: items) => do
    let ts ← items.mapM toTm
    pure (chain ts)
  | .list [.atom "lit", .atom n] => n.toInt?.map .lit
  | .list [.atom "str", .atom s] => some (.str s)
  | .list [.atom "nil"] => some .nilE
  | .list [.atom "letn", .atom d, .atom x] => d.toNat?.map (fun d => .letN d x)
  | .list [.atom "var", .atom o, .atom x] => o.toNat?.map (fun o => .var o x)
  | .list [.atom "assign", .atom o, .atom x, e] => do
    let o ← o.toNat?
    let e ← toTm e
    pure (.assign o x e)
  | .list (.atom "op" :: .atom k :: args) => do
    let k ← opKind k
    let ts ← args.mapM toTm
    pure (.op k (chain ts))
  | .list [.atom "lam", .atom d0, .list (.atom "params" :: ps), body] => do
    let d0 ← d0.toNat?
    let ps ← parseParams ps
    let b ← toTm body
    pure (.lam [] d0 ps b)
  | .list [.atom "let", .atom d, .atom x, e] => do
    let d ← d.toNat?
    let e ← toTm e
    pure (.letS d x e)
  | .list [.atom "fn", .atom d, .atom f, .atom d0, .list (.atom "params" :: ps), body] => do
    let d ← d.toNat?
    let d0 ← d0.toNat?
    let ps ← parseParams ps
    let b ← toTm body
    pure (.fnS d f [] d0 ps b)
  | .list [.atom "if", c, t, e] => do
    let c ← toTm c
    let t ← toTm t
    let e ← toTm e
    pure (.ifS c [] t [] e)
  | .list [.atom "while", c, b] => do
    let c ← toTm c
    let b ← toTm b
    pure (.whileS c [] b)
  | .list [.atom "for", .atom dIter, .atom d, .atom x, iter, b] => do
    let dIter ← dIter.toNat?
    let d ← d.toNat?
    let iter ← toTm iter
    let b ← toTm b
    pure (.forS [] dIter d x iter [] b)
  | .list [.atom "try", b, .atom d, .atom x, .atom o, .atom cn, c] => do
    let b ← toTm b
    let d ← d.toNat?
    let o ← o.toNat?
    let c ← toTm c
    pure (.tryS [] b [] d x o cn [] c)
  | .list [.atom "class", .atom d, .atom c, .atom oSup, .atom sup, .atom oName, .atom dSuper, ms] => do
    let d ← d.toNat?
    let oSup ← oSup.toNat?
    let oName ← oName.toNat?
    let dSuper ← dSuper.toNat?
    let ms ← toTm ms
    pure (.classS d c oSup sup oName [] dSuper ms)
  | .list [.atom "method", .atom k, .atom m, .atom d0, .list (.atom "params" :: ps), body] => do
    let k ← funKind k
    let d0 ← d0.toNat?
    let ps ← parseParams ps
    let b ← toTm body
    pure (.method k m [] d0 ps b)
  | _ => none

def parseTm (line : String) : Option Tm :=
  match parseS (tokenize line) with
  | some (e, []) => toTm e
  | _ => none

def showCap : CapIdx → String
  | .loc s => s!"L{s}"
  | .enc i => s!"E{i}"

def showEv : Ev → String
  | .get (.local s) => s!"GL {s}" | .set (.local s) => s!"SL {s}"
  | .get (.box s) => s!"GB {s}" | .set (.box s) => s!"SB {s}"
  | .get (.capture i) => s!"GC {i}" | .set (.capture i) => s!"SC {i}"
  | .get (.modsym k) => s!"GM {k}" | .set (.modsym k) => s!"SM {k}"
  | .emptyBox => "EB" | .fillBox => "FB" | .box s => s!"BX {s}" | .nil => "NL"
  | .closure f caps => " ".intercalate (("CL " ++ f) :: caps.map showCap)
  | .funConst f => "FN " ++ f

def showFun (f : FunRec) : String :=
  f.name ++ ":" ++ ";".intercalate (f.evs.map showEv)

def showRef : Option DeclRef → String
  | some (.decl d) => s!"d{d}"
  | some (.global x) => s!"g:{x}"
  | none => "-"

/-- model self-checks on one program -/
def selfCheck (p : Tm) (r : Resolved) (c : Compiled) : String :=
  let spec := Spec.programOccs p
  let specOf (o : Nat) : Option (Option DeclRef) := (spec.find? (·.o = o)).map (·.target)
  -- every resolver resolution designates Spec.lookup
  let bad1 := r.log.filter (fun ev => specOf ev.o ≠ some ev.target)
  -- every emitted path designates Spec.lookup
  let bad2 := c.occs.filter (fun oc => oc.path.isSome ∧ ¬ oc.ovf ∧ specOf oc.o ≠ some oc.target)
  -- order of occurrences as the Spec lists them = order of compilation
  let bad3 := decide (spec.map (·.o) ≠ c.occs.map (·.o))
  -- a local path is only ever emitted for a symbol nobody deeper mentions; its table symbol is its binder's
  let bad4 := c.occs.filter (fun oc => match oc.path, oc.sym with
    | some (.local _), some s => s.hits ≠ [] ∨ oc.target ≠ some (.decl s.decl)
    | some (.box _), some s => oc.target ≠ some (.decl s.decl)
    | some (.capture _), some s => oc.target ≠ some (.decl s.decl)
    | _, _ => false)
  -- the decidable hypotheses of the theorems of Props/C02.lean
  let hyp := namesOk p && mtOk r.modTable && treeOk r.tree
  if !hyp then s!"hypotheses namesOk={namesOk p} mtOk={mtOk r.modTable} treeOk={treeOk r.tree}"
  else if !bad1.isEmpty then "resolver-vs-lookup o=" ++ toString (bad1.map (fun e => (e.o, showRef e.target, showRef ((specOf e.o).getD none))))
  else if !bad2.isEmpty then "path-vs-lookup o=" ++ toString (bad2.map (fun e => (e.o, showRef e.target, showRef ((specOf e.o).getD none))))
  else if bad3 then "occurrence-order"
  else if !bad4.isEmpty then "local-but-mentioned-deeper o=" ++ toString (bad4.map (·.o))
  else "ok"

def answer (line : String) : String :=
  match parseTm line.trimAscii.toString with
  | none => "P bad-input\tS bad-input\tM bad-input\tX bad-input"
  | some p =>
    let r := resolve p
    let c := compile r
    let pstatus :=
      if !r.errors.isEmpty then "error:" ++ (r.errors.headD "")
      else if !c.panics.isEmpty then "panic:" ++ (c.panics.headD "")
      else if !c.errors.isEmpty then "error:" ++ (c.errors.headD "")
      else "ok"
    let ppart := "P " ++ pstatus ++ "|" ++ "|".intercalate (c.funs.map showFun)
    let (out, st) := Sem.run 20000 p
    let spart := "S " ++ st ++ "|" ++ ",".intercalate out
    let (mout, mst) := if pstatus = "ok" then Machine.run 20000 r else ([], "skipped")
    let mpart := "M " ++ mst ++ "|" ++ ",".intercalate mout
    let xpart := "X " ++ (if r.errors.isEmpty ∧ c.panics.isEmpty then selfCheck p r c else "skipped")
    ppart ++ "\t" ++ spart ++ "\t" ++ mpart ++ "\t" ++ xpart

partial def loop (h out : IO.FS.Stream) : IO Unit := do
  let line ← h.getLine
  if line.isEmpty then return ()
  out.putStrLn (answer line)
  loop h out

def main (_ : List String) : IO UInt32 := do
  loop (← IO.getStdin) (← IO.getStdout)
  return 0
