import LaytheVerif.Model.Handlers
import LaytheVerif.Model.TrySpec
import LaytheVerif.Gen.HandlerRules
/-!
`drv_handlers <engine>`: one request per line on stdin, one line per request on stdout.

* `balance` : `arity|instr;instr;...` (a POST stream of the compile dump, `@line` suffixes allowed) ↦
              verdicts of the VERIFIED checkers `checkHandlerBalance` / `checkHandlerDepth`, the
              annotation (handler height and depth per byte offset) for the probe cross-check, the
              (recorded, analysed) depth of every `PushHandler`, whether the model of
              `apply_stack_effects` of the tree at hand reproduces the recorded depths, and
              diagnostics of a rejection.
* `spec`    : an S-expression program ↦ `status<TAB>last stderr line<TAB>stdout lines (each terminated by 0x1f)`
              computed by the definitional interpreter `Model/TrySpec.lean`.
* `lower`   : `single|stack <skeleton S-expression>` ↦ the lowering model's instruction stream, the
              checker's verdict on it and the E4 envelope flag.
-/
open LaytheVerif.Gen LaytheVerif.Handlers

namespace Driver.Handlers

/-! ### S-expressions -/

inductive Sexp where
  | atom (s : String)
  | str (s : String)
  | list (l : List Sexp)
  deriving Repr, Inhabited

partial def tokenize (cs : List Char) (acc : Array String) : Array String :=
  match cs with
  | [] => acc
  | c :: rest =>
    if c == '(' || c == ')' then tokenize rest (acc.push (String.singleton c))
    else if c.isWhitespace then tokenize rest acc
    else if c == '"' then
      let (body, rest') := rest.span (· != '"')
      tokenize (rest'.drop 1) (acc.push ("\"" ++ String.ofList body))
    else
      let (body, rest') := (c :: rest).span (fun d => !(d.isWhitespace || d == '(' || d == ')'))
      tokenize rest' (acc.push (String.ofList body))

partial def parseSexp (toks : Array String) (i : Nat) : Option (Sexp × Nat) :=
  if h : i < toks.size then
    let t := toks[i]
    if t == "(" then
      let rec go (j : Nat) (acc : Array Sexp) : Option (Sexp × Nat) :=
        if h2 : j < toks.size then
          if toks[j] == ")" then some (.list acc.toList, j + 1)
          else match parseSexp toks j with
            | some (s, j') => go j' (acc.push s)
            | none => none
        else none
      go (i + 1) #[]
    else if t == ")" then none
    else if t.startsWith "\"" then some (.str (t.drop 1).toString, i + 1)
    else some (.atom t, i + 1)
  else none

def readSexp (line : String) : Option Sexp :=
  match parseSexp (tokenize line.toList #[]) 0 with
  | some (s, _) => some s
  | none => none

/-! ### engine `balance` -/

def parseInstr (part : String) : Option Sym :=
  let i := (part.trimAscii.toString.splitOn "@").head!
  Sym.ofTokens ((i.splitOn " ").filter (· ≠ ""))

def parseCode (s : String) : Option (List Sym) :=
  ((s.trimAscii.toString.splitOn ";").filter (fun p => p.trimAscii.toString ≠ "")).mapM parseInstr

def b01 (b : Bool) : String := if b then "1" else "0"

def isSuffixOf [BEq α] (a b : List α) : Bool := b.drop (b.length - a.length) == a

def showStack (l : List Nat) : String := "[" ++ ",".intercalate (l.map toString) ++ "]"

def balanceLine (arity : Nat) (code : List Sym) : String :=
  let offs := offsets code 0
  let bal := checkHandlerBalance code
  let dep := checkHandlerDepth arity code
  let pass := applyPass handlerDepthCountsParams stackPassFollowsLabels stackPassSkipsDeadLabels arity (zeroDepths code) == code
  let (hs, why) := match inferX (balanceFlow code) with
    | .ok A =>
      (",".intercalate ((offs.zip A).filterMap fun ((o, a) : Nat × Option (List Nat)) => a.map fun (st : List Nat) => s!"{o}:{st.length}"), "-")
    | .conflict src pc inc ex =>
      let rel := if inc.length > ex.length && isSuffixOf ex inc then "longer"
                 else if ex.length > inc.length && isSuffixOf inc ex then "shorter" else "different"
      ("-", s!"conflict src={src} pc={pc} incoming={showStack inc} existing={showStack ex} rel={rel} srcinstr={(code[src]?.map Sym.toText).getD "?"}")
    | .breach src pc a =>
      ("-", s!"breach src={src} pc={pc} stack={showStack a} instr={(code[pc]?.map Sym.toText).getD "end"}")
    | .fuel => ("-", "fuel")
  let pushes := analysedDepths arity code
  let pushTxt := match pushes with
    | some l => ",".intercalate (l.map fun ((pc, rd, d) : Nat × Nat × Nat) => s!"{pc}:{rd}:{d}")
    | none => "?"
  -- depth annotation of the code with the analysed depths written in (so that it exists for D1 functions too)
  let fixed := match pushes with
    | some l => (List.range code.length).map fun pc =>
        match (code[pc]? : Option Sym), l.find? (fun (t : Nat × Nat × Nat) => t.1 == pc) with
        | some (Sym.PushHandler _ lab), some (_, _, d) => Sym.PushHandler d lab
        | some i, _ => i
        | none, _ => Sym.Nil
    | none => code
  let ds := match infer (depthFlow arity fixed) with
    | some A => ",".intercalate ((offs.zip A).filterMap fun ((o, a) : Nat × Option DState) => a.map fun (st : DState) => s!"{o}:{st.1}")
    | none => "-"
  let npush := (code.filter fun (i : Sym) => match i with | .PushHandler _ _ => true | _ => false).length
  -- diagnostics of a rejection by the depth checker (untrusted; only used to word the report)
  let showD (s : DState) : String :=
    s!"depth={s.1} handlers(label:recorded)=[{",".intercalate (s.2.map fun ((l, rd) : Nat × Nat) => s!"{l}:{rd}")}]"
  let dwhy := match inferX (depthFlow arity code) with
    | .ok _ => "-"
    | .conflict src pc inc ex =>
      s!"conflict: two paths reach pc={pc} ({(code[pc]?.map Sym.toText).getD "?"}) with different layouts: from pc={src} ({(code[src]?.map Sym.toText).getD "?"}) {showD inc}, before {showD ex}"
    | .breach src pc a =>
      let instr := code[pc]?
      let what := match instr, a.2 with
        | some (.CheckHandler _), (_, rd) :: _ =>
          if a.1 != rd + 1 then s!"the class test of a catch clause runs at depth {a.1}, but its handler recorded {rd}: {a.1 - (rd + 1)} slot(s) besides the filter lie above the layout of the try (left by a clause that declined the error, or pushed before the test)"
          else "contract broken"
        | some (.PushHandler rd _), _ => if rd != a.1 then s!"PushHandler records {rd} at depth {a.1}" else "contract broken"
        | _, _ => "contract broken"
      s!"breach at pc={pc} ({(instr.map Sym.toText).getD "end"}) reached from pc={src}: {what}; {showD a}"
    | .fuel => "fuel"
  s!"bal={b01 bal}|depth={b01 dep}|pass={b01 pass}|npush={npush}|H={hs}|D={ds}|pushes={pushTxt}|why={why}|dwhy={dwhy}"

def stepBalance (_ : Unit) (line : String) : Unit × String :=
  match line.trimAscii.toString.splitOn "|" with
  | [a, c] =>
    match a.trimAscii.toString.toNat?, parseCode c with
    | some arity, some code => ((), balanceLine arity code)
    | _, _ => ((), "bad-op")
  | _ => ((), "bad-op")

/-! ### engine `spec` -/

open LaytheVerif.TrySpec in
partial def toExpr : Sexp → Option LaytheVerif.TrySpec.Expr
  | .list [.atom "n", .atom k] => k.toInt?.map .int
  | .list [.atom "s", .str s] => some (.str s)
  | .atom "nil" => some .nil
  | .atom "selfv" => some .selfv
  | .list [.atom "v", .atom x] => some (.var x)
  | .list [.atom "msg", .atom x] => some (.msg x)
  | .list [.atom "cls", .atom x] => some (.clsname x)
  | .list [.atom "add", a, b] => do some (.add (← toExpr a) (← toExpr b))
  | .list [.atom "lt", a, b] => do some (.lt (← toExpr a) (← toExpr b))
  | .list [.atom "eq", a, b] => do some (.eq (← toExpr a) (← toExpr b))
  | .list [.atom "cat", a, b] => do some (.cat (← toExpr a) (← toExpr b))
  | .list [.atom "call", .atom f, .list args] => do some (.call f (← args.mapM toExpr))
  | .list [.atom "callm", .atom f, .list args] => do some (.callm f (← args.mapM toExpr))
  | _ => none

def toInts (l : List Sexp) : Option (List Int) :=
  l.mapM fun s => match s with
    | .atom k => k.toInt?
    | _ => none

open LaytheVerif.TrySpec in
def toSink : Sexp → Option LaytheVerif.TrySpec.Sink
  | .list [.atom "each", .atom y] => some (.each y)
  | .list [.atom "forin", .atom y] => some (.forin y)
  | .atom "list" => some .list
  | .atom "collectl" => some .collectList
  | .atom "collectt" => some .collectTuple
  | .list [.atom "reduce", .atom v, init, .atom a, .atom y] => do some (.reduce v (← toExpr init) a y)
  | .list [.atom "all", .atom y] => some (.all y)
  | .list [.atom "any", .atom y] => some (.any y)
  | .list [.atom "zip", .list vals] => do some (.zip (← toInts vals))
  | _ => none

open LaytheVerif.TrySpec in
mutual
partial def toStmt : Sexp → Option LaytheVerif.TrySpec.Stmt
  | .list [.atom "let", .atom x, e] => do some (.let_ x (← toExpr e))
  | .list [.atom "set", .atom x, e] => do some (.set x (← toExpr e))
  | .list [.atom "print", e] => do some (.print (← toExpr e))
  | .list [.atom "raise", .atom c, .str m] => some (.raise c m)
  | .list [.atom "rterr", .atom k] => some (.rterr k)
  | .list [.atom "try", .list body, .list catches] => do
    let cs ← catches.mapM fun c => match c with
      | .list [.atom f, .atom x, .list blk] => do some (f, x, ← toBlock blk)
      | _ => none
    some (.try_ (← toBlock body) cs)
  | .list [.atom "while", .atom i, .atom n, .list body] => do some (.while_ i (← n.toInt?) (← toBlock body))
  | .list [.atom "for", .atom x, .list vals, .list body] => do some (.for_ x (← toInts vals) (← toBlock body))
  | .list [.atom "each", .atom x, .list vals, .list body] => do some (.each x (← toInts vals) (← toBlock body))
  | .list [.atom "if", c, .list t, .list e] => do some (.if_ (← toExpr c) (← toBlock t) (← toBlock e))
  | .list [.atom "pipe", .list vals, .list stages, sink, .list body] => do
    let ss ← stages.mapM fun c => match c with
      | .list [.atom "map", .atom x, .list blk] => do some (false, x, ← toBlock blk)
      | .list [.atom "filter", .atom x, .list blk] => do some (true, x, ← toBlock blk)
      | _ => none
    some (.pipe (← toInts vals) ss (← toSink sink) (← toBlock body))
  | .list [.atom "sort", .list vals, .atom k, .list body] => do some (.sort (← toInts vals) (← k.toInt?) (← toBlock body))
  | .list [.atom "exit", .atom n] => do some (.exit (← n.toNat?))
  | .list [.atom "lam", .atom f, .list params, .list body] => do
    let ps ← params.mapM fun s => match s with
      | .atom x => some x
      | _ => none
    some (.lam f ps (← toBlock body))
  | .list [.atom "calll", .atom dst, .atom f, .list args] => do
    some (.calll (if dst == "-" then none else some dst) f (← args.mapM toExpr))
  | .atom "break" => some .brk
  | .atom "continue" => some .cont
  | .list [.atom "return", e] => do some (.ret (← toExpr e))
  | .list [.atom "expr", e] => do some (.expr (← toExpr e))
  | _ => none
partial def toBlock (l : List Sexp) : Option (List LaytheVerif.TrySpec.Stmt) := l.mapM toStmt
end

def toFun : Sexp → Option LaytheVerif.TrySpec.Fun
  | .list [.atom name, .list params, .list body] => do
    let ps ← params.mapM fun s => match s with
      | .atom x => some x
      | _ => none
    some { name := name, params := ps, body := ← toBlock body }
  | _ => none

/-- `(prog (classes (C P) ...) (globals (g 0) ...) (funs (f (a b) (stmts)) ...) (methods ...) (kv 7) (main stmts...))` -/
def toProg : Sexp → Option LaytheVerif.TrySpec.Prog
  | .list [.atom "prog", .list (.atom "classes" :: cls), .list (.atom "globals" :: gs),
           .list (.atom "funs" :: fs), .list (.atom "methods" :: ms), .list [.atom "kv", .atom kv],
           .list (.atom "main" :: body)] => do
    let classes ← cls.mapM fun s => match s with
      | .list [.atom c, .atom p] => some (c, if p == "-" then "" else p)
      | _ => none
    let globals ← gs.mapM fun s => match s with
      | .list [.atom g, .atom n] => n.toInt?.map fun n => (g, n)
      | _ => none
    some { classes := classes, globals := globals, funs := ← fs.mapM toFun, methods := ← ms.mapM toFun,
           kv := ← kv.toInt?, main := ← toBlock body }
  | _ => none

def stepSpec (_ : Unit) (line : String) : Unit × String :=
  match readSexp line with
  | none => ((), "bad-sexp")
  | some s =>
    match toProg s with
    | none => ((), "bad-prog")
    | some p =>
      let (out, status, last) := LaytheVerif.TrySpec.runProg p 100000
      -- every stdout line is TERMINATED by 0x1f (an empty line is not the same as no line)
      ((), s!"{status}\t{last}\t{String.join (out.toList.map (· ++ "\x1f"))}")

/-! ### engine `lower` -/

mutual
partial def toSkel : Sexp → Option LaytheVerif.Handlers.Stmt
  | .atom "op" => some .op
  | .atom "raise" => some .raise_
  | .atom "break" => some .break_
  | .atom "continue" => some .continue_
  | .atom "return" => some .return_
  | .atom "capture" => some .capture
  | .list [.atom "if", .list b] => do some (.if_ (← toSkels b))
  | .list [.atom "while", .list b] => do some (.while_ (← toSkels b))
  | .list [.atom "try", .list b, .list cs] => do
    let cs ← cs.mapM fun c => match c with
      | .list blk => toSkels blk
      | _ => none
    some (.try_ (← toSkels b) cs)
  | _ => none
partial def toSkels (l : List Sexp) : Option (List LaytheVerif.Handlers.Stmt) := l.mapM toSkel
end

def stepLower (_ : Unit) (line : String) : Unit × String :=
  let line := line.trimAscii.toString
  let (mode, rest) := if line.startsWith "single " then (true, (line.drop 7).toString)
                      else (false, (line.drop 6).toString)
  match readSexp rest with
  | some (.list l) =>
    match toSkels l with
    | some body =>
      let code := lowerFun mode body
      let post := removeDead code false
      ((), s!"bal={b01 (checkHandlerBalance post)}|e4={b01 (inE4 body 0 0)}|{";".intercalate (code.map Sym.toText)}")
    | none => ((), "bad-skel")
  | _ => ((), "bad-sexp")

end Driver.Handlers

partial def loop {σ : Type} (h : IO.FS.Stream) (out : IO.FS.Stream) (step : σ → String → σ × String) (s : σ) : IO Unit := do
  let line ← h.getLine
  if line.isEmpty then return ()
  let (s', o) := step s line
  out.putStrLn o
  loop h out step s'

def main (args : List String) : IO UInt32 := do
  let stdin ← IO.getStdin
  let stdout ← IO.getStdout
  match args with
  | ["balance"] => loop stdin stdout Driver.Handlers.stepBalance (); return 0
  | ["spec"] => loop stdin stdout Driver.Handlers.stepSpec (); return 0
  | ["lower"] => loop stdin stdout Driver.Handlers.stepLower (); return 0
  | ["rules"] =>
    IO.println s!"tryAttributesIsStack={tryAttributesIsStack} countsParams={handlerDepthCountsParams} followsLabels={stackPassFollowsLabels} skipsDeadLabels={stackPassSkipsDeadLabels}"
    return 0
  | _ => IO.eprintln "usage: drv_handlers <balance|spec|lower|rules>"; return 2
