import LaytheVerif.Model.Classes
import LaytheVerif.Model.ClassLang
import LaytheVerif.Model.ClassCompile
/-! Engines of `drv_classes`:
* `classes` — the API-level line protocol of `vh_classes` run on `Model/Classes.lean`;
* `prog`    — one S-expression program per line, evaluated by the Spec `Model/ClassLang.lean`. -/
namespace Driver.ClassesEng
open LaytheVerif.Classes

/-! ## API engine -/

structure W where
  store : Store := Store.bootstrap.1
  names : List (String × Nat) := [("Object", 0), ("Class", 1)]
  insts : List (String × Inst) := []

def W.cls (w : W) (n : String) : Option Nat := (w.names.find? (·.1 == n)).map (·.2)
def W.inst (w : W) (n : String) : Option Inst := (w.insts.find? (·.1 == n)).map (·.2)
def W.bind (w : W) (n : String) (c : Nat) : W := { w with names := (n, c) :: w.names.filter (·.1 != n) }
def W.bindInst (w : W) (n : String) (i : Inst) : W := { w with insts := (n, i) :: w.insts.filter (·.1 != n) }

def nilV : Val := .prim 0 0
def numV (n : Nat) : Val := .prim 1 n

def showVal : Val → String
  | .prim 0 _ => "nil"
  | .prim _ n => toString n
  | _ => "?"

def showOpt : Option Nat → String
  | some n => toString n
  | none => "-"

/-- the `debug_assert!`s at the top of `Class::inherit` (the harness is a debug build) -/
def inheritAsserts (c : Cls) : Option String :=
  if !c.methods.isEmpty then some "PANIC:assertion failed: self.methods.is_empty()"
  else if !c.fields.isEmpty then some "PANIC:assertion failed: self.fields.is_empty()"
  else none

def step (w : W) (line : String) : W × String :=
  match line.trimAscii.toString.splitOn " " with
  | ["reset"] => ({}, "ok")
  | ["class", c] =>
    let (s, id) := w.store.opClass c
    ({ w with store := s }.bind c id, "ok")
  | ["inherit", c, p] =>
    match w.cls c, w.cls p with
    | some ci, some pi =>
      match (w.store.get? ci).bind inheritAsserts with
      | some msg => (w, msg)
      | none =>
        match w.store.opInherit ci pi with
        | some s => ({ w with store := s }, "ok")
        | none => (w, "PANIC:expect")
    | _, _ => (w, "noclass")
  | ["derive", c, p] =>
    match w.cls p with
    | some pi =>
      match w.store.withInheritance c pi with
      | some (s, id) => ({ w with store := s }.bind c id, "ok")
      | none => (w, "PANIC:expect")
    | none => (w, "noclass")
  | ["field", c, f] =>
    match w.cls c with
    | some ci =>
      match w.store.opField ci f with
      | some s => ({ w with store := s }, showOpt ((s.get? ci).bind (·.getFieldIndex f)))
      | none => (w, "noclass")
    | none => (w, "noclass")
  | ["method", c, m, id] =>
    match w.cls c, id.toNat? with
    | some ci, some id =>
      match w.store.opMethod ci m id with
      | some s => ({ w with store := s }, "ok")
      | none => (w, "noclass")
    | _, _ => (w, "noclass")
  | ["static", c, m, id] =>
    match w.cls c, id.toNat? with
    | some ci, some id =>
      match w.store.opStaticMethod ci m id with
      | some s => ({ w with store := s }, "ok")
      | none => (w, "nometa")
    | _, _ => (w, "noclass")
  | ["lookup", c, m] =>
    match (w.cls c).bind w.store.get? with
    | some cc => (w, showOpt (cc.getMethod m))
    | none => (w, "noclass")
  | ["slookup", c, m] =>
    match (w.cls c).bind w.store.get? with
    | some cc =>
      match cc.metaClass.bind w.store.get? with
      | some mc => (w, showOpt (mc.getMethod m))
      | none => (w, "nometa")
    | none => (w, "noclass")
  | ["init", c] =>
    match (w.cls c).bind w.store.get? with
    | some cc => (w, showOpt cc.init)
    | none => (w, "noclass")
  | ["fieldindex", c, f] =>
    match (w.cls c).bind w.store.get? with
    | some cc => (w, showOpt (cc.getFieldIndex f))
    | none => (w, "noclass")
  | ["nfields", c] =>
    match (w.cls c).bind w.store.get? with
    | some cc => (w, toString cc.nfields)
    | none => (w, "noclass")
  | ["super", c] =>
    match (w.cls c).bind w.store.get? with
    | some cc => (w, match cc.superClass.bind w.store.get? with | some s => s.name | none => "-")
    | none => (w, "noclass")
  | ["meta", c] =>
    match (w.cls c).bind w.store.get? with
    | some cc => (w, match cc.metaClass.bind w.store.get? with | some s => s.name | none => "-")
    | none => (w, "noclass")
  | ["metasuper", c] =>
    match (w.cls c).bind w.store.get? with
    | some cc =>
      match cc.metaClass.bind w.store.get? with
      | some mc => (w, match mc.superClass.bind w.store.get? with | some s => s.name | none => "-")
      | none => (w, "nometa")
    | none => (w, "noclass")
  | ["issub", c, d] =>
    match w.cls c, w.cls d with
    | some ci, some di => (w, toString (w.store.isSubclass (w.store.classes.length + 1) ci di))
    | _, _ => (w, "noclass")
  | ["instance", i, c] =>
    match w.cls c with
    | some ci =>
      match (w.store.get? ci).bind (instantiate nilV ci) with
      | some inst => (w.bindInst i inst, toString inst.slots.length)
      | none => (w, "PANIC:Cannot allocate class with more than 256 fields")
    | none => (w, "noclass")
  | ["set", i, f, v] =>
    match w.inst i, v.toNat? with
    | some inst, some v =>
      match w.store.get? inst.cls with
      | some cc =>
        match cc.getFieldIndex f with
        | none => (w, "nofield")
        | some _ =>
          match inst.setField cc f (numV v) with
          | some inst' => (w.bindInst i inst', "ok")
          | none => (w, "PANIC:index out of bounds")
      | none => (w, "noinst")
    | _, _ => (w, "noinst")
  | ["get", i, f] =>
    match w.inst i with
    | some inst =>
      match w.store.get? inst.cls with
      | some cc =>
        match inst.getField cc f with
        | some (some v) => (w, showVal v)
        | some none => (w, "PANIC:index out of bounds")
        | none => (w, "nofield")
      | none => (w, "noinst")
    | none => (w, "noinst")
  | ["geti", i, k] =>
    match w.inst i, k.toNat? with
    | some inst, some k => (w, match inst.slots[k]? with | some v => showVal v | none => "oob")
    | _, _ => (w, "noinst")
  | ["seti", i, k, v] =>
    match w.inst i, k.toNat?, v.toNat? with
    | some inst, some k, some v =>
      if k < inst.slots.length then (w.bindInst i { inst with slots := inst.slots.set k (numV v) }, "ok")
      else (w, "oob")
    | _, _, _ => (w, "noinst")
  | ["classof", i] =>
    match w.inst i with
    | some inst => (w, match w.store.get? inst.cls with | some cc => cc.name | none => "?")
    | none => (w, "noinst")
  | _ => (w, "bad-op")

/-! ## S-expressions → ClassLang programs -/

inductive Sx where
  | atom (s : String)
  | strLit (s : String)
  | list (xs : List Sx)
  deriving Inhabited

inductive Tok where
  | lp | rp | atom (s : String) | strLit (s : String)

partial def tokenize (cs : List Char) (acc : Array Tok) : Array Tok :=
  match cs with
  | [] => acc
  | '(' :: r => tokenize r (acc.push .lp)
  | ')' :: r => tokenize r (acc.push .rp)
  | '"' :: r =>
    let rec str (cs : List Char) (s : String) : String × List Char :=
      match cs with
      | [] => (s, [])
      | '\\' :: c :: r => str r (s.push (if c == 'n' then '\n' else c))
      | '"' :: r => (s, r)
      | c :: r => str r (s.push c)
    let (s, r') := str r ""
    tokenize r' (acc.push (.strLit s))
  | c :: r =>
    if c.isWhitespace then tokenize r acc
    else
      let rec atom (cs : List Char) (s : String) : String × List Char :=
        match cs with
        | [] => (s, [])
        | c :: r => if c.isWhitespace || c == '(' || c == ')' then (s, c :: r) else atom r (s.push c)
      let (s, r') := atom (c :: r) ""
      tokenize r' (acc.push (.atom s))

partial def parseSx (ts : List Tok) : Option (Sx × List Tok) :=
  match ts with
  | [] => none
  | .atom s :: r => some (.atom s, r)
  | .strLit s :: r => some (.strLit s, r)
  | .rp :: _ => none
  | .lp :: r =>
    let rec items (ts : List Tok) (acc : Array Sx) : Option (Sx × List Tok) :=
      match ts with
      | .rp :: r => some (.list acc.toList, r)
      | [] => none
      | ts => match parseSx ts with
        | some (x, r) => items r (acc.push x)
        | none => none
    items r #[]

open LaytheVerif.ClassLang in
mutual
partial def toExpr : Sx → Option Expr
  | .list [.atom "num", .atom n] => n.toInt?.map Expr.num
  | .list [.atom "str", .strLit s] => some (.str s)
  | .list [.atom "nil"] => some .nil
  | .list [.atom "var", .atom x] => some (.var x)
  | .list [.atom "self"] => some .self
  | .list [.atom "get", e, .atom n] => (toExpr e).map (Expr.get · n)
  | .list (.atom "call" :: f :: args) => do
    let f ← toExpr f
    let args ← args.mapM toExpr
    pure (.call f args)
  | .list [.atom "super", .atom n] => some (.superGet n)
  | .list [.atom "add", a, b] => do pure (.add (← toExpr a) (← toExpr b))
  | .list (.atom "lam" :: .list ps :: body) => do
    let ps ← ps.mapM fun | .atom p => some p | _ => none
    let body ← body.mapM toStmt
    pure (.lam ps body)
  | _ => none
partial def toStmt : Sx → Option Stmt
  | .list [.atom "print", e] => (toExpr e).map Stmt.print
  | .list [.atom "let", .atom x, e] => (toExpr e).map (Stmt.letS x)
  | .list [.atom "expr", e] => (toExpr e).map Stmt.exprS
  | .list [.atom "ret", e] => (toExpr e).map Stmt.ret
  | .list [.atom "setf", o, .atom n, e] => do pure (.setf (← toExpr o) n (← toExpr e))
  | .list [.atom "try", .list body, .list handler] => do
    pure (.tryS (← body.mapM toStmt) (← handler.mapM toStmt))
  | .list [.atom "class", .atom name, .atom parent, initSx, .list (.atom "methods" :: ms), .list (.atom "statics" :: ss)] => do
    let init ← match initSx with
      | .list [.atom "noinit"] => pure none
      | .list (.atom "init" :: .list ps :: body) => do
        let ps ← ps.mapM fun | .atom p => some p | _ => none
        let body ← body.mapM toStmt
        pure (some (ps, body))
      | _ => none
    let ms ← ms.mapM toTriple
    let ss ← ss.mapM toTriple
    pure (.classS name (if parent == "-" then none else some parent) init ms ss)
  | _ => none
partial def toTriple : Sx → Option (String × List String × List Stmt)
  | .list (.atom _ :: .atom name :: .list ps :: body) => do
    let ps ← ps.mapM fun | .atom p => some p | _ => none
    let body ← body.mapM toStmt
    pure (name, ps, body)
  | _ => none
end

open LaytheVerif.ClassLang in
def toFun : Sx → Option FunSrc
  | .list (.atom _ :: .atom name :: .list ps :: body) => do
    let ps ← ps.mapM fun | .atom p => some p | _ => none
    let body ← body.mapM toStmt
    pure { name := name, params := ps, body := body }
  | _ => none

open LaytheVerif.ClassLang in
def toItem : Sx → Option Item
  | sx@(.list (.atom "fn" :: _)) => (toFun sx).map Item.fn
  | sx => do
    match ← toStmt sx with
    | .classS name parent init ms ss => pure (.cls (ClassDecl.ofParts name parent init ms ss))
    | st => pure (.stmt st)

def escape (s : String) : String :=
  s.foldl (fun acc c => if c == '\\' then acc ++ "\\\\" else if c == '\n' then acc ++ "\\n" else acc.push c) ""

/-- one program per line: `(prog item*)` → `status<TAB>d20count<TAB>line\nline…` (escaped) -/
def stepProg (_ : Unit) (line : String) : Unit × String :=
  let toks := tokenize line.toList #[]
  match parseSx toks.toList with
  | some (.list (.atom "prog" :: items), _) =>
    match items.mapM toItem with
    | some items =>
      let r := LaytheVerif.ClassLang.runProgram items
      ((), escape r.status ++ "\t" ++ toString r.d20 ++ "\t" ++ escape ("\n".intercalate r.out.toList))
    | none => ((), "BADPROG item")
  | _ => ((), "BADPROG syntax")

/-- one program per line → `name:ev,ev,…;name:…` (finished functions in order, `script` last) -/
def stepCompile (_ : Unit) (line : String) : Unit × String :=
  let toks := tokenize line.toList #[]
  match parseSx toks.toList with
  | some (.list (.atom "prog" :: items), _) =>
    match items.mapM toItem with
    | some items =>
      let t := LaytheVerif.ClassCompile.compileTrace items
      ((), ";".intercalate (t.map fun p => p.1 ++ ":" ++ ",".intercalate p.2))
    | none => ((), "BADPROG item")
  | _ => ((), "BADPROG syntax")

end Driver.ClassesEng
