import LaytheVerif.Model.Collections
import LaytheVerif.Model.CollectionsIter
/-!
`drv_coll model|spec`: one *case* per stdin line, one stdout line per case (the expected output lines of the
rendered Laythe program, joined by TAB).

  case   := kind ' ; ' op ' ; ' op ...
  kind   := list v,v,..  | tuple v,v,.. | str S | map k=v,.. keys k,k,.. | iter
  values := nil | true | false | <int> | s:<hex>.<hex>...            (strings: code points in hex)
  args   := <int> | f:<neg 0/1>:<mag> | nan | inf | -inf | any value (= not a number)
  iterator arguments (zip, chain, `bc list|tuple` = List.collect / Tuple.collect): <k> = the iterator variable
  itK, `v:<anything>` = a value that is not an iterator

`model` runs the branch-for-branch model (`LaytheVerif.Coll.*`), `spec` the plain `List` functions
(`LaytheVerif.Coll.Spec.*`); the iterator kind exists in `model` only (its Spec is the Python generator
monitor in vlib/props/c11.py).
-/
open LaytheVerif.Coll

namespace Driver.Coll

inductive Val where
  | nil | bool (b : Bool) | num (i : Int) | str (s : List Char)
  | tup (xs : List Val) | list (xs : List Val)
  deriving Inhabited

/-- `==` of the implementation: atoms by value, tuples and lists by identity (never equal to a fresh value) -/
def Val.beq : Val → Val → Bool
  | .nil, .nil => true
  | .bool a, .bool b => a == b
  | .num a, .num b => a == b
  | .str a, .str b => a == b
  | _, _ => false
instance : BEq Val := ⟨Val.beq⟩

instance : ValLike Val where
  nil := .nil
  truthy := fun v => match v with | .nil => false | .bool false => false | _ => true
  tup := .tup
  num := .num

mutual
  /-- `print` of a value nested in a container: strings are quoted -/
  partial def showIn : Val → String
    | .str s => "'" ++ String.ofList s ++ "'"
    | v => showTop v
  /-- `print` of a value -/
  partial def showTop : Val → String
    | .nil => "nil"
    | .bool b => if b then "true" else "false"
    | .num i => toString i
    | .str s => String.ofList s
    | .tup xs => "(" ++ ", ".intercalate (xs.map showIn) ++ ")"
    | .list xs => "[" ++ ", ".intercalate (xs.map showIn) ++ "]"
end

def showOpt : Option Val → String
  | some v => showTop v
  | none => "<uninit>"

/-! ### parsing -/

def hexDigit (c : Char) : Option Nat :=
  if '0' ≤ c ∧ c ≤ '9' then some (c.toNat - '0'.toNat)
  else if 'a' ≤ c ∧ c ≤ 'f' then some (c.toNat - 'a'.toNat + 10)
  else none

def parseHex (s : String) : Option Nat :=
  if s.isEmpty then none else s.toList.foldlM (fun acc c => (hexDigit c).map (fun d => acc * 16 + d)) 0

def parseStr (s : String) : Option (List Char) :=
  if s.isEmpty then some []
  else (s.splitOn ".").mapM (fun h => (parseHex h).map Char.ofNat)

def parseVal (t : String) : Option Val :=
  if t == "nil" then some .nil
  else if t == "true" then some (.bool true)
  else if t == "false" then some (.bool false)
  else if t.startsWith "s:" then (parseStr (t.drop 2).toString).map .str
  else t.toInt?.map .num

def parseArg (t : String) : Option Arg :=
  if t == "nan" then some (.num .nan)
  else if t == "inf" then some (.num (.inf false))
  else if t == "-inf" then some (.num (.inf true))
  else if t.startsWith "f:" then
    match t.splitOn ":" with
    | [_, n, m] => m.toNat?.map (fun m => .num (.frac (n == "1") m))
    | _ => none
  else match t.toInt? with
    | some i => some (.num (.int i))
    | none => (parseVal t).map (fun _ => .other)

def parseVals (t : String) : Option (List Val) :=
  if t == "-" then some [] else (t.splitOn ",").mapM parseVal

def toks (s : String) : List String := (s.trimAscii.toString.splitOn " ").filter (· ≠ "")

def errLine (c : ErrClass) : String := "err " ++ c.name

/-! ### list receivers -/

/-- the comparator menu of `sort`; the Laythe text of each is in vlib/props/c11.py (`COMPARATORS`) -/
def cmpOf (name : String) : Option (Val → Val → CmpOut) :=
  let sub (f : Int → CmpOut) : Val → Val → CmpOut := fun a c =>
    match a, c with | .num x, .num y => f (x - y) | _, _ => .raised .runtime
  match name with
  | "sub" => some (sub fun d => .num (.int d))                       -- |a, b| a - b
  | "rsub" => some (sub fun d => .num (.int (-d)))                   -- |a, b| b - a
  | "half" => some (sub fun d =>                                      -- |a, b| (a - b) / 2
      if d % 2 = 0 then .num (.int (d / 2)) else .num (.frac (d < 0) (d.natAbs / 2)))
  | "nil" => some fun _ _ => .notNum                                  -- |a, b| nil
  | "nan" => some fun _ _ => .num .nan                                -- |a, b| 0/0
  | "raise" => some fun _ _ => .raised .user                          -- |a, b| { raise Error("boom"); }
  | "bad2" => some fun a c =>                                         -- raises when 2 is involved, else a - b
      if a == Val.num 2 || c == Val.num 2 then .raised .user else sub (fun d => .num (.int d)) a c
  | _ => none

/-- the Spec of `sort`, by another route: a comparator that fails on a pair fails the call as soon as the
list has two elements of which one provokes it (every element of such a list is compared at least once);
otherwise the stable merge sort of the library. -/
def specSort (name : String) (xs : List Val) : Option (Except ErrClass (List Val)) :=
  let isNum (v : Val) : Bool := match v with | .num _ => true | _ => false
  let le (a c : Val) : Bool := match a, c with | .num x, .num y => x ≤ y | _, _ => true
  let ge (a c : Val) : Bool := match a, c with | .num x, .num y => y ≤ x | _, _ => true
  let nonNum := xs.any (fun v => !isNum v)
  let arith (le : Val → Val → Bool) : Option (Except ErrClass (List Val)) :=
    some (if xs.length ≥ 2 && nonNum then .error .runtime else .ok (xs.mergeSort le))
  match name with
  | "sub" => arith le
  | "half" => arith le
  | "rsub" => arith ge
  | "nil" => some (if xs.length ≥ 2 then .error .type else .ok xs)
  | "nan" => some (if xs.length ≥ 2 then .error .type else .ok xs)
  | "raise" => some (if xs.length ≥ 2 then .error .user else .ok xs)
  | "bad2" =>
    let has2 := xs.any (· == Val.num 2)
    if xs.length < 2 then some (.ok xs)
    else if has2 && nonNum then none          -- two classes of failure: which comes first is the algorithm's choice
    else if has2 then some (.error .user)
    else arith le
  | _ => none

/-- model engine: state = the raw buffer, or `none` after a write past the allocation -/
def stepListModel (b : RawVec Val) (op : List String) : Option (String × Option (RawVec Val)) :=
  let fin (b' : RawVec Val) (res : String) := some (res, some b')
  let w (r : RawVec.W (RawVec Val)) (res : String) : Option (String × Option (RawVec Val)) :=
    match r with | .done b' => some (res, some b') | .ub => some ("UB", none)
  match op with
  | ["get", a] => do
    let a ← parseArg a
    match listGet b a with | .ok v => fin b (showOpt v) | .error c => fin b (errLine c)
  | ["set", a, v] => do
    let a ← parseArg a; let v ← parseVal v
    match listSet b a v with | .ok b' => fin b' (showTop v) | .error c => fin b (errLine c)
  | "push" :: vs => do
    let vs ← vs.mapM parseVal
    w (listPush b vs) "nil"
  | ["pop"] => let r := b.pop; fin r.2 (match r.1 with | some v => showTop v | none => "nil")
  | ["insert", a, v] => do
    let a ← parseArg a; let v ← parseVal v
    match listInsert b a v with | .ok r => w r "nil" | .error c => fin b (errLine c)
  | ["remove", a] => do
    let a ← parseArg a
    match listRemove b a with | .ok r => fin r.2 (showOpt r.1) | .error c => fin b (errLine c)
  | ["clear"] => fin (listClear b) "nil"
  | ["len"] => fin b (toString b.len)
  | ["has", v] => do let v ← parseVal v; fin b (if listHas b v then "true" else "false")
  | ["index", v] => do
    let v ← parseVal v
    fin b (match listIndex b v with | some k => toString k | none => "nil")
  | "slice" :: as => do
    let as ← as.mapM parseArg
    match listSlice b as[0]? as[1]? with | .ok xs => fin b (showTop (.list xs)) | .error c => fin b (errLine c)
  | ["rev"] => fin b (showTop (.list (listRev b)))
  | "sort" :: rest => do
    let cmp ← cmpOf (rest.headD "sub")
    match listSort b cmp with | .ok xs => fin b (showTop (.list xs)) | .error c => fin b (errLine c)
  | ["iterlist"] =>
    -- `l = l.iter().list()`: a fresh allocation sized by the size hint
    let it : Iter Val Unit ErrClass := Iter.ofList b.toList
    match (it.toRawVec ()).res with
    | .ok r => w r "ok"
    | .error c => fin b (errLine c)
  | ["slicelist"] => fin (RawVec.ofList b.toList) "ok"   -- `l = l.slice()`: `list!(slice)`, capacity max(len, 4)
  | _ => none

def stepListSpec (xs : List Val) (op : List String) : Option (String × List Val) :=
  let num (a : Arg) (k : Num → String × List Val) : String × List Val :=
    match a with | .num n => k n | .other => (errLine .runtime, xs)
  match op with
  | ["get", a] => do
    let a ← parseArg a
    some (num a fun n => match Spec.get xs n with | .ok v => (showTop v, xs) | .error c => (errLine c, xs))
  | ["set", a, v] => do
    let a ← parseArg a; let v ← parseVal v
    some (num a fun n => match Spec.set xs n v with | .ok ys => (showTop v, ys) | .error c => (errLine c, xs))
  | "push" :: vs => do let vs ← vs.mapM parseVal; some ("nil", xs ++ vs)
  | ["pop"] => some (match (Spec.pop xs).1 with | some v => showTop v | none => "nil", (Spec.pop xs).2)
  | ["insert", a, v] => do
    let a ← parseArg a; let v ← parseVal v
    some (num a fun n => match Spec.insert xs n v with | .ok ys => ("nil", ys) | .error c => (errLine c, xs))
  | ["remove", a] => do
    let a ← parseArg a
    some (num a fun n => match Spec.remove xs n with | .ok r => (showTop r.1, r.2) | .error c => (errLine c, xs))
  | ["clear"] => some ("nil", [])
  | ["len"] => some (toString xs.length, xs)
  | ["has", v] => do let v ← parseVal v; some (if xs.contains v then "true" else "false", xs)
  | ["index", v] => do
    let v ← parseVal v
    some (match xs.findIdx? (· == v) with | some k => toString k | none => "nil", xs)
  | "slice" :: as => do
    let as ← as.mapM parseArg
    let n? (a : Option Arg) : Option (Option Num) :=
      match a with | none => some none | some (.num n) => some (some n) | some .other => none
    match n? as[0]?, n? as[1]? with
    | some s, some e =>
      some (match Spec.slice xs s e with | .ok ys => showTop (.list ys) | .error c => errLine c, xs)
    | _, _ => some (errLine .runtime, xs)
  | ["rev"] => some (showTop (.list xs.reverse), xs)
  | "sort" :: rest => do
    match ← specSort (rest.headD "sub") xs with
    | .ok ys => some (showTop (.list ys), xs)
    | .error c => some (errLine c, xs)
  | ["iterlist"] => some ("ok", xs)
  | ["slicelist"] => some ("ok", xs)
  | _ => none

/-! ### tuple receivers -/

def stepTuple (spec : Bool) (t : List Val) (op : List String) : Option String :=
  match op with
  | ["get", a] => do
    let a ← parseArg a
    if spec then
      match a with
      | .num n => some (match Spec.get t n with | .ok v => showTop v | .error c => errLine c)
      | .other => some (errLine .runtime)
    else some (match tupleGet t a with | .ok v => showOpt v | .error c => errLine c)
  | ["len"] => some (toString t.length)
  | ["has", v] => do
    let v ← parseVal v
    some (if (if spec then t.contains v else tupleHas t v) then "true" else "false")
  | ["index", v] => do
    let v ← parseVal v
    some (match (if spec then t.findIdx? (· == v) else tupleIndex t v) with | some k => toString k | none => "nil")
  | "slice" :: as => do
    let as ← as.mapM parseArg
    if spec then
      let n? (a : Option Arg) : Option (Option Num) :=
        match a with | none => some none | some (.num n) => some (some n) | some .other => none
      match n? as[0]?, n? as[1]? with
      | some s, some e => some (match Spec.slice t s e with | .ok ys => showTop (.tup ys) | .error c => errLine c)
      | _, _ => some (errLine .runtime)
    else some (match tupleSlice t as[0]? as[1]? with | .ok xs => showTop (.tup xs) | .error c => errLine c)
  | ["iterlist"] => some (showTop (.list t))
  | _ => none

/-! ### string receivers -/

def showStrs (xs : List (List Char)) : String := showTop (.list (xs.map .str))

/-- Spec of `split` for a non-empty separator, by a different route than the model: cut at the leftmost
occurrence, recursively (fuel = length). -/
def specSplit (sep : List Char) : Nat → List Char → List Char → List (List Char)
  | 0, cs, acc => [acc.reverse ++ cs]
  | _ + 1, [], acc => [acc.reverse]
  | k + 1, c :: rest, acc =>
    if sep.isPrefixOf (c :: rest) then acc.reverse :: specSplit sep k ((c :: rest).drop sep.length) []
    else specSplit sep k rest (c :: acc)

def stepStr (spec : Bool) (cs : List Char) (op : List String) : Option String :=
  let argNum (a : Option Arg) : Option (Option Num) :=
    match a with | none => some none | some (.num n) => some (some n) | some .other => none
  match op with
  | ["get", a] => do
    let a ← parseArg a
    if spec then
      match a with
      | .num n => some (match Spec.get cs n with | .ok c => String.ofList [c] | .error c => errLine c)
      | .other => some (errLine .runtime)
    else some (match strGet cs a with | .ok c => String.ofList [c] | .error c => errLine c)
  | ["len"] => some (toString (if spec then cs.length else strLen cs))
  | "slice" :: as => do
    let as ← as.mapM parseArg
    if spec then
      match argNum as[0]?, argNum as[1]? with
      | some s, some e => some (match Spec.slice cs s e with | .ok ys => String.ofList ys | .error c => errLine c)
      | _, _ => some (errLine .runtime)
    else some (match strSlice cs as[0]? as[1]? with | .ok ys => String.ofList ys | .error c => errLine c)
  | ["has", s] => do
    match ← parseVal s with
    | .str sub =>
      some (if (if spec then (List.range (cs.length + 1)).any (fun k => sub.isPrefixOf (cs.drop k)) else strHas cs sub)
            then "true" else "false")
    | _ => some (errLine .runtime)
  | ["split", s] => do
    match ← parseVal s with
    | .str sep =>
      if spec then
        if sep.isEmpty then none   -- no mathematical reading of splitting on the empty string: model only
        else some (showStrs (specSplit sep (cs.length + 1) cs []))
      else some (showStrs (strSplit cs sep))
    | _ => some (errLine .runtime)
  | ["chars"] => some (showStrs (if spec then cs.map (fun c => [c]) else strChars cs))
  | _ => none

/-! ### map receivers -/

/-- keys are atoms -/
inductive Key | nil | bool (b : Bool) | num (i : Int) | str (s : List Char)
  deriving DecidableEq
def toKey : Val → Option Key
  | .nil => some .nil
  | .bool b => some (.bool b)
  | .num i => some (.num i)
  | .str s => some (.str s)
  | _ => none

/-- Spec state: a function `Key → Option Val` (finite map as a function) plus the support, for `len` -/
structure FinMap where
  f : Key → Option Val
  support : List Key

def FinMap.set (m : FinMap) (k : Key) (v : Val) : FinMap :=
  { f := fun k' => if k' = k then some v else m.f k', support := if m.support.any (fun k' => decide (k' = k)) then m.support else k :: m.support }
def FinMap.erase (m : FinMap) (k : Key) : FinMap :=
  { f := fun k' => if k' = k then none else m.f k', support := m.support.filter (fun k' => decide (k' ≠ k)) }

def probe (get : Key → Option Val) (len : Nat) (keys : List Key) : String :=
  toString len ++ "\t" ++ showTop (.list (keys.map fun k => match get k with | some v => v | none => .nil))

def stepMapModel (m : AMap Key Val) (op : List String) : Option (String × AMap Key Val) :=
  let ov (o : Option Val) := match o with | some v => showTop v | none => "nil"
  match op with
  | ["set", k, v] => do
    let k ← (← parseVal k) |> toKey; let v ← parseVal v
    let r := mapSet m k v; some (ov r.1, r.2)
  | ["insert", k, v] => do
    let k ← (← parseVal k) |> toKey; let v ← parseVal v
    let r := mapSet m k v; some (ov r.1, r.2)
  | ["iset", k, v] => do
    let k ← (← parseVal k) |> toKey; let v ← parseVal v
    some (showTop v, (mapSet m k v).2)
  | ["get", k] => do let k ← (← parseVal k) |> toKey; some (ov (mapGet m k), m)
  | ["iget", k] => do
    let k ← (← parseVal k) |> toKey
    some (match mapIndexGet m k with | .ok v => showTop v | .error c => errLine c, m)
  | ["has", k] => do let k ← (← parseVal k) |> toKey; some (if mapHas m k then "true" else "false", m)
  | ["remove", k] => do
    let k ← (← parseVal k) |> toKey
    some (match mapRemove m k with | .ok r => (showTop r.1, r.2) | .error c => (errLine c, m))
  | ["len"] => some (toString (mapLen m), m)
  | _ => none

def stepMapSpec (m : FinMap) (op : List String) : Option (String × FinMap) :=
  let ov (o : Option Val) := match o with | some v => showTop v | none => "nil"
  match op with
  | ["set", k, v] => do
    let k ← (← parseVal k) |> toKey; let v ← parseVal v
    some (ov (m.f k), m.set k v)
  | ["insert", k, v] => do
    let k ← (← parseVal k) |> toKey; let v ← parseVal v
    some (ov (m.f k), m.set k v)
  | ["iset", k, v] => do
    let k ← (← parseVal k) |> toKey; let v ← parseVal v
    some (showTop v, m.set k v)
  | ["get", k] => do let k ← (← parseVal k) |> toKey; some (ov (m.f k), m)
  | ["iget", k] => do
    let k ← (← parseVal k) |> toKey
    some (match m.f k with | some v => showTop v | none => errLine .key, m)
  | ["has", k] => do let k ← (← parseVal k) |> toKey; some (if (m.f k).isSome then "true" else "false", m)
  | ["remove", k] => do
    let k ← (← parseVal k) |> toKey
    some (match m.f k with | some v => (showTop v, m.erase k) | none => (errLine .key, m))
  | ["len"] => some (toString m.support.length, m)
  | _ => none

/-! ### iterator programs (model only) -/

/-- what callbacks can see and change: a log and a neighbouring list -/
structure World where
  log : List Val := []
  nb : List Val := [.num 0]

abbrev It := Iter Val World ErrClass

def arith (f : Int → Val) : Val → World → Except ErrClass Val × World
  | .num i, w => (.ok (f i), w)
  | _, w => (.error .runtime, w)

/-- the callback menu; the Laythe text of each is in vlib/props/c11.py (`CALLBACKS`) -/
def cb1 (name : String) : Option (Cb Val World ErrClass) :=
  let logged (k : Cb Val World ErrClass) : Cb Val World ErrClass :=
    fun x w => k x { w with log := w.log ++ [x] }
  match name with
  | "id" => some fun x w => (.ok x, w)
  | "inc" => some (arith fun i => .num (i + 1))
  | "dbl" => some (arith fun i => .num (i * 2))
  | "gt1" => some (arith fun i => .bool (i > 1))
  | "lt3" => some (arith fun i => .bool (i < 3))
  | "ne2" => some fun x w => (.ok (.bool (!(x == Val.num 2))), w)
  | "nilcb" => some fun _ w => (.ok .nil, w)
  | "logid" => some (logged fun x w => (.ok x, w))
  | "loginc" => some (logged (arith fun i => .num (i + 1)))
  | "loggt1" => some (logged (arith fun i => .bool (i > 1)))
  | "logtrue" => some (logged fun _ w => (.ok (.bool true), w))
  | "logfalse" => some (logged fun _ w => (.ok (.bool false), w))
  | "raise2" => some (logged fun x w => if x == Val.num 2 then (.error .user, w) else (.ok x, w))
  | "raise2t" => some (logged fun x w => if x == Val.num 2 then (.error .user, w) else (.ok (.bool true), w))
  | "nbpush" => some fun x w => (.ok x, { w with nb := w.nb ++ [x, x] })
  | "nbpusht" => some fun x w => (.ok (.bool true), { w with nb := w.nb ++ [x, x] })
  | "nblen" => some fun _ w => (.ok (.num w.nb.length), w)
  | "nbidx" => some fun x w =>
    match x with
    | .num i => (match determineIndex w.nb.length (.int i) with
                 | .ok k => (.ok (w.nb.getD k .nil), w)
                 | .error c => (.error c, w))
    | _ => (.error .runtime, w)
  | _ => none

def cb2 (name : String) : Option (Cb2 Val World ErrClass) :=
  match name with
  | "add" => some fun a x w => match a, x with | .num i, .num j => (.ok (.num (i + j)), w) | _, _ => (.error .runtime, w)
  | "logadd" => some fun a x w =>
    let w := { w with log := w.log ++ [x] }
    match a, x with | .num i, .num j => (.ok (.num (i + j)), w) | _, _ => (.error .runtime, w)
  | "lastr" => some fun _ x w => (.ok x, w)
  | "pair" => some fun a x w => (.ok (.tup [a, x]), { w with log := w.log ++ [x] })
  | "raise2r" => some fun a x w =>
    let w := { w with log := w.log ++ [x] }
    if x == Val.num 2 then (.error .user, w) else (.ok a, w)
  | _ => none

structure ISt where
  its : List (Nat × It) := []
  w : World := {}

def ISt.get (s : ISt) (k : Nat) : Option It := (s.its.find? (·.1 == k)).map (·.2)
def ISt.put (s : ISt) (k : Nat) (it : It) : ISt := { s with its := (k, it) :: s.its.filter (·.1 != k) }
def ISt.del (s : ISt) (k : Nat) : ISt := { s with its := s.its.filter (·.1 != k) }

/-- a parsed statement of an iterator program -/
inductive IOp where
  | newList (k : Nat) (vs : List Val) (hinted : Bool)
  | newTimes (k : Nat) (a : Arg)
  | newUntil (k : Nat) (lo : Int) (hi : Arg) (stride : Option Arg)
  | map (k : Nat) (f : Cb Val World ErrClass)
  | filter (k : Nat) (f : Cb Val World ErrClass)
  | take (k : Nat) (a : Arg)
  | skip (k : Nat) (a : Arg)
  /-- `itK.zip(a, b, …)` / `itK.chain(…)`: each argument an iterator variable (`some j`) or another value -/
  | zip (k : Nat) (js : List (Option Nat))
  | chain (k : Nat) (js : List (Option Nat))
  /-- `List.collect(v)` / `Tuple.collect(v)` with a value that is not an iterator -/
  | badCollect (asTuple : Bool)
  | next (k : Nat)
  | cur (k : Nat)
  | tList (k : Nat) (asTuple : Bool)
  | tEach (k : Nat) (f : Cb Val World ErrClass)
  | tReduce (k : Nat) (init : Val) (f : Cb2 Val World ErrClass)
  | tAllAny (k : Nat) (any : Bool) (f : Cb Val World ErrClass)
  | tFirst (k : Nat)
  | tLast (k : Nat)
  | tLen (k : Nat)

/-- an argument of `zip` / `chain`: an iterator variable `<k>` or `v:<value>` (a value that is not an iterator) -/
def parseEArg (t : String) : Option (Option Nat) :=
  if t.startsWith "v:" then some none else t.toNat?.map some

def parseIOp (op : List String) : Option IOp :=
  match op with
  | ["new", k, "list", vs] => do some (.newList (← k.toNat?) (← parseVals vs) true)
  | ["new", k, "tuple", vs] => do some (.newList (← k.toNat?) (← parseVals vs) true)
  | ["new", k, "chars", str] => do
    let k ← k.toNat?
    match ← parseVal str with
    | Val.str cs => some (.newList k ((strChars cs).map Val.str) false)
    | _ => none
  | ["new", k, "split", str, sep] => do
    let k ← k.toNat?
    let a ← parseVal str
    let b ← parseVal sep
    match a, b with
    | Val.str cs, Val.str sp => some (.newList k ((strSplit cs sp).map Val.str) false)
    | _, _ => none
  | ["new", k, "times", a] => do some (.newTimes (← k.toNat?) (← parseArg a))
  | ["new", k, "until", a, b] => do some (.newUntil (← k.toNat?) (← a.toInt?) (← parseArg b) none)
  | ["new", k, "until", a, b, c] => do some (.newUntil (← k.toNat?) (← a.toInt?) (← parseArg b) (some (← parseArg c)))
  | ["ad", k, "map", f] => do some (.map (← k.toNat?) (← cb1 f))
  | ["ad", k, "filter", f] => do some (.filter (← k.toNat?) (← cb1 f))
  | ["ad", k, "take", a] => do some (.take (← k.toNat?) (← parseArg a))
  | ["ad", k, "skip", a] => do some (.skip (← k.toNat?) (← parseArg a))
  | "ad" :: k :: "zip" :: js => do some (.zip (← k.toNat?) (← js.mapM parseEArg))
  | "ad" :: k :: "chain" :: js => do some (.chain (← k.toNat?) (← js.mapM parseEArg))
  | ["bc", "list", v] => if v.startsWith "v:" then some (.badCollect false) else none
  | ["bc", "tuple", v] => if v.startsWith "v:" then some (.badCollect true) else none
  | ["next", k] => do some (.next (← k.toNat?))
  | ["cur", k] => do some (.cur (← k.toNat?))
  | ["t", k, "list"] => do some (.tList (← k.toNat?) false)
  | ["t", k, "intolist"] => do some (.tList (← k.toNat?) false)
  | ["t", k, "intotuple"] => do some (.tList (← k.toNat?) true)
  | ["t", k, "each", f] => do some (.tEach (← k.toNat?) (← cb1 f))
  | ["t", k, "reduce", init, f] => do some (.tReduce (← k.toNat?) (← parseVal init) (← cb2 f))
  | ["t", k, "all", f] => do some (.tAllAny (← k.toNat?) false (← cb1 f))
  | ["t", k, "any", f] => do some (.tAllAny (← k.toNat?) true (← cb1 f))
  | ["t", k, "first"] => do some (.tFirst (← k.toNat?))
  | ["t", k, "last"] => do some (.tLast (← k.toNat?))
  | ["t", k, "len"] => do some (.tLen (← k.toNat?))
  | _ => none

/-- the arguments as the signature check sees them; `none` = an unknown variable (a malformed case) -/
def getAll (s : ISt) : List (Option Nat) → Option (List (EArg Val World ErrClass))
  | [] => some []
  | none :: js => (getAll s js).map (EArg.other :: ·)
  | some j :: js => match s.get j, getAll s js with
    | some it, some rest => some (EArg.iter it :: rest)
    | _, _ => none

/-- one statement of an iterator program: returns the result line -/
def stepIter (s : ISt) (op : IOp) : String × ISt :=
  let res {β : Type} (r : Except ErrClass β) (sh : β → String) : String :=
    match r with | .ok v => sh v | .error c => errLine c
  let withIt (k : Nat) (f : It → String × ISt) : String × ISt :=
    match s.get k with | some it => f it | none => ("bad-var", s)
  let fin {β : Type} (k : Nat) (r : Fin β Val World ErrClass) (sh : β → String) : String × ISt :=
    (res r.res sh, { (s.put k r.it) with w := r.w })
  match op with
  | .newList k vs hinted => ("ok", s.put k (Iter.ofList vs hinted))
  | .newTimes k a =>
    -- `NumberTimes`: `max < 0.0 || max.fract() != 0.0` → ValueError
    match a with
    | .num n => if n.ltZero || n.fractNonZero then (errLine .value, s)
                else match n with | .int i => ("ok", s.put k (Iter.times i)) | _ => ("bad-op", s)
    | .other => ("bad-op", s)
  | .newUntil k lo hi stride =>
    match hi, stride with
    | .num (.int hi), none => ("ok", s.put k (Iter.until lo hi 1))
    | .num (.int hi), some (.num st) =>
      -- `NumberUntil`: `stride <= 0.0` → ValueError
      if st.leZero then (errLine .value, s)
      else match st with | .int st => ("ok", s.put k (Iter.until lo hi st)) | _ => ("bad-op", s)
    | .other, _ => (errLine .runtime, s)
    | _, some .other => (errLine .runtime, s)
    | _, _ => ("bad-op", s)
  | .map k f => withIt k fun it => ("ok", s.put k (it.map f))
  | .filter k f => withIt k fun it => ("ok", s.put k (it.filter f))
  | .take k a => withIt k fun it =>
    match a with
    | .num n => if n.fractNonZero then (errLine .value, s) else ("ok", s.put k (it.take n.toUsize))
    | .other => (errLine .runtime, s)
  | .skip k a => withIt k fun it =>
    match a with
    | .num n =>
      if n.fractNonZero then (errLine .value, s)
      else if n.ltZero then (errLine .value, s)
      else ("ok", s.put k (it.skip n.toUsize))
    | .other => (errLine .runtime, s)
  | .zip k js => withIt k fun it =>
    match getAll s js with
    | some args =>
      (match it.zipNew args with
       | .ok z => ("ok", (js.filterMap id |>.foldl (fun s j => s.del j) s).put k z)
       | .error c => (errLine c, s))
    | none => ("bad-var", s)
  | .chain k js => withIt k fun it =>
    match getAll s js with
    | some args =>
      (match it.chainNew args with
       | .ok z => ("ok", (js.filterMap id |>.foldl (fun s j => s.del j) s).put k z)
       | .error c => (errLine c, s))
    | none => ("bad-var", s)
  | .badCollect asTuple =>
    match collectArg (EArg.other : EArg Val World ErrClass) s.w with
    | none => (errLine .runtime, s)
    | some r => (res r.res (fun xs => showTop (if asTuple then Val.tup xs else Val.list xs)), s)
  | .next k => withIt k fun it =>
    let r := it.step s.w
    (match r.1 with | .ok b => (if b then "true" else "false") | .err c => errLine c,
     { (s.put k r.2.1) with w := r.2.2 })
  | .cur k => withIt k fun it => (showTop it.current, s)
  | .tList k asTuple => withIt k fun it =>
    fin k (it.collect s.w) (fun xs => showTop (if asTuple then Val.tup xs else Val.list xs))
  | .tEach k f => withIt k fun it => fin k (it.each f s.w) (fun _ => "nil")
  | .tReduce k init f => withIt k fun it => fin k (it.reduce init f s.w) showTop
  | .tAllAny k any f => withIt k fun it =>
    fin k (if any then it.any f s.w else it.all f s.w) (fun b => if b then "true" else "false")
  | .tFirst k => withIt k fun it => fin k (it.first s.w) showTop
  | .tLast k => withIt k fun it => fin k (it.last s.w) showTop
  | .tLen k => withIt k fun it => fin k (it.len s.w) toString

/-! ### cases -/

def splitOps (line : String) : List (List String) :=
  (line.splitOn ";").map toks |>.filter (· ≠ [])

def goListSpec (xs : List Val) (ops : List (List String)) (acc : List String) : List String :=
  match ops with
  | [] => acc.reverse
  | op :: rest => match stepListSpec xs op with
    | some (r, xs') => goListSpec xs' rest (showTop (.list xs') :: r :: acc)
    | none => ("bad-op" :: acc).reverse

def goListModel (b : RawVec Val) (ops : List (List String)) (acc : List String) : List String :=
  match ops with
  | [] => acc.reverse
  | op :: rest => match stepListModel b op with
    | some (r, some b') => goListModel b' rest (showTop (.list b'.toList) :: r :: acc)
    | some (r, none) => (r :: acc).reverse
    | none => ("bad-op" :: acc).reverse

def goMapSpec (keys : List Key) (m : FinMap) (ops : List (List String)) (acc : List String) : List String :=
  match ops with
  | [] => acc.reverse
  | op :: rest => match stepMapSpec m op with
    | some (r, m') => goMapSpec keys m' rest (probe m'.f m'.support.length keys :: r :: acc)
    | none => ("bad-op" :: acc).reverse

def goMapModel (keys : List Key) (m : AMap Key Val) (ops : List (List String)) (acc : List String) : List String :=
  match ops with
  | [] => acc.reverse
  | op :: rest => match stepMapModel m op with
    | some (r, m') => goMapModel keys m' rest (probe (mapGet m') (mapLen m') keys :: r :: acc)
    | none => ("bad-op" :: acc).reverse

def goIter (s : ISt) (ops : List (List String)) (acc : List String) : List String :=
  match ops with
  | [] => acc.reverse
  | op :: rest => match parseIOp op with
    | some op =>
      let r := stepIter s op
      goIter r.2 rest (showTop (.list r.2.w.nb) :: showTop (.list r.2.w.log) :: r.1 :: acc)
    | none => ("bad-op" :: acc).reverse

def runCase (spec : Bool) (line : String) : String :=
  let join (ls : List String) := "\t".intercalate ls
  match splitOps line with
  | ["list", vs] :: ops =>
    match parseVals vs with
    | none => "bad-case"
    | some xs => join (if spec then goListSpec xs ops [] else goListModel (RawVec.ofList xs) ops [])
  | ["tuple", vs] :: ops =>
    match parseVals vs with
    | none => "bad-case"
    | some t => join (ops.map fun op => (stepTuple spec t op).getD "bad-op")
  | ["str", sv] :: ops =>
    match parseVal sv with
    | some (.str cs) => join (ops.map fun op => (stepStr spec cs op).getD "bad-op")
    | _ => "bad-case"
  | ["map", kvs, "keys", ks] :: ops =>
    match parseVals ks with
    | none => "bad-case"
    | some ks =>
      let keys := ks.filterMap toKey
      let init : Option (List (Key × Val)) :=
        if kvs == "-" then some []
        else (kvs.splitOn ",").mapM fun kv => match kv.splitOn "=" with
          | [k, v] => do let k ← (← parseVal k) |> toKey; let v ← parseVal v; some (k, v)
          | _ => none
      match init with
      | none => "bad-case"
      | some init =>
        if spec then
          join (goMapSpec keys (init.foldl (fun m kv => m.set kv.1 kv.2) { f := fun _ => none, support := [] }) ops [])
        else
          join (goMapModel keys (init.foldl (fun m kv => (mapSet m kv.1 kv.2).2) []) ops [])
  | ["iter"] :: ops => if spec then "no-spec" else join (goIter {} ops [])
  | _ => "bad-case"

end Driver.Coll

partial def collLoop (h : IO.FS.Stream) (out : IO.FS.Stream) (spec : Bool) : IO Unit := do
  let line ← h.getLine
  if line.isEmpty then return ()
  out.putStrLn (Driver.Coll.runCase spec line)
  collLoop h out spec

def main (args : List String) : IO UInt32 := do
  let stdin ← IO.getStdin
  let stdout ← IO.getStdout
  match args with
  | ["model"] => collLoop stdin stdout false; return 0
  | ["spec"] => collLoop stdin stdout true; return 0
  | _ => IO.eprintln "usage: drv_coll model|spec"; return 2
