import LaytheVerif.Model.Verifier
import LaytheVerif.Model.Encode
/-! Line-protocol engine for the bytecode verifier.
Request: `arity=<n> max_slots=<n> captures=<n> consts=<k1,k2,..>|<instr;instr;...>|<off,depth,handlers ...>`
(constants: `fun:<captures>:<name>` or anything else; the third field = probe points, may be empty).
Reply: `ok maxdepth=<n> handlers=<n> probe=<checked>` or `fail pc=<n> instr=<i> depth=<d> handlers=<h> reason=<...>`. -/
namespace Driver.VerifyEng
open LaytheVerif.Gen LaytheVerif.Verifier

def parseKV (w : String) (k : String) : Option Nat :=
  match w.splitOn "=" with
  | [a, b] => if a == k then b.toNat? else none
  | _ => none

def parseConsts (w : String) : List (Option Nat) :=
  match w.splitOn "=" with
  | [_, ""] => []
  | _ :: rest =>
    let body := "=".intercalate rest
    (body.splitOn ",").map fun k =>
      match k.splitOn ":" with
      | "fun" :: n :: _ => n.toNat?
      | _ => none
  | _ => []

def parseCode (s : String) : Option (List Sym) :=
  ((s.splitOn ";").filter (fun p => p.trimAscii.toString ≠ "")).mapM fun p =>
    Sym.ofTokens ((p.trimAscii.toString.splitOn " ").filter (· ≠ ""))

def offsets (code : List Sym) : List Nat :=
  (code.foldl (fun (acc : List Nat × Nat) i => (acc.1 ++ [acc.2], acc.2 + i.len)) ([], 0)).1

def showSt (s : St) : String := s!"depth={s.depth} handlers={s.handlers.length}"

def reason (c : FunCtx) (code : List Sym) (pc : Nat) (s : St) : String :=
  match code[pc]? with
  | none => "fell-off-end"
  | some i =>
    if !(operandsOk c s.depth i) then "operand-out-of-range"
    else if s.depth > c.capacity then "over-capacity"
    else match i with
    | .PushHandler d _ => if d != s.depth then s!"handler-depth-recorded={d}" else "handler"
    | .Return => if !s.handlers.isEmpty then "return-with-handler" else "return-depth"
    | .PopHandler => "pop-without-handler"
    | .Closure _ => "closure-operands"
    | .CaptureIndex _ => "stray-capture-index"
    | _ =>
      match vmEffect i with
      | some (po, pu) =>
        if s.depth < c.arity + 1 + po then "underflow"
        else if s.depth - po + pu > c.capacity then "over-capacity-after"
        else "jump-or-raise-target"
      | none => "jump-or-raise-target"

def step (_ : Unit) (line : String) : Unit × String :=
  match line.splitOn "|" with
  | hd :: codeS :: rest =>
    let ws := (hd.trimAscii.toString.splitOn " ").filter (· ≠ "")
    let get (k : String) : Option Nat := ws.findSome? (parseKV · k)
    match get "arity", get "max_slots", get "captures", parseCode codeS with
    | some a, some m, some cp, some code =>
      let consts := match ws.find? (·.startsWith "consts=") with
        | some w => parseConsts w
        | none => []
      let c : FunCtx := { arity := a, maxSlots := m, captures := cp, consts := consts }
      match verify c code with
      | .ok cert =>
        let sts := cert.filterMap id
        let maxd := sts.foldl (fun acc s => max acc s.depth) 0
        let nh := (code.filter fun i => match i with | .PushHandler _ _ => true | _ => false).length
        -- probe points: byte offset, depth, handlers of this frame
        let offs := offsets code
        let pts := match rest with
          | p :: _ => (p.trimAscii.toString.splitOn " ").filter (· ≠ "")
          | [] => []
        let bad := pts.filterMap fun pt =>
          match pt.splitOn "," with
          | [o, d, h] =>
            match o.toNat?, d.toNat?, h.toNat? with
            | some o, some d, some h =>
              -- the instruction index whose encoding starts at byte offset o (skip zero-length ones)
              let idx := (List.range code.length).find? fun i => offs[i]! == o && (code[i]!).len > 0
              match idx with
              | some i =>
                match cert[i]! with
                | some s => if s.depth == d && s.handlers.length == h then none
                            else some s!"{o}:{d}/{h}!={s.depth}/{s.handlers.length}"
                | none => some s!"{o}:unreachable-in-cert"
              | none => some s!"{o}:not-a-boundary"
            | _, _, _ => some "bad-point"
          | _ => some "bad-point"
        if bad.isEmpty then ((), s!"ok maxdepth={maxd} capacity={c.capacity} handlers={nh} probe={pts.length}")
        else ((), s!"probe-mismatch {" ".intercalate (bad.take 5)}")
      | .conflict pc h w =>
        ((), s!"fail pc={pc} instr={(code[pc]!).toText} kind=join-conflict have:{showSt h} want:{showSt w}")
      | .stuck pc s =>
        ((), s!"fail pc={pc} instr={match code[pc]? with | some i => i.toText | none => "<end>"} {showSt s} reason={reason c code pc s}")
      | .fuel => ((), "fail fuel")
    | _, _, _, _ => ((), "bad-op")
  | _ => ((), "bad-op")

def hex2 (n : Nat) : String :=
  if n ≥ 256 then "??" else
  let d (k : Nat) : Char := if k < 10 then Char.ofNat (48 + k) else Char.ofNat (87 + k)
  String.ofList [d (n / 16), d (n % 16)]

/-- `encode`: one `instr;instr;...` list per line → the model's byte encoding in hex (`??` = cache-slot byte). -/
def stepEncode (_ : Unit) (line : String) : Unit × String :=
  match parseCode line with
  | some code =>
    match LaytheVerif.Encode.encode code with
    | some bs => ((), "".intercalate (bs.map hex2))
    | none => ((), "unencodable")
  | none => ((), "bad-op")

end Driver.VerifyEng
