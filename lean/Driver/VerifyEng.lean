import LaytheVerif.Model.Verifier
import LaytheVerif.Model.EffectRows
import LaytheVerif.Model.Encode
/-! Line-protocol engine for the bytecode verifier.
Request: `arity=<n> max_slots=<n> captures=<n> consts=<k1,k2,..>|<instr;instr;...>|<off,depth,handlers ...>`
(constants: `fun:<captures>:<name>` or anything else; the third field = probe points, may be empty).
Reply: `ok maxdepth=<n> capacity=<n> handlers=<n> probe=<checked> allreach=<0|1> cover=<Name:occ:h:p,...>` or
`fail pc=<n> instr=<i> depth=<d> handlers=<h> reason=<...>`.
`cover`: per variant occurring at an index the certificate reaches: occurrences, h=1 when a reachable `PushHandler`
follows some occurrence in instruction order (a wrong table row is then visible in the recorded handler depth),
p=1 when the function's depth peak is strictly later than some occurrence (an under-estimate lowers `max_slots`).
Request `!effectdiff`: reply `effectdiff <Name:operands:table=<n>:model=<n>> ...` — the sample instructions whose row of
the regenerated `stack_effect` table differs from the model (`EffectRows.differingRows`); `!variants` lists `Gen.symNames`. -/
namespace Driver.VerifyEng
open LaytheVerif.Gen LaytheVerif.Verifier

def parseKV (w : String) (k : String) : Option Nat :=
  match w.splitOn "=" with
  | [a, b] => if a == k then b.toNat? else none
  | _ => none

def parseConsts (w : String) : List (Option Nat) :=
  match w.splitOn "=" with
  | [_, ""] => []
  | _ :: rest =>
    let body := "=".intercalate rest
    (body.splitOn ",").map fun k =>
      match k.splitOn ":" with
      | "fun" :: n :: _ => n.toNat?
      | _ => none
  | _ => []

def parseCode (s : String) : Option (List Sym) :=
  ((s.splitOn ";").filter (fun p => p.trimAscii.toString ≠ "")).mapM fun p =>
    Sym.ofTokens ((p.trimAscii.toString.splitOn " ").filter (· ≠ ""))

def offsets (code : List Sym) : List Nat :=
  (code.foldl (fun (acc : List Nat × Nat) i => (acc.1 ++ [acc.2], acc.2 + i.len)) ([], 0)).1

def showSt (s : St) : String := s!"depth={s.depth} handlers={s.handlers.length}"

def reason (c : FunCtx) (code : List Sym) (pc : Nat) (s : St) : String :=
  match code[pc]? with
  | none => "fell-off-end"
  | some i =>
    if !(operandsOk c s.depth i) then "operand-out-of-range"
    else if s.depth > c.capacity then "over-capacity"
    else match i with
    | .PushHandler d _ => if d != s.depth then s!"handler-depth-recorded={d}" else "handler"
    | .Return => if !s.handlers.isEmpty then "return-with-handler" else "return-depth"
    | .PopHandler => "pop-without-handler"
    | .Closure _ => "closure-operands"
    | .CaptureIndex _ => "stray-capture-index"
    | _ =>
      match vmEffect i with
      | some (po, pu) =>
        if s.depth < c.arity + 1 + po then "underflow"
        else if s.depth - po + pu > c.capacity then "over-capacity-after"
        else "jump-or-raise-target"
      | none => "jump-or-raise-target"

def isPush : Sym → Bool
  | .PushHandler _ _ => true
  | _ => false

/-- per index, about the *later* reachable indices: (a `PushHandler` occurs, the largest depth) -/
def suffixInfo (xs : List (Sym × Option St)) : List (Bool × Nat) :=
  (xs.foldr (fun (x : Sym × Option St) (acc : List (Bool × Nat) × Bool × Nat) =>
    let acc' := (acc.2.1, acc.2.2) :: acc.1
    match x.2 with
    | some st => (acc', acc.2.1 || isPush x.1, max acc.2.2 st.depth)
    | none => (acc', acc.2.1, acc.2.2)) ([], false, 0)).1

def isCaptureOperand : Sym → Bool
  | .CaptureIndex _ => true
  | _ => false

def isClosure : Sym → Bool
  | .Closure _ => true
  | _ => false

def cover (code : List Sym) (cert : Cert) : String :=
  let xs := code.zip cert
  let suf := suffixInfo xs
  let init : Array (Nat × Bool × Bool) := Array.replicate symNames.length (0, false, false)
  -- state: table, largest depth so far, "the previous entry was a counted Closure or one of its capture operands"
  let (tab, _, _) := (xs.zip suf).foldl (fun (acc : Array (Nat × Bool × Bool) × Nat × Bool) (y : (Sym × Option St) × (Bool × Nat)) =>
    let bump (pre : Nat) : Array (Nat × Bool × Bool) :=
      let k := y.1.1.ctorIdx
      let old := acc.1[k]!
      acc.1.set! k (old.1 + 1, old.2.1 || y.2.1, old.2.2 || decide (y.2.2 > pre))
    match y.1.2 with
    | none =>
      -- the capture operands of a reached `Closure` carry no state of their own in the certificate
      if acc.2.2 && isCaptureOperand y.1.1 then (bump acc.2.1, acc.2.1, true) else (acc.1, acc.2.1, false)
    | some st =>
      let pre := max acc.2.1 st.depth
      (bump pre, pre, isClosure y.1.1)) (init, 0, false)
  let rows := (List.range symNames.length).filterMap fun k =>
    let r := tab[k]!
    if r.1 == 0 then none
    else some s!"{symNames[k]!}:{r.1}:{if r.2.1 then 1 else 0}:{if r.2.2 then 1 else 0}"
  ",".intercalate rows

def step (_ : Unit) (line : String) : Unit × String :=
  if line.trimAscii.toString == "!effectdiff" then
    ((), "effectdiff " ++ " ".intercalate (differingRows.map showRow))
  else if line.trimAscii.toString == "!variants" then
    ((), "variants " ++ " ".intercalate symNames)
  else
  match line.splitOn "|" with
  | hd :: codeS :: rest =>
    let ws := (hd.trimAscii.toString.splitOn " ").filter (· ≠ "")
    let get (k : String) : Option Nat := ws.findSome? (parseKV · k)
    match get "arity", get "max_slots", get "captures", parseCode codeS with
    | some a, some m, some cp, some code =>
      let consts := match ws.find? (·.startsWith "consts=") with
        | some w => parseConsts w
        | none => []
      let c : FunCtx := { arity := a, maxSlots := m, captures := cp, consts := consts }
      match verify c code with
      | .ok cert =>
        let sts := cert.filterMap id
        let maxd := sts.foldl (fun acc s => max acc s.depth) 0
        let nh := (code.filter fun i => match i with | .PushHandler _ _ => true | _ => false).length
        -- probe points: byte offset, depth, handlers of this frame
        let offs := offsets code
        let pts := match rest with
          | p :: _ => (p.trimAscii.toString.splitOn " ").filter (· ≠ "")
          | [] => []
        let bad := pts.filterMap fun pt =>
          match pt.splitOn "," with
          | [o, d, h] =>
            match o.toNat?, d.toNat?, h.toNat? with
            | some o, some d, some h =>
              -- the instruction index whose encoding starts at byte offset o (skip zero-length ones)
              let idx := (List.range code.length).find? fun i => offs[i]! == o && (code[i]!).len > 0
              match idx with
              | some i =>
                match cert[i]! with
                | some s => if s.depth == d && s.handlers.length == h then none
                            else some s!"{o}:{d}/{h}!={s.depth}/{s.handlers.length}"
                | none => some s!"{o}:unreachable-in-cert"
              | none => some s!"{o}:not-a-boundary"
            | _, _, _ => some "bad-point"
          | _ => some "bad-point"
        -- every instruction is reached (the capture operands of a reached `Closure` have no state of their own)
        let allreach := (code.zip cert).all fun (x : Sym × Option St) => x.2.isSome || isCaptureOperand x.1
        if bad.isEmpty then ((), s!"ok maxdepth={maxd} capacity={c.capacity} handlers={nh} probe={pts.length} allreach={if allreach then 1 else 0} cover={cover code cert}")
        else ((), s!"probe-mismatch {" ".intercalate (bad.take 5)}")
      | .conflict pc h w =>
        ((), s!"fail pc={pc} instr={(code[pc]!).toText} kind=join-conflict have:{showSt h} want:{showSt w}")
      | .stuck pc s =>
        ((), s!"fail pc={pc} instr={match code[pc]? with | some i => i.toText | none => "<end>"} {showSt s} reason={reason c code pc s}")
      | .fuel => ((), "fail fuel")
    | _, _, _, _ => ((), "bad-op")
  | _ => ((), "bad-op")

def hex2 (n : Nat) : String :=
  if n ≥ 256 then "??" else
  let d (k : Nat) : Char := if k < 10 then Char.ofNat (48 + k) else Char.ofNat (87 + k)
  String.ofList [d (n / 16), d (n % 16)]

/-- `encode`: one `instr;instr;...` list per line → the model's byte encoding in hex (`??` = cache-slot byte). -/
def stepEncode (_ : Unit) (line : String) : Unit × String :=
  match parseCode line with
  | some code =>
    match LaytheVerif.Encode.encode code with
    | some bs => ((), "".intercalate (bs.map hex2))
    | none => ((), "unencodable")
  | none => ((), "bad-op")

end Driver.VerifyEng
