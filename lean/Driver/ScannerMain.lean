import LaytheVerif.Model.Scanner
import Driver.ContractEng
/-! `drv_scanner`: one hex-encoded UTF-8 source text per stdin line; prints the model's token stream with BYTE offsets
(`T kind start end [err];…`), the line-offset table after a complete scan (`L …`) and, for every error token after which
the parser may stop pulling tokens, the table obtained by sweeping the rest (`A index=…`) when it differs. -/
open LaytheVerif LaytheVerif.Scanner

def hexNibble (c : Char) : Option Nat :=
  if c.isDigit then some (c.toNat - '0'.toNat)
  else if 'a' ≤ c ∧ c ≤ 'f' then some (c.toNat - 'a'.toNat + 10)
  else if 'A' ≤ c ∧ c ≤ 'F' then some (c.toNat - 'A'.toNat + 10)
  else none

partial def unhexAux (cs : List Char) (acc : ByteArray) : Option ByteArray :=
  match cs with
  | [] => some acc
  | a :: b :: r => match hexNibble a, hexNibble b with
    | some x, some y => unhexAux r (acc.push (UInt8.ofNat (x * 16 + y)))
    | _, _ => none
  | _ => none

def byteTable (cs : List Char) : Array Nat := Id.run do
  let mut arr : Array Nat := #[0]
  let mut acc := 0
  for c in cs do
    acc := acc + c.utf8Size
    arr := arr.push acc
  return arr

def byteOff (tbl : Array Nat) (k : Nat) : Nat :=
  let n := tbl.size - 1
  if k ≤ n then tbl[k]! else tbl[n]! + (k - n)

def showErr : Option Err → String
  | none => ""
  | some e => " " ++ (reprStr e).replace "LaytheVerif.Scanner.Err." ""

def renderLines (tbl : Array Nat) (ls : List Nat) : String :=
  ",".intercalate (ls.map fun o => toString (byteOff tbl o))

/-- iterative version of `scanStates` (same function, no deep recursion) -/
partial def states (s : St) (acc : Array (Token × St)) : Array (Token × St) :=
  let (t, s') := scanToken s
  if t.kind = .Eof then acc.push (t, s') else states s' (acc.push (t, s'))

def processLine (line : String) : String :=
  match unhexAux line.trimAscii.toString.toList ByteArray.empty with
  | none => "bad-hex"
  | some bytes =>
    match String.fromUTF8? bytes with
    | none => "bad-utf8"
    | some str =>
      let cs := str.toList
      let tbl := byteTable cs
      let sts := states (init cs) #[]
      let toks := sts.toList.map fun (t, _) =>
        s!"T {t.kind.name} {byteOff tbl t.start} {byteOff tbl t.stop}{showErr t.err}"
      let full := match sts.back? with
        | some (_, s) => lineTable s
        | none => [0]
      let alts := (sts.toList.zipIdx).filterMap fun ((t, s), i) =>
        if t.kind = .Error ∧ lineTable s ≠ full then some s!"{i}={renderLines tbl (lineTable s)}" else none
      ";".intercalate toks ++ "|L " ++ renderLines tbl full ++ "|A " ++ ";".intercalate alts

partial def loop (h : IO.FS.Stream) (out : IO.FS.Stream) : IO Unit := do
  let line ← h.getLine
  if line.isEmpty then return ()
  out.putStrLn (processLine line)
  out.flush
  loop h out

def main (args : List String) : IO UInt32 := do
  let stdin ← IO.getStdin
  let stdout ← IO.getStdout
  match args with
  | [] | ["scan"] => loop stdin stdout; return 0
  | ["contract"] => Driver.ContractEng.loop stdin stdout; return 0
  | _ => IO.eprintln "usage: drv_scanner [scan|contract]"; return 2
