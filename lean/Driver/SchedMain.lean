import LaytheVerif.Model.Sched
/-!
`drv_sched`: line-protocol driver for the scheduler model and its Spec (C08, fiber-level C07).

Network text:  `<caps>|<body 0>|<body 1>|...`   caps: `s` (sync) or a capacity, space separated;
body: operations separated by `,`:  `s p v` send · `r p` receive · `c p` close · `L t a0 a1 ..` launch
template `t` with channel arguments · `p v` print.  (`p`, `a*` are parameter positions of the
enclosing body; the script's parameters are the channels themselves.)

Requests:
  `run <net>`                       → `<kind>;<events>;<v1>;<v2>;<sig>;<stats>`
       kind   exit | deadlock | error:<e> | panic:<assert> | fuel           (the model's outcome)
       events `g<t>:<v|nil>` / `p<t>:<v>` space separated, `-` if none      (the model's output)
       v1     state-level Spec verdict on the model's final state
       v2     trace-level Spec verdict on the model's output (yes|no|unknown)
       sig    in | D4 | D5 | D17 | D18 | D26 | other (envelope / which known finding the deviation is)
  `judge <kind>;<events>;<net>`     → yes | no | unknown   (can the abstract network produce this?)
  `trace <net>`                     → the scheduler event log of the model
-/
open LaytheVerif.Sched

namespace Driver.Sched

def words (s : String) : List String := (s.splitOn " ").filter (· ≠ "")

def parseOp (s : String) : Option Op :=
  match words s with
  | ["s", p, v] => do pure (.send (← p.toNat?) (← v.toNat?))
  | ["r", p] => do pure (.recv (← p.toNat?))
  | ["c", p] => do pure (.close (← p.toNat?))
  | ["p", v] => do pure (.print (← v.toNat?))
  | "L" :: t :: args => do pure (.launch (← t.toNat?) (← args.mapM (·.toNat?)))
  | _ => none

def parseBody (s : String) : Option (List Op) :=
  ((s.splitOn ",").filter (fun x => words x ≠ [])).mapM parseOp

def parseCap (s : String) : Option (Option Nat) :=
  if s == "s" then some none else
  match s.toNat? with
  | some (k + 1) => some (some (k + 1))
  | _ => none

def parseNet (s : String) : Option Net :=
  match s.splitOn "|" with
  | caps :: bodies => do
    pure { caps := ← (words caps).mapM parseCap, bodies := ← bodies.mapM parseBody }
  | _ => none

def showEvent : Event → String
  | .got t (some v) => s!"g{t}:{v}"
  | .got t none => s!"g{t}:nil"
  | .printed t v => s!"p{t}:{v}"

def showEvents (es : List Event) : String :=
  if es.isEmpty then "-" else " ".intercalate (es.map showEvent)

def parseEvent (s : String) : Option Event :=
  match s.splitOn ":" with
  | [a, b] =>
    if a.startsWith "g" then do
      let t ← (a.drop 1).toNat?
      if b == "nil" then pure (.got t none) else pure (.got t (some (← b.toNat?)))
    else if a.startsWith "p" then do pure (.printed (← (a.drop 1).toNat?) (← b.toNat?))
    else none
  | _ => none

def parseEvents (s : String) : Option (List Event) :=
  if s.trimAscii.toString == "-" then some [] else (words s).mapM parseEvent

def showAssert : Assert → String
  | .activate => "activate" | .sleep => "sleep" | .block => "block" | .unblock => "unblock" | .complete => "complete"

def showErr : Err → String
  | .sendClosed => "sendClosed" | .alreadyClosed => "alreadyClosed" | .noAccess => "noAccess"

def showOutcome : Outcome → String
  | .running => "fuel" | .exit => "exit" | .deadlock => "deadlock"
  | .error e => "error:" ++ showErr e | .panic a => "panic:" ++ showAssert a

def parseTerm (s : String) : Option Term :=
  match s with
  | "exit" => some .exit | "deadlock" => some .deadlock
  | "error:sendClosed" => some (.error .sendClosed) | "error:alreadyClosed" => some (.error .alreadyClosed)
  | _ => none

def showExplained : Explained → String
  | .yes => "yes" | .no => "no" | .unknown => "unknown"

/-- why is fiber `i` enabled in `s`: `close` if only because the channel was closed, else `value`/`room`/`taken`/`code` -/
def reason (s : Spec.S) (i : Nat) : String :=
  match s.fibers[i]? with
  | none => "?"
  | some f =>
    match f.ack with
    | some _ => "taken"
    | none =>
      match f.prog with
      | .send p _ :: _ => if (s.chan (f.env.getD p 0)).closed then "close" else "room"
      | .recv p :: _ => if !(s.chan (f.env.getD p 0)).queue.isEmpty then "value" else "close"
      | _ => "code"

def enabledReasons (s : Spec.S) : List String :=
  ((List.range s.fibers.length).filter (Spec.enabled s)).map (reason s)

def showVerdict (vm : VM) : String :=
  match verdict vm with
  | .ok => "ok"
  | .spuriousDeadlock i => s!"spurious:{i}:" ++ ",".intercalate (enabledReasons vm.abs)
  | .hostPanic a => "panic:" ++ showAssert a
  | .unfinished => "unfinished"

def termOf : Outcome → Option Term
  | .exit => some .exit | .deadlock => some .deadlock | .error e => some (.error e) | _ => none

def signature (vm : VM) (v2 : Explained) : String :=
  match verdict vm with
  | .hostPanic .activate => "D17"
  | .hostPanic .unblock => "D18"
  | .hostPanic _ => "other"
  | .unfinished => "other"
  | .spuriousDeadlock _ => if (enabledReasons vm.abs).all (· == "close") then "D4" else "D5"
  | .ok =>
    if vm.trace.any (fun | .premature _ => true | _ => false) then "D26"
    else if v2 == .yes then "in" else "other"

def count (vm : VM) (p : Tr → Bool) : Nat := (vm.trace.filter p).length

def stats (vm : VM) : String :=
  let sw := count vm (fun | .switch _ => true | _ => false)
  let wd := count vm (fun | .wakeDirect _ => true | _ => false)
  let ws := count vm (fun | .wakeScan _ => true | _ => false)
  let wp := count vm (fun | .wakeParent _ => true | _ => false)
  let re := count vm (fun | .retry _ => true | _ => false)
  let fi := count vm (fun | .finish _ => true | _ => false)
  let pa := count vm (fun | .premature _ => true | _ => false)
  s!"switch={sw} wdirect={wd} wscan={ws} wparent={wp} retry={re} finish={fi} fibers={vm.fibers.length} out={vm.out.length} premature={pa}"

def fuel : Nat := 4000

def doRun (net : Net) : String :=
  let vm := runNet fuel net
  let v2 := match termOf vm.outcome with
    | some t => explains net vm.out t
    | none => .no
  s!"{showOutcome vm.outcome};{showEvents vm.out};{showVerdict vm};{showExplained v2};{signature vm v2};{stats vm}"

def showTr : Tr → String
  | .switch f => s!"switch {f}" | .wakeDirect w => s!"wake-direct {w}" | .wakeScan w => s!"wake-scan {w}"
  | .wakeParent w => s!"wake-parent {w}" | .retry f => s!"retry {f}" | .park f => s!"park {f}" | .finish f => s!"finish {f}"
  | .premature f => s!"premature-ack {f}"

def handle (line : String) : String :=
  let line := line.trimAscii.toString
  if line.startsWith "run " then
    match parseNet (line.drop 4).toString with
    | some net => doRun net
    | none => "bad-net"
  else if line.startsWith "trace " then
    match parseNet (line.drop 6).toString with
    | some net => "; ".intercalate ((runNet fuel net).trace.map showTr)
    | none => "bad-net"
  else if line.startsWith "judge " then
    match (line.drop 6).toString.splitOn ";" with
    | [k, ev, net] =>
      match parseTerm k.trimAscii.toString, parseEvents ev, parseNet net with
      | some t, some es, some net => showExplained (explains net es t)
      | none, _, some _ => "no"     -- panics, step limits, crashes: never allowed
      | _, _, _ => "bad-request"
    | _ => "bad-request"
  else "bad-request"

end Driver.Sched

partial def loop (h : IO.FS.Stream) (out : IO.FS.Stream) : IO Unit := do
  let line ← h.getLine
  if line.isEmpty then return ()
  out.putStrLn (Driver.Sched.handle line)
  out.flush
  loop h out

def main (_ : List String) : IO UInt32 := do
  loop (← IO.getStdin) (← IO.getStdout)
  return 0
