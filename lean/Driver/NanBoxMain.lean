import LaytheVerif.Model.NanBoxModel
/-!
`drv_nanbox <enum|boxed|spec>`: line-protocol driver for the value-representation models (C14).

requests                      responses
  objs <hexaddr>*               echo (stores the addresses of the harness' objects)
  v <spec> | pool <spec>        one line of fields (pool also appends the value to the pool)
  alleq                         `eq i-j ...` : all pairs i ≤ j of the pool that compare equal
  clear                         ok
<spec> ::= nil | undef | true | false | num <hex16> | obj <k>
-/
namespace Driver.NanBox
open LaytheVerif.Gen.NanBox LaytheVerif.NanBox

structure St where
  objs : Array (BitVec 64) := #[]
  pool : Array Abs := #[]

def hexDigit (n : Nat) : Char := "0123456789abcdef".toList.getD n '0'

def hexNat (n : Nat) : String :=
  if n < 16 then String.singleton (hexDigit n)
  else
    let rec go (fuel : Nat) (n : Nat) (acc : List Char) : List Char :=
      match fuel with
      | 0 => acc
      | fuel + 1 => if n = 0 then acc else go fuel (n / 16) (hexDigit (n % 16) :: acc)
    String.ofList (go 40 n [])

def hex16 (x : BitVec 64) : String :=
  let s := hexNat x.toNat
  String.ofList (List.replicate (16 - s.length) '0') ++ s

def parseHex (s : String) : Option Nat :=
  let cs := s.toList
  if cs.isEmpty then none else
  cs.foldl (fun acc c =>
    match acc with
    | none => none
    | some n =>
      if '0' ≤ c ∧ c ≤ '9' then some (n * 16 + (c.toNat - '0'.toNat))
      else if 'a' ≤ c ∧ c ≤ 'f' then some (n * 16 + (c.toNat - 'a'.toNat + 10))
      else if 'A' ≤ c ∧ c ≤ 'F' then some (n * 16 + (c.toNat - 'A'.toNat + 10))
      else none) (some 0)

def parseSpec (st : St) : List String → Option (Abs × Bool)   -- (value, spec is an object)
  | ["nil"] => some (.nil, false)
  | ["undef"] => some (.undefined, false)
  | ["true"] => some (.bool true, false)
  | ["false"] => some (.bool false, false)
  | ["num", h] => (parseHex h).map fun n => (.num (BitVec.ofNat 64 n), false)
  | ["obj", k] => match k.toNat? with
    | some k => if h : k < st.objs.size then some (.obj st.objs[k], true) else none
    | none => none
  | _ => none

def b01 (b : Bool) : String := if b then "1" else "0"

def kindStr : Option Kind → String
  | some k => k.name
  | none => "PANIC"

def objIndex (st : St) (p : BitVec 64) : String :=
  match st.objs.toList.findIdx? (· == p) with
  | some i => toString i
  | none => "BAD:" ++ hex16 p

def showHash (k : HashKey) : String :=
  ",".intercalate (k.map fun (n, v) => n ++ ":" ++ hexNat v)

def fields (kind : String) (nil undef bool fls num obj : Bool) (tonum tobool toobj raw hash : String) : String :=
  s!"kind={kind} nil={b01 nil} undef={b01 undef} bool={b01 bool} false={b01 fls} num={b01 num} obj={b01 obj} tonum={tonum} tobool={tobool} toobj={toobj} raw={raw} hash={hash}"

/-- the boxed build: everything is computed from the bits `encode a` -/
def showBoxed (st : St) (a : Abs) (isObjSpec : Bool) : String :=
  let x := encode a
  fields (kindStr (kind x)) (is_nil x) (is_undefined x) (is_bool x) (is_false x) (is_num x) (is_obj x)
    (if is_num x then hex16 (to_num x) else "-")
    (if is_bool x then b01 (to_bool x) else "-")
    (if is_obj x then (if isObjSpec then objIndex st (to_obj x) else "?") else "-")
    (hex16 x) (showHash (boxedHash x))

/-- the enum build -/
def showEnum (st : St) (a : Abs) : String :=
  fields (kindStr (enumKind a)) (enumIsNil a) (enumIsUndefined a) (enumIsBool a) (enumIsFalse a) (enumIsNum a) (enumIsObj a)
    (match a with | .num x => hex16 x | _ => "-")
    (match a with | .bool b => b01 b | _ => "-")
    (match a with | .obj p => objIndex st p | _ => "-")
    "-" (showHash (enumHash a))

/-- cross-checks of the bit-level IEEE definitions against Lean's `Float` (second opinion) -/
def selfCheck (a : Abs) : Bool :=
  match a with
  | .num x =>
    let f := Float.ofBits x.toNat.toUInt64
    (isNaN x == f.isNaN) && (ieeeEq x x == (f == f)) && (isZero x == (f == 0.0)) &&
    (f64ToU64 x == f.toUInt64.toNat)
  | _ => true

/-- what the Spec demands of a value built from `a` (no raw bits, no hash) -/
def showSpec (st : St) (a : Abs) : String :=
  let k := a.kind
  fields k.name (k == .Nil) (k == .Undefined) (k == .Bool) (a == .bool false) (k == .Number) (k == .Obj)
    (match a with | .num x => hex16 x | _ => "-")
    (match a with | .bool b => b01 b | _ => "-")
    (match a with | .obj p => objIndex st p | _ => "-")
    "-" "-" ++ s!" inenv={b01 a.ok} selfcheck={b01 (selfCheck a)}"

def specEqChecked (a b : Abs) : Bool × Bool :=
  let r := specEq a b
  match a, b with
  | .num x, .num y =>
    let fx := Float.ofBits x.toNat.toUInt64
    let fy := Float.ofBits y.toNat.toUInt64
    (r, r == (fx == fy))
  | _, _ => (r, true)

def allEq (eq : Abs → Abs → Bool) (pool : Array Abs) : String := Id.run do
  let mut out : Array String := #[]
  let n := pool.size
  for i in [0:n] do
    for j in [i:n] do
      if eq pool[i]! pool[j]! then out := out.push s!"{i}-{j}"
  return "eq " ++ " ".intercalate out.toList

inductive Engine | enum | boxed | spec
deriving DecidableEq

def step (e : Engine) (st : St) (line : String) : St × String :=
  match line.trimAscii.toString.splitOn " " with
  | "objs" :: rest =>
    match rest.filter (· ≠ "") |>.mapM parseHex with
    | some ns => ({ st with objs := (ns.map (BitVec.ofNat 64)).toArray }, line.trimAscii.toString)
    | none => (st, "bad-op")
  | ["clear"] => ({ st with pool := #[] }, "ok")
  | ["alleq"] =>
    match e with
    | .enum => (st, allEq enumEq st.pool)
    | .boxed => (st, allEq (fun a b => boxedEq (encode a) (encode b)) st.pool)
    | .spec =>
      let bad := Id.run do
        let mut bad := 0
        for i in [0:st.pool.size] do
          for j in [i:st.pool.size] do
            -- second opinion on a sample of the pairs (all near-diagonal ones and every 8th anti-diagonal)
            if j - i < 64 || (i + j) % 8 == 0 then
              if !(specEqChecked st.pool[i]! st.pool[j]!).2 then bad := bad + 1
        return bad
      (st, allEq specEq st.pool ++ (if bad == 0 then "" else s!" IEEE-SELFCHECK-FAILED {bad}"))
  | cmd :: spec =>
    if cmd == "v" || cmd == "pool" then
      match parseSpec st spec with
      | some (a, isObj) =>
        let st' := if cmd == "pool" then { st with pool := st.pool.push a } else st
        (st', match e with
          | .enum => showEnum st a
          | .boxed => showBoxed st a isObj
          | .spec => showSpec st a)
      | none => (st, "bad-op")
    else (st, "bad-op")
  | _ => (st, "bad-op")

partial def loop (h out : IO.FS.Stream) (e : Engine) (s : St) : IO Unit := do
  let line ← h.getLine
  if line.isEmpty then return ()
  let (s', o) := step e s line
  out.putStrLn o
  loop h out e s'

end Driver.NanBox

def main (args : List String) : IO UInt32 := do
  let stdin ← IO.getStdin
  let stdout ← IO.getStdout
  match args with
  | ["enum"] => Driver.NanBox.loop stdin stdout .enum {}; return 0
  | ["boxed"] => Driver.NanBox.loop stdin stdout .boxed {}; return 0
  | ["spec"] => Driver.NanBox.loop stdin stdout .spec {}; return 0
  | _ => IO.eprintln "usage: drv_nanbox <enum|boxed|spec>"; return 2
