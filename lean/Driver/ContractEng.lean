import LaytheVerif.Model.Contract
/-! `drv_scanner contract`: one scoping skeleton per line (prefix notation), prints what the resolver / compiler model
(`Model/Contract.lean`) says: `errors=<n> unhoisted=<n> ok=<0|1> same=<0|1> captured=<k>` (`same`: the two traversals perform the same events up
to `define`s — `C15_traversals_same_events` says always 1).

    items := '[' item* ']'
    item  := 'u' N | 'l' N ID items | 'f' N ID (N ID)* ';' items | 'm' (N ID)* ';' items | 'b' items
           | 'r' N ID items items | 'c' N ID CLS items
Names ≥ 50 are exported by the global module. -/
namespace Driver.ContractEng
open LaytheVerif.Contract

abbrev P := List String

partial def params : P → Option (List (Name × Id) × P)
  | ";" :: r => some ([], r)
  | a :: b :: r => do
    let n ← a.toNat?
    let i ← b.toNat?
    let (ps, r') ← params r
    pure ((n, i) :: ps, r')
  | _ => none

mutual
  partial def item : P → Option (Item × P)
    | "u" :: n :: r => do pure (.use (← n.toNat?), r)
    | "l" :: n :: i :: r => do
      let (b, r') ← items r
      pure (.letD (← n.toNat?) (← i.toNat?) b, r')
    | "f" :: n :: i :: r => do
      let (ps, r1) ← params r
      let (b, r2) ← items r1
      pure (.funD (← n.toNat?) (← i.toNat?) ps b, r2)
    | "m" :: r => do
      let (ps, r1) ← params r
      let (b, r2) ← items r1
      pure (.lam ps b, r2)
    | "b" :: r => do
      let (b, r') ← items r
      pure (.block b, r')
    | "r" :: n :: i :: r => do
      let (it, r1) ← items r
      let (b, r2) ← items r1
      pure (.forD (← n.toNat?) (← i.toNat?) it b, r2)
    | "c" :: n :: i :: cls :: r => do
      let (b, r') ← items r
      pure (.catchD (← n.toNat?) (← i.toNat?) (← cls.toNat?) b, r')
    | _ => none
  partial def itemsTail : P → Option (Items × P)
    | "]" :: r => some (.nil, r)
    | r => do
      let (i, r1) ← item r
      let (is, r2) ← itemsTail r1
      pure (.cons i is, r2)
  partial def items : P → Option (Items × P)
    | "[" :: r => itemsTail r
    | _ => none
end

def isGlobal (n : Name) : Bool := n ≥ 50

def processLine (line : String) : String :=
  let toks := (line.trimAscii.toString.splitOn " ").filter (· ≠ "")
  match items toks with
  | some (prog, []) =>
    let r := resolve isGlobal (resolverEvents prog)
    let c := compileAfter isGlobal (resolverEvents prog) (compilerEvents prog)
    s!"errors={r.errors} unhoisted={r.unhoisted} ok={if c.ok then 1 else 0} same={if eraseDefs (Items.revs prog) == eraseDefs (Items.cevs prog) then 1 else 0} captured={r.captured.eraseDups.length}"
  | _ => "bad-input"

partial def loop (h : IO.FS.Stream) (out : IO.FS.Stream) : IO Unit := do
  let line ← h.getLine
  if line.isEmpty then return ()
  out.putStrLn (processLine line)
  loop h out

end Driver.ContractEng
