import LaytheVerif.Model.Signature
import LaytheVerif.Model.RecFrames
/-! `drv_sig`: line-protocol driver for the signature model (C16 tie), same protocol as `harness/src/bin/vh_sig.rs`.

request : `<F n | V n | D lo hi> ; <param kinds…> ; <f|m> ; <argument kinds…>`
response: `civ=<r> sig=<r> arity=<r>`

second engine `drv_sig frames`: `<start frames> ; <cycle of ops c|n|l|r …>` → `overflow frames=<n> calls=<k> natives=<j>`
(the cycle is repeated up to the first `Stack overflow.`), `unbounded frames=<n>` (fuel ran out) or `stuck`.

engine `drv_sig rec`: `[<arm events separated by |> ;] <definition of the recursive function> ; <script>` — statements in prefix
notation over `skip`, `seq A B`, `rec`, `call A`, `nat A`, `sl A`, `try A B` → `out=<ok|err|panic> frames=<n> roots=<difference to
the start> peak=<n> calls=<n> caught=<n> first=<0|1|2>` or `out-of-fuel`.  Without the first field the arm is the model's `nativeArm`. -/
open LaytheVerif.Gen LaytheVerif.Signature LaytheVerif.RecFrames

/-- a parameter kind by the lower-cased name of its `ParameterKind` variant (the enum is regenerated) -/
def parsePKind (s : String) : Option PKind := PKind.all.find? fun p => p.name.toLower == s

def parseVKind : String → Option VKind
  | "nil" => some .nil | "bool" => some .bool | "number" => some .number
  | "string" => some (.obj .string) | "list" => some (.obj .list) | "map" => some (.obj .map)
  | "tuple" => some (.obj .tuple) | "closure" => some (.obj .closure) | "fun" => some (.obj .fun_)
  | "native" => some (.obj .native) | "method" => some (.obj .method) | "class" => some (.obj .class_)
  | "instance" => some (.obj .instance_) | "enumerator" => some (.obj .enumerator)
  | "channel" => some (.obj .channel) | _ => none

def words (s : String) : List String := (s.splitOn " ").filter (· ≠ "")

def parseArity : List String → Option Arity
  | ["F", n] => n.toNat?.map .fixed
  | ["V", n] => n.toNat?.map .variadic
  | ["D", a, b] => match a.toNat?, b.toNat? with
    | some a, some b => some (.default a b)
    | _, _ => none
  | _ => none

def allSome {α : Type} : List (Option α) → Option (List α)
  | [] => some []
  | some x :: xs => (allSome xs).map (x :: ·)
  | none :: _ => none

def showLen : SigError → Option String
  | .lenFixed n => some s!"len fixed {n}"
  | .lenVariadic n => some s!"len variadic {n}"
  | .lenDefaultLow n => some s!"len defaultLow {n}"
  | .lenDefaultHigh n => some s!"len defaultHigh {n}"
  | _ => none

/-- what `NativeSignature::check` reports -/
def showSig : Option SigError → String
  | none => "ok"
  | some (.typeWrong i) => s!"type {i}"
  | some .indexPanic => "panic"
  | some e => (showLen e).getD "?"

/-- what the message of `Native::check_if_valid_call` reveals: the *parameter* that rejected
    (the variadic tail reports the last parameter; the `Default` branch says only "todo") -/
def showCiv (s : NativeSig) : Option SigError → String
  | none => "ok"
  | some (.typeWrong i) =>
    match s.arity with
    | .default _ _ => "type ?"
    | .variadic n => s!"type@param {Nat.min i n}"
    | .fixed _ => s!"type@param {i}"
  | some .indexPanic => "panic"
  | some e => (showLen e).getD "?"

def showArity : Except ArityError Unit → String
  | .ok _ => "ok"
  | .error (.fixed n) => s!"len fixed {n}"
  | .error (.variadic n) => s!"len variadic {n}"
  | .error (.defaultLow n) => s!"len defaultLow {n}"
  | .error (.defaultHigh n) => s!"len defaultHigh {n}"

def stepSig (line : String) : String :=
  match (line.trimAscii.toString.splitOn ";").map (fun s => s.trimAscii.toString) with
  | [a, ps, m, as] =>
    match parseArity (words a), allSome ((words ps).map parsePKind), allSome ((words as).map parseVKind) with
    | some arity, some params, some args =>
      if m != "m" && m != "f" then "bad-op" else
      let s := NativeSig.build (m == "m") arity params
      if !s.wellFormed then "civ=panic sig=panic arity=panic"
      else
        let o := checkOutcome s args
        s!"civ={showCiv s o} sig={showSig o} arity={showArity (s.arity.check args.length)}"
    | _, _, _ => "bad-op"
  | _ => "bad-op"

def parseOp : String → Option FrameOp
  | "c" => some .callLaythe | "n" => some .nativeEnter | "l" => some .nativeLeave | "r" => some .ret | _ => none

/-- counters of a run: frames admitted by `call_closure`/`call`, stub frames admitted by `call_native` -/
structure Count where
  calls : Nat := 0
  natives : Nat := 0

/-- run `ops` up to the first `Stack overflow.`; `inr` = the state and counters at the overflow -/
def runFrames (s : FrameState) (c : Count) : List FrameOp → Option ((FrameState × Count) ⊕ (FrameState × Count))
  | [] => some (.inl (s, c))
  | op :: ops => match frameStep s op with
    | some (s', .stackOverflow) => some (.inr (s', c))
    | some (s', .ok) =>
      runFrames s' (match op with
        | .callLaythe => { c with calls := c.calls + 1 }
        | .nativeEnter => { c with natives := c.natives + 1 }
        | _ => c) ops
    | none => none

/-- recursion shape: `start` frames on the fiber, then a cycle of ops repeated until the first stack overflow or
    until the fuel runs out; reports the frame count at the overflow and how many frames of each sort were admitted -/
def cycleRun (cycle : List FrameOp) : Nat → FrameState → Count → String
  | 0, s, _ => s!"unbounded frames={s.frames}"
  | fuel + 1, s, c =>
    match runFrames s c cycle with
    | none => "stuck"
    | some (.inr (s', c')) => s!"overflow frames={s'.frames} calls={c'.calls} natives={c'.natives}"
    | some (.inl (s', c')) => cycleRun cycle fuel s' c'

def stepFrames (line : String) : String :=
  match (line.trimAscii.toString.splitOn ";").map (fun s => s.trimAscii.toString) with
  | [start, ops] =>
    match start.toNat?, allSome ((words ops).map parseOp) with
    | some n, some ops => cycleRun ops 2000 { frames := n } {}
    | _, _ => "bad-op"
  | _ => "bad-op"

/-- `display` engine: `root ; adj0 | adj1 | …` — object `i` is a list whose items are the lists `adj_i` (space separated
    indices); answers the text `Display` writes for the root and the deepest nesting of `fmt_nested` -/
def stepDisplay (line : String) : String :=
  match (line.trimAscii.toString.splitOn ";").map (fun s => s.trimAscii.toString) with
  | [root, adj] =>
    match root.toNat?, allSome ((adj.splitOn "|").map fun a => allSome ((words a).map (·.toNat?))) with
    | some r, some rows =>
      let g : DisplayGraph := fun a => rows.getD a []
      let fuel := LaytheVerif.Gen.Limits.displayMaxDepth + 1
      match displayDepth g fuel [] r with
      | some d => s!"depth={d} text={displayText g fuel [] r}"
      | none => "out-of-fuel"
    | _, _ => "bad-op"
  | _ => "bad-op"

/-- one statement in prefix notation off the front of the token list -/
partial def parseStm : List String → Option (Stm × List String)
  | "skip" :: r => some (.skip, r)
  | "rec" :: r => some (.rec_, r)
  | "seq" :: r => do let (a, r1) ← parseStm r; let (b, r2) ← parseStm r1; pure (.seq a b, r2)
  | "try" :: r => do let (a, r1) ← parseStm r; let (b, r2) ← parseStm r1; pure (.try_ a b, r2)
  | "call" :: r => do let (a, r1) ← parseStm r; pure (.call a, r1)
  | "nat" :: r => do let (a, r1) ← parseStm r; pure (.native a, r1)
  | "sl" :: r => do let (a, r1) ← parseStm r; pure (.stackless a, r1)
  | _ => none

def parseWhole (s : String) : Option Stm :=
  match parseStm (words s) with
  | some (t, []) => some t
  | _ => none

def showOut : Out → String
  | .ok => "ok" | .err => "err" | .panic => "panic"

def stepRec (line : String) : String :=
  let fields := (line.trimAscii.toString.splitOn ";").map (fun s => s.trimAscii.toString)
  let go (arm : List Micro) (d m : String) : String :=
    match parseWhole d, parseWhole m with
    | some d, some m =>
      let base := 1000
      match run arm d 1000000 m (VmSt.script base) with
      | none => "out-of-fuel"
      | some (s, o) =>
        s!"out={showOut o} frames={s.frames} roots={(s.roots : Int) - base} peak={s.peak} calls={s.calls} caught={s.caught} first={s.firstAt}"
    | _, _ => "bad-op"
  match fields with
  | [d, m] => go nativeArm d m
  | [a, d, m] =>
    match allSome (((a.splitOn "|").map (fun s => s.trimAscii.toString)).map parseMicro) with
    | some arm => go arm d m
    | none => "bad-arm"
  | _ => "bad-op"

def stepHook (line : String) : String :=
  match Signal.all.find? (·.name == line.trimAscii.toString) with
  | some s => reprStr (hookStep s)
  | none => "bad-op"

partial def loop (h : IO.FS.Stream) (out : IO.FS.Stream) (step : String → String) : IO Unit := do
  let line ← h.getLine
  if line.isEmpty then return ()
  out.putStrLn (step line)
  loop h out step

def main (args : List String) : IO UInt32 := do
  let stdin ← IO.getStdin
  let stdout ← IO.getStdout
  match args with
  | [] | ["sig"] => loop stdin stdout stepSig; return 0
  | ["frames"] => loop stdin stdout stepFrames; return 0
  | ["display"] => loop stdin stdout stepDisplay; return 0
  | ["hook"] => loop stdin stdout stepHook; return 0
  | ["rec"] => loop stdin stdout stepRec; return 0
  | _ => IO.eprintln "usage: drv_sig [sig|frames|display|hook|rec]"; return 2
