import LaytheVerif.Model.PrattParser
import LaytheVerif.Model.Lower
import LaytheVerif.Model.Machine
import LaytheVerif.Model.LayRef.Fmt
import LaytheVerif.Lemmas.C01Pratt
/-!
`driver c01frag`: `p1,p2,..#arg1,arg2,..#tok tok tok ...` (arg = u64 bits of a number | nil | true | false | s:text) →
`<parse as S-expression>#<Lower.expr as Sym text; ...>#<value or error of Lower.eval>#<Machine.exec of the code>#wf=<1 iff the
parse satisfies Pratt.wf and re-parses from its own tokens (the hypothesis and conclusion of C01_pratt_roundtrip)>`
Parameters become slots 1.. (slot 0 is the function itself); number literals get constant indices in
order of first appearance, equal values share an index (`make_constant`).
-/
namespace Driver.C01Frag
open LaytheVerif LaytheVerif.Pratt LaytheVerif.Lower LaytheVerif.LayRef

def parseNum (s : String) : Option Float :=
  match s.splitOn "." with
  | [i] => i.toNat?.map Float.ofNat
  | [i, f] =>
    match (i ++ f).toNat? with
    | some m => some (Float.ofScientific m true f.length)
    | none => none
  | _ => none

def binOfName : String → Option BinOp
  | "Add" => some .add | "Sub" => some .sub | "Mul" => some .mul | "Div" => some .div
  | "Lt" => some .lt | "LtEq" => some .le | "Gt" => some .gt | "GtEq" => some .ge
  | "Eq" => some .eq | "Ne" => some .ne | _ => none

def assignOfTok : Gen.TokenKind → Option AssignOp
  | .Equal => some .set | .PlusEqual => some .add | .MinusEqual => some .sub | .StarEqual => some .mul
  | .SlashEqual => some .div | _ => none

/-- name resolution + constant numbering (state: constants so far) -/
def resolve (params : List String) : PExpr → List Float → Option (FExpr × List Float)
  | .num s, cs => do
    let f ← parseNum s
    match cs.findIdx? (· == f) with
    | some i => some (.const (.num f) i, cs)
    | none => some (.const (.num f) cs.length, cs ++ [f])
  | .ident x, cs => (params.findIdx? (· == x)).map fun i => (.local_ (i + 1), cs)
  | .lit k, cs => match k with
    | .True => some (.true_, cs) | .False => some (.false_, cs) | .Nil => some (.nil, cs) | _ => none
  | .group e, cs => (resolve params e cs).map fun (e, cs) => (.group e, cs)
  | .unary op e, cs => do
    let uop ← match (Gen.unaryOps.lookup op) with | some "Negate" => some UnOp.neg | some "Not" => some UnOp.not | _ => none
    let (e, cs) ← resolve params e cs
    some (.un uop e, cs)
  | .binary op a b, cs => do
    let bop ← (Gen.binaryOps.lookup op).bind binOfName
    let (a, cs) ← resolve params a cs
    let (b, cs) ← resolve params b cs
    some (.bin bop a b, cs)
  | .and a b, cs => do
    let (a, cs) ← resolve params a cs
    let (b, cs) ← resolve params b cs
    some (.and a b, cs)
  | .or a b, cs => do
    let (a, cs) ← resolve params a cs
    let (b, cs) ← resolve params b cs
    some (.or a b, cs)
  | .ternary c t e, cs => do
    let (c, cs) ← resolve params c cs
    let (t, cs) ← resolve params t cs
    let (e, cs) ← resolve params e cs
    some (.tern c t e, cs)
  | .assign x op e, cs => do
    let aop ← assignOfTok op
    let i ← params.findIdx? (· == x)
    let (e, cs) ← resolve params e cs
    some (.assign aop (i + 1) e, cs)

def showVal : Value → String
  | .nil => "nil" | .bool b => toString b | .num f => Fmt.float f | .str s => s | .ref _ => "ref"

def step (_ : Unit) (line : String) : Unit × String :=
  match line.trimAscii.toString.splitOn "#" with
  | [ps, bits, toks] =>
    let params := (ps.splitOn ",").filter (· ≠ "")
    let args := ((bits.splitOn ",").filter (· ≠ "")).filterMap fun b =>
      if b == "nil" then some Value.nil else if b == "true" then some (Value.bool true) else if b == "false" then some (Value.bool false)
      else if b.startsWith "s:" then some (Value.str (b.drop 2).toString)
      else b.toNat?.map fun n => Value.num (Float.ofBits (UInt64.ofNat n))
    match ((toks.splitOn " ").filter (· ≠ "")).mapM tokOfText with
    | none => ((), "bad-token")
    | some ts =>
      match parse ts with
      | none => ((), "parse-error")
      | some pe =>
        match resolve params pe [] with
        | none => ((), pe.sexp ++ "#unresolved")
        | some (fe, cs) =>
          let code := (expr fe 0).1
          let env : Env := fun k => if k = 0 then .nil else (args[k - 1]?).getD .nil
          let spec := match eval fe env with
            | .ok (v, _) => "ok " ++ showVal v
            | .error (c, m) => s!"error {c}: {m}"
          let consts := cs.map Value.num
          let mach := match Machine.exec consts code (code.length + 1) code ⟨[], env⟩ with
            | .fell s => (match s.stack with | [v] => "ok " ++ showVal v | _ => "bad-stack")
            | .err (c, m) => s!"error {c}: {m}"
            | .stuck => "stuck" | .outOfFuel => "fuel"
          ((), pe.sexp ++ "#" ++ ";".intercalate (code.map Gen.Sym.toText) ++ "#" ++ spec ++ "#" ++ mach ++ "#wf=" ++ (if Pratt.wf pe && Pratt.parse (Pratt.tokensOf pe) == some pe then "1" else "0"))
  | _ => ((), "bad-request")

end Driver.C01Frag
