import LaytheVerif.Model.Lines
import LaytheVerif.Model.Chain
import Driver.PeepholeEng
/-! `drv_lines <engine>`: line-protocol driver for C18.

* `table`  : `instr@line;instr@line;…` (the compiler's pre-optimisation stream of one function) →
             `ws=<wellSlotted pre> wsp=<wellSlotted post> len=<encoded length> lines=<l,l,…>` —
             the model's encoded line table of the optimised stream.
* `expect` : `<chain description>` → the Spec's and the model's expected status / stdout / stderr.
* `judge`  : `<chain description>\t<status>\t<stdout %-encoded>\t<stderr %-encoded>` →
             `spec verdict\tmodel verdict\tanchor verdict`.
-/
open LaytheVerif LaytheVerif.Gen LaytheVerif.Lines LaytheVerif.Chain

namespace Driver.LinesEng

def stepTable (_ : Unit) (line : String) : Unit × String :=
  match Driver.PeepholeEng.parseStream line with
  | some pre =>
    let post := LaytheVerif.Peephole.opt pre
    let code := post.map Prod.fst
    let lines := post.map Prod.snd
    let b (x : Bool) := if x then "1" else "0"
    let tbl := encodeLines code lines
    ((), s!"ws={b (wellSlotted pre)} wsp={b (wellSlotted post)} len={encodeLen code lines} lines={",".intercalate (tbl.map toString)}")
  | none => ((), "bad-op")

/-! #### %-decoding and the token parser of chain descriptions -/

def hexVal (c : Char) : Option Nat :=
  if c.isDigit then some (c.toNat - '0'.toNat)
  else if 'a' ≤ c ∧ c ≤ 'f' then some (c.toNat - 'a'.toNat + 10)
  else if 'A' ≤ c ∧ c ≤ 'F' then some (c.toNat - 'A'.toNat + 10)
  else none

def decodeChars : List Char → List Char
  | '%' :: a :: b :: r =>
    match hexVal a, hexVal b with
    | some x, some y => Char.ofNat (16 * x + y) :: decodeChars r
    | _, _ => '%' :: decodeChars (a :: b :: r)
  | c :: r => c :: decodeChars r
  | [] => []

def decode (s : String) : String := String.ofList (decodeChars s.toList)

abbrev P := StateT (List String) Option

def tok : P String := do
  match (← get) with
  | t :: r => set r; pure t
  | [] => failure

def nat : P Nat := do
  match (← tok).toNat? with
  | some n => pure n
  | none => failure

def int : P Int := do
  match (← tok).toInt? with
  | some n => pure n
  | none => failure

def str : P String := do pure (decode (← tok))

/-- a possibly empty string: `E` followed by the %-encoded text -/
def estr : P String := do
  let t ← tok
  match t.toList with
  | 'E' :: r => pure (decode (String.ofList r))
  | _ => failure

def many {α} (p : P α) : Nat → P (List α)
  | 0 => pure []
  | n + 1 => do let a ← p; let r ← many p n; pure (a :: r)

def counted {α} (p : P α) : P (List α) := do many p (← nat)

def site : P Site := do
  let lo ← nat; let hi ← nat; let a ← nat
  pure ⟨lo, hi, a⟩

def clsChain : P (List String) := do
  let s ← str
  pure ((s.splitOn ",").filter (· ≠ ""))

def action : P Action := do
  match (← tok) with
  | "C" => pure .cont
  | "X" => do pure (.exit (← int))
  | "W" => do
    let c ← clsChain; let m ← str; let s ← site; let i ← nat
    pure (.wrap c m s (i != 0))
  | "R" => do pure (.rethrow (← site))
  | _ => failure

def handler : P HandlerD := do
  let tag ← str
  let f ← tok
  let cl ← nat
  let pc ← nat
  let a ← action
  pure { tag, filter := if f = "-" then none else some (decode f), contLine := cl, action := a, printCls := pc != 0 }

def handlers : P (List HandlerD) := do
  let t ← tok
  if t ≠ "H" then failure
  counted handler

def frame : P FrameD := do
  let t ← tok
  if t ≠ "F" then failure
  let marker ← str; let name ← str; let file ← nat; let s ← site
  let nats ← counted str
  let after ← counted str
  let nested ← nat
  let pre ← counted estr
  let hs ← handlers
  pure { marker, name, file, site := s, natives := nats, handlers := hs, afterReturn := after,
         nested := nested != 0, preLines := pre }

def final : P Final := do
  match (← tok) with
  | "raise" => do
    let c ← clsChain; let m ← str; let n ← counted str
    pure (.raise c m n)
  | "exit" => do
    let t ← tok
    if t = "-" then pure (.exit none) else
      match t.toInt? with
      | some n => pure (.exit (some n))
      | none => failure
  | "finish" => pure .finish
  | "importfail" => pure .importFail
  | _ => failure

def chain : P Chain := do
  let t ← tok
  if t ≠ "files" then failure
  let files ← counted str
  let t ← tok
  if t ≠ "frames" then failure
  let frames ← counted frame
  let fin ← final
  pure { files, frames, final := fin }

def parseChain (s : String) : Option Chain :=
  match (chain.run ((s.splitOn " ").filter (· ≠ ""))) with
  | some (c, []) => if c.frames.isEmpty then none else some c
  | _ => none

def encodeOut (s : String) : String :=
  String.join (s.toList.map fun c =>
    if c = '\n' then "%0A" else if c = '\t' then "%09" else if c = '%' then "%25" else c.toString)

def showExpected (label : String) (e : Expected) (f : Pat → String) : String :=
  s!"{label}\t{e.status}\t{encodeOut ("\n".intercalate (e.stdout.map f))}\t{encodeOut ("\n".intercalate (e.stderr.map f))}"

def stepExpect (_ : Unit) (line : String) : Unit × String :=
  match parseChain line.trimAscii.toString with
  | some ch =>
    ((), s!"{showExpected "spec" (Spec.run ch) Pat.exact}\t{showExpected "span" (Spec.run ch) Pat.loose}\t{showExpected "model" (Model.run ch) Pat.exact}")
  | none => ((), "bad-chain")

def splitLines (s : String) : List String :=
  let t := decode s
  if t.isEmpty then [] else
    let ls := t.splitOn "\n"
    -- a trailing newline ends the last line
    if ls.getLast? = some "" then ls.dropLast else ls

def stepJudge (_ : Unit) (line : String) : Unit × String :=
  match ((line.splitOn "\n").headD "").splitOn "\t" with
  | [d, status, out, err] =>
    match parseChain d.trimAscii.toString with
    | some ch => ((), judge ch status (splitLines out) (splitLines err))
    | none => ((), "bad-chain")
  | _ => ((), "bad-request")

end Driver.LinesEng

partial def loopL {σ : Type} (h : IO.FS.Stream) (out : IO.FS.Stream) (step : σ → String → σ × String) (s : σ) : IO Unit := do
  let line ← h.getLine
  if line.isEmpty then return ()
  let (s', o) := step s line
  out.putStrLn o
  loopL h out step s'

def main (args : List String) : IO UInt32 := do
  let stdin ← IO.getStdin
  let stdout ← IO.getStdout
  match args with
  | ["table"] => loopL stdin stdout Driver.LinesEng.stepTable (); return 0
  | ["expect"] => loopL stdin stdout Driver.LinesEng.stepExpect (); return 0
  | ["judge"] => loopL stdin stdout Driver.LinesEng.stepJudge (); return 0
  | _ => IO.eprintln "usage: drv_lines <table|expect|judge>"; return 2
