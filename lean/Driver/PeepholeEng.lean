import LaytheVerif.Model.Peephole
import LaytheVerif.Model.PeepFree
/-! Line-protocol engine for the peephole model: `instr@line;instr@line;...` per line. -/
namespace Driver.PeepholeEng
open LaytheVerif.Gen LaytheVerif.Peephole

def parseIL (part : String) : Option IL :=
  match part.trimAscii.toString.splitOn "@" with
  | [i, l] =>
    match Sym.ofTokens ((i.splitOn " ").filter (· ≠ "")), l.trimAscii.toString.toNat? with
    | some i, some l => some (i, l)
    | _, _ => none
  | _ => none

def parseStream (line : String) : Option (List IL) :=
  let parts := (line.trimAscii.toString.splitOn ";").filter (fun p => p.trimAscii.toString ≠ "")
  parts.mapM parseIL

def render (p : List IL) : String :=
  ";".intercalate (p.map fun (i, l) => s!"{i.toText}@{l}")

def step (_ : Unit) (line : String) : Unit × String :=
  match parseStream line with
  | some p => ((), render (opt p))
  | none => ((), "bad-op")

/-- `wd drops|optimised` : envelope flags of the input and the model's output. -/
def stepX (_ : Unit) (line : String) : Unit × String :=
  match parseStream line with
  | some p =>
    let b (x : Bool) := if x then "1" else "0"
    ((), s!"{b (wellDelimited p)} 1|{render (opt p)}")   -- second flag: formerly the u8 drop-run envelope, now always inside
  | none => ((), "bad-op")

/-- `orig => candidate` : is `candidate` observationally equivalent to `orig` (free semantics)? -/
def stepEquiv (_ : Unit) (line : String) : Unit × String :=
  match line.splitOn "=>" with
  | [a, b] =>
    match parseStream a, parseStream b with
    | some p, some q => ((), if LaytheVerif.PeepFree.equiv p q then "equiv" else "differ")
    | _, _ => ((), "bad-op")
  | _ => ((), "bad-op")

end Driver.PeepholeEng
