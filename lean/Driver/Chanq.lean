import LaytheVerif.Model.ChanQueue
/-! Line-protocol engine for the channel queue model. -/
namespace Driver.Chanq
open LaytheVerif.ChanQueue

structure St where
  q : Q := Q.mkSync
  flags : List (Nat × Bool) := []

def St.flag (s : St) (w : Nat) : Bool :=
  match s.flags.find? (·.1 == w) with
  | some p => p.2
  | none => true

def showW : Option Nat → String
  | some w => toString w
  | none => "-"

def parseView : String → Option View
  | "bi" => some .bi | "ro" => some .recvOnly | "wo" => some .sendOnly | _ => none

def step (s : St) (line : String) : St × String :=
  match line.trimAscii.toString.splitOn " " with
  | ["new", "sync"] => ({ q := Q.mkSync, flags := [] }, "ok")
  | ["new", "buf", n] =>
    match n.toNat? with
    | some (k+1) => ({ q := Q.mkBuffered (k+1), flags := [] }, "ok")
    | _ => (s, "bad-op")
  | ["flag", w, b] =>
    match w.toNat?, b.toNat? with
    | some w, some b => ({ s with flags := (w, b != 0) :: s.flags.filter (·.1 != w) }, "ok")
    | _, _ => (s, "bad-op")
  | ["send", vw, w, v] =>
    match parseView vw, w.toNat?, v.toNat? with
    | some vw, some w, some v =>
      let r := chanSend s.flag vw s.q w v
      ({ s with q := r.1 },
        match r.2 with
        | .ok => "ok" | .noSendAccess => "noaccess" | .fullBlock x => "fullblock " ++ showW x
        | .full x => "full " ++ showW x | .closed => "closed")
    | _, _, _ => (s, "bad-op")
  | ["recv", vw, w] =>
    match parseView vw, w.toNat? with
    | some vw, some w =>
      let r := chanRecv s.flag vw s.q w
      ({ s with q := r.1 },
        match r.2 with
        | .ok v => "ok " ++ toString v | .noReceiveAccess => "noaccess"
        | .emptyBlock x => "emptyblock " ++ showW x
        | .empty x => "empty " ++ showW x | .closed => "closed")
    | _, _ => (s, "bad-op")
  | ["close"] =>
    let r := s.q.close
    ({ s with q := r.1 }, match r.2 with | .ok => "ok" | .alreadyClosed => "already")
  | ["runnable"] =>
    let r := s.q.runnableWaiter s.flag
    ({ s with q := r.1 }, showW r.2)
  | ["len"] => (s, s!"{s.q.queue.length} {s.q.cap} {s.q.isClosed}")
  | _ => (s, "bad-op")

end Driver.Chanq
