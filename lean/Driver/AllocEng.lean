import LaytheVerif.Model.Alloc
/-! Line-protocol engine for the allocator model (same ops as `vh_alloc`; allocation ops carry the
size the implementation reported: `box <src> <size>`, `tuple <size> <src>*`, `str <text> <size>`,
`waiter <size>`). -/
namespace Driver.AllocEng
open LaytheVerif.Alloc

structure St where
  a : A := {}
  roots : List (Option Nat) := List.replicate 8 none
  every : Nat := 0
  counter : Nat := 0
  kinds : List String := []      -- per id: "box" | "tuple" | "str" | "waiter"
  deriving Inhabited

def St.rootIds (s : St) : List Nat := s.roots.filterMap id

def src? (t : String) : Option (Option Nat) :=
  if t == "-" then some none else t.toNat?.map some

/-- the verification schedule: every k-th allocation -/
def St.tick (s : St) : St × Bool :=
  if s.every == 0 then (s, false)
  else
    let c := s.counter + 1
    ({ s with counter := c }, c % s.every == 0)

def showSrc (a : A) (x : Nat) : String := toString x

def statsLine (a : A) : String :=
  s!"bytes={a.bytes} next={a.nextGc} gc={a.gcCount} heap={a.plain.length} old={a.old.length} nursery={a.nursery.length} heap_b={sumSizes a a.plain} old_b={sumSizes a a.old} nursery_b={sumSizes a a.nursery} intern={a.intern.length} temp={a.temp.length}"

def step (s : St) (line : String) : St × String :=
  let toks := (line.trimAscii.toString.splitOn " ").filter (· ≠ "")
  let allocWith (s : St) (o : Obj) (kind : String) : St × String :=
    let (s1, hit) := s.tick
    let gc0 := s1.a.gcCount
    let r := s1.a.alloc o s1.rootIds hit
    ({ s1 with a := r.1, kinds := s1.kinds ++ [kind] }, s!"new {r.2} {o.size} {if r.1.gcCount != gc0 then 1 else 0}")
  match toks with
  | ["reset"] => ({}, "ok")
  | ["box", src, size] =>
    match src? src, size.toNat? with
    | some v, some sz => allocWith s { size := sz, edges := v.toList } "box"
    | _, _ => (s, "bad-op")
  | "tuple" :: size :: srcs =>
    match size.toNat?, srcs.mapM src? with
    | some sz, some vs => allocWith s { size := sz, edges := vs.filterMap id } s!"tuple {" ".intercalate srcs}"
    | _, _ => (s, "bad-op")
  | ["str", text, size] =>
    match size.toNat? with
    | some sz =>
      match s.a.intern.find? (·.1 == text) with
      | some p => (s, s!"hit {p.2}")
      | none =>
        let (s1, hit) := s.tick
        let gc0 := s1.a.gcCount
        let r := s1.a.manageStr text sz s1.rootIds hit
        ({ s1 with a := r.1, kinds := s1.kinds ++ ["str"] }, s!"new {r.2.1} {sz} {if r.1.gcCount != gc0 then 1 else 0}")
    | none => (s, "bad-op")
  | ["waiter", size] =>
    match size.toNat? with
    | some sz => allocWith s { size := sz, edges := [], plain := true } "waiter"
    | none => (s, "bad-op")
  | ["setbox", b, src] =>
    match b.toNat?, src? src with
    | some b, some v => ({ s with a := s.a.setEdges b v.toList }, "ok")
    | _, _ => (s, "bad-op")
  | ["root", slot, src] =>
    match slot.toNat?, src? src with
    | some k, some v => if k < 8 then ({ s with roots := s.roots.set k v }, "ok") else (s, "bad-op")
    | _, _ => (s, "bad-op")
  | ["temp", src] =>
    match src.toNat? with
    | some x => ({ s with a := { s.a with temp := s.a.temp ++ [x] } }, "ok")
    | none => (s, "bad-op")
  | ["poptemp", n] =>
    match n.toNat? with
    | some n => if n ≤ s.a.temp.length then ({ s with a := { s.a with temp := s.a.temp.take (s.a.temp.length - n) } }, "ok") else (s, "bad-op")
    | none => (s, "bad-op")
  | ["collect", mode] =>
    let force := match mode with | "full" => some true | "nursery" => some false | _ => none
    ({ s with a := s.a.collect s.rootIds force }, "ok")
  | ["sched", "every", k] => ({ s with every := k.toNat?.getD 0, counter := 0 }, "ok")
  | ["sched", "off"] => ({ s with every := 0, counter := 0 }, "ok")
  | ["threshold", n] => ({ s with a := { s.a with nextGc := n.toNat?.getD 0 } }, "ok")
  | ["read", idx] =>
    match idx.toNat? with
    | some i =>
      match s.a.objs[i]?, s.kinds[i]? with
      | some o, some k =>
        if k == "box" then (s, s!"box {match o.edges with | [x] => toString x | _ => "-"}")
        else if k == "str" then (s, s!"str {o.str.getD ""}")
        else if k == "waiter" then (s, "waiter 1")
        else (s, k.trimAscii.toString)
      | _, _ => (s, "bad-op")
    | none => (s, "bad-op")
  | ["stats"] => (s, statsLine s.a)
  -- C20 release log: every block ever allocated is either still owned or was dropped by a sweep, and every dropped block was
  -- handed back (`C20_collect_releases_exactly_the_dropped`), so nothing is outstanding
  | ["leaks"] => (s, s!"leaks 0 dropped {s.a.objs.length - s.a.owned.length}")
  | _ => (s, "bad-op")

end Driver.AllocEng
