import LaytheVerif.Model.Imports
/-!
`drv_imports`: line protocol for the import model (C17).

```
main | file a/b            start the main script / the file a/b.lay
mark S | decl E K NAME N | acc E NAME TARGET | assign NAME N
import a/b | importas a/b NAME | importsyms a/b sym[:ren] ... | show TAG sym NAME | show TAG field OBJ NAME
importpkg PKG a/b NAME      `import PKG.a.b as NAME;` for a package name other than `self` (path `-` = the package itself)
run                         run the graph, print one result line, forget the graph
```
Result line: `<status>|<printed lines joined by ;>|pkgs=<package map at the end>|starts=<file paths in start order>|steps=<n>`.
-/
open LaytheVerif.Imports

structure DSt where
  main : List Stmt := []
  files : List (Path × List Stmt) := []
  cur : Option Path := none      -- none = main
  bad : Bool := false

def parsePath (s : String) : Path := if s = "-" then [] else s.splitOn "/"

def parseKind : String → Option Kind
  | "let" => some .let_ | "fn" => some .fn | "cls" => some .cls | _ => none

def parseStmt (ws : List String) : Option Stmt :=
  match ws with
  | ["mark", s] => some (.mark s)
  | ["decl", e, k, name, n] =>
    match parseKind k, n.toNat? with
    | some k, some n => some (.decl (e == "1") k name n)
    | _, _ => none
  | ["acc", e, name, target] => some (.declAcc (e == "1") name target)
  | ["assign", name, n] => n.toNat?.map (.assign name ·)
  | ["import", p] => some (.importWhole (parsePath p) none)
  | ["importas", p, r] => some (.importWhole (parsePath p) (some r))
  | "importsyms" :: p :: syms =>
    some (.importSyms (parsePath p) (syms.map fun s =>
      match s.splitOn ":" with
      | [a, b] => (a, some b)
      | _ => (s, none)))
  | ["importpkg", pkg, p, name] =>
    if h : pkg ≠ "self" then some (.importPkg ⟨pkg, h⟩ (parsePath p) name) else none
  | ["show", tag, "sym", name] => some (.emit tag (.sym name))
  | ["show", tag, "field", o, name] => some (.emit tag (.field o name))
  | _ => none

def DSt.push (d : DSt) (st : Stmt) : DSt :=
  match d.cur with
  | none => { d with main := d.main ++ [st] }
  | some p => { d with files := d.files.map fun f => if f.1 = p then (f.1, f.2 ++ [st]) else f }

def runGraph (g : Graph) (fuel : Nat) : St × Nat := Id.run do
  let mut s := init g
  let mut n := 0
  for _ in [0:fuel] do
    if s.status != .running then break
    s := step g s
    n := n + 1
  return (s, n)

def showStatus : Status → String
  | .running => "fuel"
  | .done => "done"
  | .error c m => s!"error:{c}:{m}"
  | .panic m => s!"panic:{m}"

def result (d : DSt) : String :=
  if d.bad then "bad-op" else
  let g : Graph := { main := d.main, files := d.files }
  let (s, n) := runGraph g 100000
  let starts := s.log.reverse.filterMap fun e => match e with
    | .start f _ => some ("/".intercalate f) | _ => none
  s!"{showStatus s.status}|{";".intercalate s.out}|pkgs={",".intercalate (s.packages.map (·.1))}|starts={",".intercalate starts}|steps={n}"

partial def loop (h out : IO.FS.Stream) (d : DSt) : IO Unit := do
  let line ← h.getLine
  if line.isEmpty then return ()
  let ws := (line.trimAscii.toString.splitOn " ").filter (· ≠ "")
  match ws with
  | [] => loop h out d
  | ["main"] => loop h out { d with cur := none }
  | ["file", p] => loop h out { d with cur := some (parsePath p), files := d.files ++ [(parsePath p, [])] }
  | ["run"] =>
    out.putStrLn (result d)
    out.flush
    loop h out {}
  | _ =>
    match parseStmt ws with
    | some st => loop h out (d.push st)
    | none => loop h out { d with bad := true }

def main (_args : List String) : IO UInt32 := do
  let stdin ← IO.getStdin
  let stdout ← IO.getStdout
  loop stdin stdout {}
  return 0
