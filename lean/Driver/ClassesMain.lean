import Driver.ClassesEng
/-! `drv_classes <engine>`: one request per line on stdin, one canonical line per request on stdout.
Engines: `classes` (API-level model, same protocol as `vh_classes`), `prog` (Spec evaluator of
generated class programs), `compile` (the compiler's property-access decisions per function). -/

partial def loopC {σ : Type} (h : IO.FS.Stream) (out : IO.FS.Stream) (step : σ → String → σ × String) (s : σ) : IO Unit := do
  let line ← h.getLine
  if line.isEmpty then return ()
  let (s', o) := step s line
  out.putStrLn o
  loopC h out step s'

def main (args : List String) : IO UInt32 := do
  let stdin ← IO.getStdin
  let stdout ← IO.getStdout
  match args with
  | ["classes"] => loopC stdin stdout Driver.ClassesEng.step {}; return 0
  | ["prog"] => loopC stdin stdout Driver.ClassesEng.stepProg (); return 0
  | ["compile"] => loopC stdin stdout Driver.ClassesEng.stepCompile (); return 0
  | _ => IO.eprintln "usage: drv_classes <classes|prog|compile>"; return 2
