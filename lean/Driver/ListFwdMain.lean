import LaytheVerif.Model.ListFwd
/-!
`drv_listfwd`: one history per input line (micro-operations separated by `;`), one output line:

  `MODEL o1,o2,…|SPEC o1,o2,…|grows=G scans=S stale=K halted=0/1 raises=R e10=p1,p2,…`

`MODEL` is the exact model's prediction of every observation (`print`), `SPEC` the same history on
the Spec machine (lists never relocate, so address = immutable identity).  `e10` lists, per
observation, whether the model state was still free of stale references (conservative `E10`)
when the observation was made.
-/
open LaytheVerif.ListFwd

namespace Driver.ListFwd

def parseNative : String → Option Native
  | "lpush" => some .lpush | "lpop" => some .lpop | "lhas" => some .lhas | "lindex" => some .lindex
  | "lclear" => some .lclear | "llen" => some .llen | "lget" => some .lget | "lset" => some .lset
  | "linsert" => some .linsert | "lremove" => some .lremove
  | "mget" => some .mget | "mset" => some .mset | "mgetm" => some .mgetm | "mhas" => some .mhas
  | "mremove" => some .mremove | "mlen" => some .mlen
  | "tget" => some .tget | "thas" => some .thas | "tindex" => some .tindex | "tlen" => some .tlen
  | _ => none

def parseOp (s : String) : Option Op :=
  match s.trimAscii.toString.splitOn " " with
  | ["const", n] => n.toNat?.map .const
  | ["nil"] => some .nil
  | ["fn"] => some .pushfn
  | ["getl", n] => n.toNat?.map .getl
  | ["setl", n] => n.toNat?.map .setl
  | ["getg", n] => n.toNat?.map .getg
  | ["setg", n] => n.toNat?.map .setg
  | ["getbox", n] => n.toNat?.map .getbox
  | ["setbox", n] => n.toNat?.map .setbox
  | ["emptybox"] => some .emptybox
  | ["fillbox"] => some .fillbox
  | ["drop"] => some .drop
  | ["list", n] => n.toNat?.map .list
  | ["tuple", n] => n.toNat?.map .tuple
  | ["map", n] => n.toNat?.map .map
  | ["newinst", n] => n.toNat?.map .newinst
  | ["getf", n] => n.toNat?.map .getf
  | ["setf", n] => n.toNat?.map .setf
  | ["bind"] => some .bind
  | ["call", f, n] => do let f ← parseNative f; let n ← n.toNat?; pure (.call f n)
  | ["eq"] => some .eq
  | ["closure", n] => n.toNat?.map .closure
  | ["callget"] => some .callget
  | ["print"] => some .print
  | ["scrub"] => some .scrub
  | ["launch", n] => n.toNat?.map .launch
  | ["switch", n] => n.toNat?.map .switch
  | ["send", n] => n.toNat?.map .send
  | ["recv", n] => n.toNat?.map .recv
  | ["jf", n] => n.toNat?.map .jf
  | ["cneg", n] => n.toNat?.map .cneg
  | ["cfrac", n] => n.toNat?.map .cfrac
  | ["tryb"] => some .tryb
  | ["trye", n] => n.toNat?.map .trye
  | ["catchb"] => some .catchb
  | ["endc"] => some .endc
  | ["say", n] => n.toNat?.map .say
  | _ => none

def staleIn (h : Heap) (vs : List Val) : Nat := (vs.filter (fun v => !fresh h v)).length

/-- conservative count of stale references: every fiber's live slots, module variables, channel
buffers and the contents of every allocated cell -/
def staleCount (h : Heap) (m : M) : Nat :=
  let inFibers := (m.fibers.map (fun f => staleIn h (f.stack.take f.top))).foldl (· + ·) 0
  let inHeap := ((List.range h.next).map (fun a =>
    match h.mem a with
    | .vec _ _ xs => staleIn h xs
    | .obj (.tuple xs) => staleIn h xs
    | .obj (.inst xs) => staleIn h xs
    | .obj (.map es) => staleIn h (es.map (·.1)) + staleIn h (es.map (·.2))
    | .obj (.box v) => staleIn h [v]
    | _ => 0)).foldl (· + ·) 0
  inFibers + staleIn h m.globals + staleIn h m.chans + inHeap

structure Acc where
  h : Heap := Heap.empty
  m : M := {}
  grows : Nat := 0
  clean : Bool := true      -- no stale reference so far
  e10 : List String := []

def runAll (reloc : Bool) (ops : List Op) : Acc :=
  ops.foldl (fun (a : Acc) op =>
    let p := step reloc a.m op
    let g := p.grows a.h
    let r := p.run a.h
    let clean := a.clean && (g == 0 || staleCount r.2 r.1 == 0)
    let observes := match op with | .print => true | .say _ => true | _ => false
    let e10 := if observes && !a.m.halted && !a.m.unwinding && a.m.skip == 0 then (if a.clean then "1" else "0") :: a.e10 else a.e10
    { h := r.2, m := r.1, grows := a.grows + g, clean := clean, e10 := e10 }) {}

def handle (line : String) : String :=
  let parts := (line.trimAscii.toString.splitOn ";").filter (fun s => s.trimAscii.toString != "")
  let ops := parts.map parseOp
  if ops.any Option.isNone then
    "bad-op " ++ String.intercalate ";" ((parts.zip ops).filterMap (fun (s, o) => if o.isNone then some s else none))
  else
    let ops := ops.filterMap id
    let a := runAll true ops
    let s := runAll false ops
    "MODEL " ++ String.intercalate "," a.m.out.reverse ++ "|SPEC " ++ String.intercalate "," s.m.out.reverse ++
      s!"|grows={a.grows} scans={a.m.scans} stale={staleCount a.h a.m} halted={if a.m.halted then 1 else 0} raises={a.m.raises} e10=" ++
      String.intercalate "," a.e10.reverse

end Driver.ListFwd

partial def loop (i o : IO.FS.Stream) : IO Unit := do
  let line ← i.getLine
  if line.isEmpty then return ()
  o.putStrLn (Driver.ListFwd.handle line)
  loop i o

def main (_ : List String) : IO UInt32 := do
  loop (← IO.getStdin) (← IO.getStdout)
  return 0
