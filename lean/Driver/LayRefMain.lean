import LaytheVerif.Model.LayRef.Sexp
import LaytheVerif.Model.LayRef.Eval
/-!
`drv_layref [fuel]`: one program per stdin line as an S-expression (`Model/LayRef/Sexp.lean`), one JSON
object per line on stdout: `{"status": "ok" | "runtime-error:<Class>" | "fuel" | "unsupported" | "bad-input",
"message": "...", "ticks": <interpreter steps used>, "stdout": "..."}`.
-/
open LaytheVerif.LayRef

def jsonStr (s : String) : String := Id.run do
  let mut o := "\""
  for c in s.toList do
    if c == '"' then o := o ++ "\\\""
    else if c == '\\' then o := o ++ "\\\\"
    else if c == '\n' then o := o ++ "\\n"
    else if c == '\r' then o := o ++ "\\r"
    else if c == '\t' then o := o ++ "\\t"
    else if c.toNat < 0x20 then
      let h := String.ofList (Nat.toDigits 16 c.toNat)
      o := o ++ "\\u" ++ String.ofList (List.replicate (4 - h.length) '0') ++ h
    else o := o.push c
  return o ++ "\""

def answer (fuel : Nat) (line : String) : String :=
  match parseProgram line with
  | none => "{\"status\":\"bad-input\",\"message\":\"\",\"stdout\":\"\"}"
  | some p =>
    let (oc, out, ticks) := run fuel p
    let (status, msg) := match oc with
      | .ok => ("ok", "")
      | .runtimeError c m => ("runtime-error:" ++ c, m)
      | .fuel => ("fuel", "")
      | .unsupported w => ("unsupported", w)
    "{\"status\":" ++ jsonStr status ++ ",\"message\":" ++ jsonStr msg ++ ",\"ticks\":" ++ toString ticks ++ ",\"stdout\":" ++ jsonStr out ++ "}"

partial def loop (fuel : Nat) (h out : IO.FS.Stream) : IO Unit := do
  let line ← h.getLine
  if line.isEmpty then return ()
  out.putStrLn (answer fuel line)
  out.flush
  loop fuel h out

def main (args : List String) : IO UInt32 := do
  let fuel := match args with
    | [f] => f.toNat?.getD 400000
    | _ => 400000
  loop fuel (← IO.getStdin) (← IO.getStdout)
  return 0
