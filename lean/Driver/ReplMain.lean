import LaytheVerif.Model.Repl
import LaytheVerif.Model.ReplFibers
/-!
`drv_repl`: line protocol for the REPL compile model (C19).

```
entry 0|1 [0|1]           start an entry (arguments: the parser accepts the line; the compiler proper does, default 1)
decls a b | refs print a | fun NAME op... | script op... | calls f g      (ops: g:NAME s:NAME p i o; o = implicit superclass of a parent-less class)
fchans s 2 ..             channels the script created (`s` = synchronous, else the capacity), in order
fbody op,op,..            body of a function fibers are launched over (one line per body; template ids count from 1 over the session)
fmain op,op,..            the script's channel / fiber operations (`s p v` send, `r p` receive, `c p` close, `L t a0 a1 ..` launch,
                          `p v` print — the vocabulary of `drv_sched`; `p`, `a*` = channel numbers in creation order)
fraises 0|1               the script ended with an uncaught runtime error
end                       compile + run the entry in the session state, print one line
reset                     forget the session
```
Result line of an entry: `err:<kind>` or
`ok|<fun>;<fun>;..|cache=<p>,<i>|faults=<fn>/<kind>/<id>/<len>,..` with `<fun> = name:syms:sites`
(`syms` = D/G/S + slot, comma separated; `sites` = P/I + cache id), the script last; `cache` = the
lengths of the module's cache vectors after the entry; `faults` = out-of-range accesses (provably none);
then `|fib=<end>;<events>;runq=<n>;parked=<n>;premature=<n>`: how `execute` ended on the scheduler model
(`exit`, `raised`, `deadlock`, `error:<e>`, `panic:<assert>`, `fuel`), what the entry's fibers showed
(`g<t>:<v|nil>` / `p<t>:<v>`, template 0 = the scripts), the length of the run queue and the number of
fibers parked outside it after the entry, and the ghost count of D26 events.
-/
open LaytheVerif.Repl
open LaytheVerif

def emptyEntry : Entry := { syntaxOk := true, decls := [], refs := [], funs := [], script := [], calls := [] }

structure DSt where
  sess : ReplFibers.Sess := ReplFibers.Sess.empty
  cur : Entry := emptyEntry
  fcur : ReplFibers.FEntry := {}

def globalsList : List String :=
  ["print", "Object", "Error", "assert", "assertEq", "List", "Map", "String", "Number", "Bool", "Nil", "exit", "clock",
   "RuntimeError", "TypeError", "PropertyError", "ImportError", "IndexError", "ValueError", "SyntaxError", "MethodNotFoundError"]

def parseOp (w : String) : Option Op :=
  if w = "p" then some .prop
  else if w = "i" then some .invoke
  else if w = "o" then some .super
  else if w.startsWith "g:" then some (.get (w.drop 2).toString)
  else if w.startsWith "s:" then some (.set (w.drop 2).toString)
  else none

def showSym : ROp → Option String
  | .decl s => some s!"D{s}" | .get s => some s!"G{s}" | .set s => some s!"S{s}" | _ => none

def showSite : ROp → Option String
  | .prop id => some s!"P{id}" | .invoke id => some s!"I{id}" | _ => none

def showFun (f : RFun) : String :=
  s!"{f.name}:{",".intercalate (f.ops.filterMap showSym)}:{",".intercalate (f.ops.filterMap showSite)}"

/-! the scheduler half: the vocabulary of `drv_sched` -/

def words (s : String) : List String := (s.splitOn " ").filter (· ≠ "")

def parseFOp (s : String) : Option Sched.Op :=
  match words s with
  | ["s", p, v] => do pure (.send (← p.toNat?) (← v.toNat?))
  | ["r", p] => do pure (.recv (← p.toNat?))
  | ["c", p] => do pure (.close (← p.toNat?))
  | ["p", v] => do pure (.print (← v.toNat?))
  | "L" :: t :: args => do pure (.launch (← t.toNat?) (← args.mapM (·.toNat?)))
  | _ => none

def parseFBody (s : String) : List Sched.Op :=
  ((s.splitOn ",").filter (fun x => words x ≠ [])).filterMap parseFOp

def parseCap (s : String) : Option (Option Nat) :=
  if s == "s" then some none else
  match s.toNat? with
  | some (k + 1) => some (some (k + 1))
  | _ => none

def showEvent : Sched.Event → String
  | .got t (some v) => s!"g{t}:{v}"
  | .got t none => s!"g{t}:nil"
  | .printed t v => s!"p{t}:{v}"

def showAssert : Sched.Assert → String
  | .activate => "activate" | .sleep => "sleep" | .block => "block" | .unblock => "unblock" | .complete => "complete"

def showErr : Sched.Err → String
  | .sendClosed => "sendClosed" | .alreadyClosed => "alreadyClosed" | .noAccess => "noAccess"

def showEnd : ReplFibers.End → String
  | .none => "none" | .compileError => "compileError" | .exit => "exit" | .raised => "raised" | .deadlock => "deadlock"
  | .error e => "error:" ++ showErr e | .panic a => "panic:" ++ showAssert a | .fuel => "fuel"

def fuel : Nat := 6000

def showFib (s : ReplFibers.Sess) : String :=
  let vm := s.vm
  let parked := ((List.range vm.fibers.length).filter fun i =>
    ((vm.fiber i).state == .pending || (vm.fiber i).state == .blocked) && !vm.runq.contains i).length
  let premature := (vm.trace.filter (fun | .premature _ => true | _ => false)).length
  s!"fib={showEnd s.last};{" ".intercalate (vm.out.map showEvent)};runq={vm.runq.length};parked={parked};premature={premature}"

def finish (d : DSt) : DSt × String :=
  let next : DSt := { sess := ReplFibers.step fuel globalsList d.sess { c := d.cur, f := d.fcur }, cur := emptyEntry, fcur := {} }
  if ReplFibers.hostDead d.sess then (next, "err:host-dead") else
  match compile globalsList d.sess.st d.cur with
  | .error .syntax => (next, "err:syntax")
  | .error (.duplicate n) => (next, s!"err:duplicate:{n}")
  | .error (.undeclared n) => (next, s!"err:undeclared:{n}")
  | .error .compiler => (next, "err:compiler")
  | .ok c =>
    let st' := next.sess.st
    let newFaults := st'.faults.drop d.sess.st.faults.length
    let fs := c.funs ++ [{ name := "script", ops := c.script }]
    let ft := newFaults.map fun (a, b, x, y) => s!"{a}/{b}/{x}/{y}"
    (next,
     s!"ok|{";".intercalate (fs.map showFun)}|cache={c.propCount},{c.invCount}|faults={",".intercalate ft}|{showFib next.sess}")

partial def loop (h out : IO.FS.Stream) (d : DSt) : IO Unit := do
  let line ← h.getLine
  if line.isEmpty then return ()
  let ws := (line.trimAscii.toString.splitOn " ").filter (· ≠ "")
  match ws with
  | [] => loop h out d
  | ["reset"] => loop h out {}
  | ["entry", ok] =>
    loop h out { d with cur := { syntaxOk := ok == "1", decls := [], refs := [], funs := [], script := [], calls := [] }, fcur := {} }
  | ["entry", ok, cok] =>
    loop h out { d with cur := { syntaxOk := ok == "1", compilerOk := cok == "1", decls := [], refs := [], funs := [],
                                 script := [], calls := [] }, fcur := {} }
  | "decls" :: xs => loop h out { d with cur := { d.cur with decls := xs } }
  | "refs" :: xs => loop h out { d with cur := { d.cur with refs := xs } }
  | "calls" :: xs => loop h out { d with cur := { d.cur with calls := xs } }
  | "fun" :: name :: ops =>
    loop h out { d with cur := { d.cur with funs := d.cur.funs ++ [{ name, ops := ops.filterMap parseOp }] } }
  | "script" :: ops => loop h out { d with cur := { d.cur with script := ops.filterMap parseOp } }
  | "fchans" :: caps => loop h out { d with fcur := { d.fcur with chans := caps.filterMap parseCap } }
  | "fbody" :: rest => loop h out { d with fcur := { d.fcur with bodies := d.fcur.bodies ++ [parseFBody (" ".intercalate rest)] } }
  | "fmain" :: rest => loop h out { d with fcur := { d.fcur with main := parseFBody (" ".intercalate rest) } }
  | ["fraises", b] => loop h out { d with fcur := { d.fcur with raises := b == "1" } }
  | ["end"] =>
    let (d', o) := finish d
    out.putStrLn o
    out.flush
    loop h out d'
  | _ =>
    out.putStrLn "bad-op"
    loop h out d

def main (_args : List String) : IO UInt32 := do
  let stdin ← IO.getStdin
  let stdout ← IO.getStdout
  loop stdin stdout {}
  return 0
