import LaytheVerif.Model.Repl
/-!
`drv_repl`: line protocol for the REPL compile model (C19).

```
entry 0|1 [0|1]           start an entry (arguments: the parser accepts the line; the compiler proper does, default 1)
decls a b | refs print a | fun NAME op... | script op... | calls f g      (ops: g:NAME s:NAME p i o; o = implicit superclass of a parent-less class)
end                       compile + run the entry in the session state, print one line
reset                     forget the session
```
Result line of an entry: `err:<kind>` or
`ok|<fun>;<fun>;..|cache=<p>,<i>|faults=<fn>/<kind>/<id>/<len>,..` with `<fun> = name:syms:sites`
(`syms` = D/G/S + slot, comma separated; `sites` = P/I + cache id), the script last; `cache` = the
lengths of the module's cache vectors after the entry; `faults` = out-of-range accesses (provably none).
-/
open LaytheVerif.Repl

def emptyEntry : Entry := { syntaxOk := true, decls := [], refs := [], funs := [], script := [], calls := [] }

structure DSt where
  st : St := St.empty
  cur : Entry := emptyEntry

def globalsList : List String :=
  ["print", "Object", "Error", "assert", "assertEq", "List", "Map", "String", "Number", "Bool", "Nil", "exit", "clock",
   "RuntimeError", "TypeError", "PropertyError", "ImportError", "IndexError", "ValueError", "SyntaxError", "MethodNotFoundError"]

def parseOp (w : String) : Option Op :=
  if w = "p" then some .prop
  else if w = "i" then some .invoke
  else if w = "o" then some .super
  else if w.startsWith "g:" then some (.get (w.drop 2).toString)
  else if w.startsWith "s:" then some (.set (w.drop 2).toString)
  else none

def showSym : ROp → Option String
  | .decl s => some s!"D{s}" | .get s => some s!"G{s}" | .set s => some s!"S{s}" | _ => none

def showSite : ROp → Option String
  | .prop id => some s!"P{id}" | .invoke id => some s!"I{id}" | _ => none

def showFun (f : RFun) : String :=
  s!"{f.name}:{",".intercalate (f.ops.filterMap showSym)}:{",".intercalate (f.ops.filterMap showSite)}"

def finish (d : DSt) : DSt × String :=
  match compile globalsList d.st d.cur with
  | .error .syntax => ({ d with cur := emptyEntry }, "err:syntax")
  | .error (.duplicate n) => ({ d with cur := emptyEntry }, s!"err:duplicate:{n}")
  | .error (.undeclared n) => ({ d with cur := emptyEntry }, s!"err:undeclared:{n}")
  | .error .compiler => ({ d with cur := emptyEntry }, "err:compiler")
  | .ok c =>
    let st' := step globalsList d.st d.cur
    let newFaults := st'.faults.drop d.st.faults.length
    let fs := c.funs ++ [{ name := "script", ops := c.script }]
    let ft := newFaults.map fun (a, b, x, y) => s!"{a}/{b}/{x}/{y}"
    ({ st := st', cur := emptyEntry },
     s!"ok|{";".intercalate (fs.map showFun)}|cache={c.propCount},{c.invCount}|faults={",".intercalate ft}")

partial def loop (h out : IO.FS.Stream) (d : DSt) : IO Unit := do
  let line ← h.getLine
  if line.isEmpty then return ()
  let ws := (line.trimAscii.toString.splitOn " ").filter (· ≠ "")
  match ws with
  | [] => loop h out d
  | ["reset"] => loop h out {}
  | ["entry", ok] =>
    loop h out { d with cur := { syntaxOk := ok == "1", decls := [], refs := [], funs := [], script := [], calls := [] } }
  | ["entry", ok, cok] =>
    loop h out { d with cur := { syntaxOk := ok == "1", compilerOk := cok == "1", decls := [], refs := [], funs := [],
                                 script := [], calls := [] } }
  | "decls" :: xs => loop h out { d with cur := { d.cur with decls := xs } }
  | "refs" :: xs => loop h out { d with cur := { d.cur with refs := xs } }
  | "calls" :: xs => loop h out { d with cur := { d.cur with calls := xs } }
  | "fun" :: name :: ops =>
    loop h out { d with cur := { d.cur with funs := d.cur.funs ++ [{ name, ops := ops.filterMap parseOp }] } }
  | "script" :: ops => loop h out { d with cur := { d.cur with script := ops.filterMap parseOp } }
  | ["end"] =>
    let (d', o) := finish d
    out.putStrLn o
    out.flush
    loop h out d'
  | _ =>
    out.putStrLn "bad-op"
    loop h out d

def main (_args : List String) : IO UInt32 := do
  let stdin ← IO.getStdin
  let stdout ← IO.getStdout
  loop stdin stdout {}
  return 0
