import Driver.Chanq
import Driver.PeepholeEng
import Driver.VerifyEng
import Driver.AllocEng
import Driver.C01Frag
/-! `driver <engine>`: one request per line on stdin, one canonical line per request on stdout. -/

partial def loop {σ : Type} (h : IO.FS.Stream) (out : IO.FS.Stream) (step : σ → String → σ × String) (s : σ) : IO Unit := do
  let line ← h.getLine
  if line.isEmpty then return ()
  let (s', o) := step s line
  out.putStrLn o
  loop h out step s'

def main (args : List String) : IO UInt32 := do
  let stdin ← IO.getStdin
  let stdout ← IO.getStdout
  match args with
  | ["chanq"] => loop stdin stdout Driver.Chanq.step {}; return 0
  | ["peephole"] => loop stdin stdout Driver.PeepholeEng.step (); return 0
  | ["peepholex"] => loop stdin stdout Driver.PeepholeEng.stepX (); return 0
  | ["c01frag"] => loop stdin stdout Driver.C01Frag.step (); return 0
  | ["alloc"] => loop stdin stdout Driver.AllocEng.step {}; return 0
  | ["encode"] => loop stdin stdout Driver.VerifyEng.stepEncode (); return 0
  | ["verify"] => loop stdin stdout Driver.VerifyEng.step (); return 0
  | ["peepequiv"] => loop stdin stdout Driver.PeepholeEng.stepEquiv (); return 0
  | _ => IO.eprintln "usage: driver <engine>"; return 2
