import LaytheVerif.Model.ChanQueue
import LaytheVerif.Props.C07
