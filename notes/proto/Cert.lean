namespace Cert

/-- one decoded instruction: how many operands it needs and, per successor, the target offset
and the depth change on that branch -/
structure Node where
  need : Nat
  succs : List (Nat × Int)
  isReturn : Bool := false

structure Fn where
  node : Nat → Option Node      -- instruction boundaries only
  lo : Nat                      -- declared variables (arity + 1)
  hi : Nat                      -- reserved capacity
  entryDepth : Nat

abbrev CertMap := Nat → Option Nat

/-- local consistency of the annotation at one annotated offset -/
def okAt (f : Fn) (D : CertMap) (o : Nat) : Prop :=
  ∀ d, D o = some d →
    ∃ nd, f.node o = some nd ∧ nd.need + f.lo ≤ d + f.lo ∧ nd.need ≤ d ∧ f.lo ≤ d ∧ d ≤ f.hi ∧
      (nd.isReturn = true → f.lo + 1 ≤ d) ∧
      ∀ t δ, (t, δ) ∈ nd.succs → ∃ d' : Nat, (d : Int) + δ = (d' : Int) ∧ D t = some d'

def Checked (f : Fn) (D : CertMap) : Prop :=
  D 0 = some f.entryDepth ∧ ∀ o, okAt f D o

/-- the depth-abstract machine: a state is (offset, depth) -/
inductive Step (f : Fn) : Nat × Nat → Nat × Nat → Prop
  | mk {o d : Nat} {nd : Node} {t : Nat} {δ : Int} {d' : Nat} :
      f.node o = some nd → (t, δ) ∈ nd.succs → (d : Int) + δ = (d' : Int) → Step f (o, d) (t, d')

inductive Reach (f : Fn) : Nat × Nat → Prop
  | entry : Reach f (0, f.entryDepth)
  | step {a b} : Reach f a → Step f a b → Reach f b

/-- a locally checked certificate is an invariant of every path -/
theorem sound (f : Fn) (D : CertMap) (h : Checked f D) :
    ∀ s, Reach f s → D s.1 = some s.2 := by
  intro s hr
  induction hr with
  | entry => exact h.1
  | step _ hs ih =>
    cases hs with
    | mk hn hm hd =>
      obtain ⟨nd', hn', _, _, _, _, _, hsucc⟩ := h.2 _ _ ih
      rw [hn] at hn'; cases hn'
      obtain ⟨d'', hd'', hD⟩ := hsucc _ _ hm
      simp only at hd''
      have heq : d'' = _ := Int.ofNat_inj.mp (hd''.symm.trans hd)
      rw [heq] at hD
      exact hD

/-- hence every reachable state is an instruction boundary within bounds with enough operands -/
theorem safe (f : Fn) (D : CertMap) (h : Checked f D) (o d : Nat) (hr : Reach f (o, d)) :
    ∃ nd, f.node o = some nd ∧ nd.need ≤ d ∧ f.lo ≤ d ∧ d ≤ f.hi ∧ (nd.isReturn = true → f.lo + 1 ≤ d) := by
  have hD := sound f D h _ hr
  obtain ⟨nd, hn, _, h2, h3, h4, h5, _⟩ := h.2 o d hD
  exact ⟨nd, hn, h2, h3, h4, h5⟩

end Cert
#print axioms Cert.safe
