namespace Coll

/-- `determine_index` for an integral index (fractional / NaN / infinite indices are rejected
before this point by `fract() != 0`) -/
def determineIndex (len : Nat) (i : Int) : Option Nat :=
  if i < 0 then
    let neg := (-i).toNat
    if neg > len then none else some (len - neg)
  else
    let k := i.toNat
    if k ≥ len then none else some k

/-- C11_index_norm -/
theorem determineIndex_spec (len : Nat) (i : Int) (k : Nat) :
    determineIndex len i = some k ↔ (-(len : Int) ≤ i ∧ i < len ∧ (k : Int) = (i + len) % len) := by
  unfold determineIndex
  by_cases h : i < 0
  · simp only [h, if_true]
    by_cases h2 : (-i).toNat > len
    · simp only [h2, if_true]
      constructor
      · intro e; cases e
      · intro ⟨a, _, _⟩; omega
    · simp only [h2, if_false, Option.some.injEq]
      have hlen : 0 < (len : Int) ∨ len = 0 := by omega
      constructor
      · intro e
        refine ⟨by omega, by omega, ?_⟩
        have h3 : 0 ≤ i + len := by omega
        have h4 : i + len < len := by omega
        rw [Int.emod_eq_of_lt h3 h4]; omega
      · intro ⟨a, b, c⟩
        have h3 : 0 ≤ i + len := by omega
        have h4 : i + len < len := by omega
        rw [Int.emod_eq_of_lt h3 h4] at c; omega
  · simp only [h, if_false]
    by_cases h2 : i.toNat ≥ len
    · simp only [h2, if_true]
      constructor
      · intro e; cases e
      · intro ⟨_, b, _⟩; omega
    · simp only [h2, if_false, Option.some.injEq]
      constructor
      · intro e
        refine ⟨by omega, by omega, ?_⟩
        have : (i + len) % len = i := by
          rw [Int.add_emod_right]; exact Int.emod_eq_of_lt (by omega) (by omega)
        rw [this]; omega
      · intro ⟨a, b, c⟩
        have : (i + len) % len = i := by
          rw [Int.add_emod_right]; exact Int.emod_eq_of_lt (by omega) (by omega)
        rw [this] at c; omega

/-- the list buffer: contents plus a capacity; `insert` shifts the tail one slot up
(`ptr::copy`), growing by doubling when full -/
structure Buf where
  items : List Nat
  cap : Nat

def Buf.insert (b : Buf) (idx : Nat) (v : Nat) : Option Buf :=
  if idx > b.items.length then none
  else
    let cap' := if b.items.length + 1 > b.cap then b.cap * 2 else b.cap
    some { items := b.items.take idx ++ [v] ++ b.items.drop idx, cap := cap' }

def Buf.remove (b : Buf) (idx : Nat) : Option (Nat × Buf) :=
  match b.items[idx]? with
  | none => none
  | some v => some (v, { b with items := b.items.take idx ++ b.items.drop (idx + 1) })

theorem insert_spec (b : Buf) (idx v : Nat) (b' : Buf) (h : b.insert idx v = some b') :
    b'.items = b.items.insertIdx idx v ∧ b'.items.length = b.items.length + 1 := by
  unfold Buf.insert at h
  split at h
  · cases h
  · next hle =>
    cases h
    have hle' : idx ≤ b.items.length := by omega
    constructor
    · simp [List.insertIdx_eq_take_drop, hle']
    · simp [List.length_take, List.length_drop]; omega

theorem insert_fail_unchanged (b : Buf) (idx v : Nat) : b.insert idx v = none → idx > b.items.length := by
  unfold Buf.insert; split <;> simp_all

theorem remove_spec (b : Buf) (idx v : Nat) (b' : Buf) (h : b.remove idx = some (v, b')) :
    b.items[idx]? = some v ∧ b'.items = b.items.eraseIdx idx := by
  unfold Buf.remove at h
  split at h
  · cases h
  · next w hw =>
    cases h
    exact ⟨hw, by simp [List.eraseIdx_eq_take_drop_succ]⟩

end Coll
#print axioms Coll.determineIndex_spec
