namespace Lower

inductive V | nil | bool (b : Bool) | num (n : Int) deriving DecidableEq, Repr

def V.falsey : V → Bool
  | .nil => true
  | .bool false => true
  | _ => false

inductive I where
  | const (v : V) | add | getL (s : Nat) | setL (s : Nat)
  | and_ (l : Nat) | jif (l : Nat) | jump (l : Nat) | label (l : Nat)
  deriving DecidableEq, Repr

inductive E where
  | lit (v : V) | var (s : Nat) | add (a b : E) | and_ (a b : E) | tern (c t e : E) | assign (s : Nat) (a : E)
  deriving Repr

abbrev Env := Nat → V

/-- source-level meaning -/
def eval : E → Env → Except String (V × Env)
  | .lit v, env => .ok (v, env)
  | .var s, env => .ok (env s, env)
  | .add a b, env =>
    match eval a env with
    | .error m => .error m
    | .ok (va, env1) =>
      match eval b env1 with
      | .error m => .error m
      | .ok (vb, env2) =>
        match va, vb with
        | .num x, .num y => .ok (.num (x + y), env2)
        | _, _ => .error "Operands must be two numbers or two strings."
  | .and_ a b, env =>
    match eval a env with
    | .error m => .error m
    | .ok (va, env1) => if va.falsey then .ok (va, env1) else eval b env1
  | .tern c t e, env =>
    match eval c env with
    | .error m => .error m
    | .ok (vc, env1) => if vc.falsey then eval e env1 else eval t env1
  | .assign s a, env =>
    match eval a env with
    | .error m => .error m
    | .ok (va, env1) => .ok (va, fun k => if k = s then va else env1 k)

/-- the compiler's lowering with its label counter -/
def lower : E → Nat → List I × Nat
  | .lit v, n => ([.const v], n)
  | .var s, n => ([.getL s], n)
  | .add a b, n =>
    let ca := lower a n
    let cb := lower b ca.2
    (ca.1 ++ cb.1 ++ [.add], cb.2)
  | .and_ a b, n =>
    let ca := lower a n
    let cb := lower b (ca.2 + 1)
    (ca.1 ++ [.and_ ca.2] ++ cb.1 ++ [.label ca.2], cb.2)
  | .tern c t e, n =>
    let cc := lower c n
    let ct := lower t (cc.2 + 1)
    let ce := lower e (ct.2 + 1)
    (cc.1 ++ [.jif cc.2] ++ ct.1 ++ [.jump ct.2, .label cc.2] ++ ce.1 ++ [.label ct.2], ce.2)
  | .assign s a, n =>
    let ca := lower a n
    (ca.1 ++ [.setL s], ca.2)

structure St where
  stack : List V
  env : Env

inductive Out | next (s : St) | goto (l : Nat) (s : St) | err (m : String) | stuck

/-- the VM's behaviour on these instructions (from ops.rs) -/
def step : I → St → Out
  | .const v, s => .next { s with stack := v :: s.stack }
  | .getL k, s => .next { s with stack := s.env k :: s.stack }
  | .setL k, s => match s.stack with
    | v :: _ => .next { s with env := fun j => if j = k then v else s.env j }
    | [] => .stuck
  | .add, s => match s.stack with
    | .num y :: .num x :: r => .next { s with stack := .num (x + y) :: r }
    | _ :: _ :: _ => .err "Operands must be two numbers or two strings."
    | _ => .stuck
  | .and_ l, s => match s.stack with
    | v :: r => if v.falsey then .goto l s else .next { s with stack := r }
    | [] => .stuck
  | .jif l, s => match s.stack with
    | v :: r => if v.falsey then .goto l { s with stack := r } else .next { s with stack := r }
    | [] => .stuck
  | .jump l, s => .goto l s
  | .label _, s => .next s

def after (l : Nat) : List I → List I
  | .label m :: r => if m = l then r else after l r
  | _ :: r => after l r
  | [] => []

inductive Res | fell (s : St) | err (m : String) | stuck | outOfFuel

def exec (prog : List I) : Nat → List I → St → Res
  | _, [], s => .fell s
  | fuel, i :: r, s =>
    match step i s with
    | .next s' => exec prog fuel r s'
    | .goto l s' => match fuel with
      | 0 => .outOfFuel
      | f + 1 => exec prog f (after l prog) s'
    | .err m => .err m
    | .stuck => .stuck
termination_by fuel pc => (fuel, pc.length)

def labelsOf : List I → List Nat
  | [] => []
  | .label l :: r => l :: labelsOf r
  | _ :: r => labelsOf r

end Lower
