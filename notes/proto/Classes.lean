namespace Classes

/-- a class as `class.rs` stores it: association lists stand in for the two hash maps -/
structure Cls where
  methods : List (String × Nat)     -- name ↦ method value (an id)
  fields : List (String × Nat)      -- name ↦ slot index
  deriving Repr

def lookup (l : List (String × Nat)) (k : String) : Option Nat :=
  match l with
  | [] => none
  | (k', v) :: r => if k' = k then some v else lookup r k

/-- `Class::add_field`: a new name gets index `len` -/
def addField (c : Cls) (name : String) : Cls :=
  match lookup c.fields name with
  | some _ => c
  | none => { c with fields := c.fields ++ [(name, c.fields.length)] }

/-- `Class::add_method`: insert or overwrite -/
def addMethod (c : Cls) (name : String) (m : Nat) : Cls :=
  { c with methods := (name, m) :: c.methods }

/-- `Class::inherit` on a fresh class: copy both tables -/
def inherit (sup : Cls) : Cls := { methods := sup.methods, fields := sup.fields }

/-- what the compiler emits for one class body: Inherit, then the initialiser's fields in
order of first assignment, then the methods -/
def build (sup : Cls) (fields : List String) (methods : List (String × Nat)) : Cls :=
  let c := fields.foldl addField (inherit sup)
  methods.foldl (fun c (p : String × Nat) => addMethod c p.1 p.2) c

/-- indices are exactly `0 … len-1`, each name once -/
def WF (c : Cls) : Prop :=
  (c.fields.map (·.2)) = List.range c.fields.length ∧ (c.fields.map (·.1)).Nodup

theorem lookup_append (l r : List (String × Nat)) (k : String) :
    lookup (l ++ r) k = match lookup l k with | some v => some v | none => lookup r k := by
  induction l with
  | nil => simp [lookup]
  | cons p l ih =>
    obtain ⟨k', v⟩ := p
    simp only [List.cons_append, lookup]
    split <;> simp_all

theorem lookup_none_notMem (l : List (String × Nat)) (k : String) (h : lookup l k = none) :
    k ∉ l.map (·.1) := by
  induction l with
  | nil => simp
  | cons p l ih =>
    obtain ⟨k', v⟩ := p
    simp only [lookup] at h
    split at h
    · cases h
    · next hne =>
      simp only [List.map_cons, List.mem_cons, not_or]
      exact ⟨fun e => hne e.symm, ih h⟩

theorem addField_wf (c : Cls) (name : String) (h : WF c) : WF (addField c name) := by
  unfold addField
  split
  · exact h
  · next hn =>
    obtain ⟨h1, h2⟩ := h
    refine ⟨?_, ?_⟩
    · simp [List.map_append, h1, List.range_succ]
    · simp only [List.map_append, List.map_cons, List.map_nil]
      rw [List.nodup_append]
      refine ⟨h2, by simp, ?_⟩
      intro a ha b hb
      simp at hb; subst hb
      intro e; subst e
      exact lookup_none_notMem _ _ hn ha

/-- an existing field keeps its index when fields are appended (so an ancestor's fixed-index
accesses stay valid in every descendant) -/
theorem addField_preserves (c : Cls) (name f : String) (i : Nat) (h : lookup c.fields f = some i) :
    lookup (addField c name).fields f = some i := by
  unfold addField
  split
  · exact h
  · simp [lookup_append, h]

theorem foldl_addField_wf (fs : List String) (c : Cls) (h : WF c) : WF (fs.foldl addField c) := by
  induction fs generalizing c with
  | nil => simpa
  | cons f fs ih => exact ih _ (addField_wf c f h)

theorem foldl_addField_preserves (fs : List String) (c : Cls) (f : String) (i : Nat)
    (h : lookup c.fields f = some i) : lookup (fs.foldl addField c).fields f = some i := by
  induction fs generalizing c with
  | nil => simpa
  | cons g fs ih => exact ih _ (addField_preserves c g f i h)

theorem foldl_addMethod_fields (ms : List (String × Nat)) (c : Cls) :
    (ms.foldl (fun c (p : String × Nat) => addMethod c p.1 p.2) c).fields = c.fields := by
  induction ms generalizing c with
  | nil => rfl
  | cons m ms ih => simp only [List.foldl]; rw [ih]; rfl

/-- C03_field_index_bijection -/
theorem build_wf (sup : Cls) (fs : List String) (ms : List (String × Nat)) (h : WF sup) :
    WF (build sup fs ms) := by
  unfold build WF
  rw [foldl_addMethod_fields]
  exact foldl_addField_wf fs (inherit sup) h

/-- C03_fixed_index_valid: a field of the parent has the same slot in the child -/
theorem build_preserves (sup : Cls) (fs : List String) (ms : List (String × Nat)) (f : String) (i : Nat)
    (h : lookup sup.fields f = some i) : lookup (build sup fs ms).fields f = some i := by
  unfold build
  rw [foldl_addMethod_fields]
  exact foldl_addField_preserves fs (inherit sup) f i h

/-- most-derived-first walk over a chain of (own methods in definition order) -/
def mro (chain : List (List (String × Nat))) (k : String) : Option Nat :=
  match chain with
  | [] => none
  | own :: rest => match lookup own.reverse k with
    | some v => some v
    | none => mro rest k

theorem foldl_addMethod_lookup (ms : List (String × Nat)) (c : Cls) (k : String) :
    lookup (ms.foldl (fun c (p : String × Nat) => addMethod c p.1 p.2) c).methods k =
      match lookup ms.reverse k with | some v => some v | none => lookup c.methods k := by
  induction ms generalizing c with
  | nil => simp [lookup]
  | cons m ms ih =>
    obtain ⟨n, v⟩ := m
    simp only [List.foldl]
    rw [ih]
    simp only [List.reverse_cons, lookup_append, addMethod, lookup]
    cases lookup ms.reverse k with
    | some w => simp
    | none =>
      simp only
      split <;> simp_all

theorem foldl_addField_methods (fs : List String) (c : Cls) : (fs.foldl addField c).methods = c.methods := by
  induction fs generalizing c with
  | nil => rfl
  | cons f fs ih => simp only [List.foldl]; rw [ih]; unfold addField; split <;> rfl

theorem build_methods_lookup (sup : Cls) (fs : List String) (ms : List (String × Nat)) (k : String) :
    lookup (build sup fs ms).methods k =
      match lookup ms.reverse k with | some v => some v | none => lookup sup.methods k := by
  unfold build
  rw [foldl_addMethod_lookup, foldl_addField_methods]
  rfl

/-- C03_flat_lookup_is_mro: copy-on-inherit flattening = walking the chain -/
theorem flat_is_mro (chain : List (List String × List (String × Nat))) (root : Cls) (k : String) :
    lookup (chain.foldr (fun (p : List String × List (String × Nat)) sup => build sup p.1 p.2) root).methods k =
      match mro (chain.map (·.2)) k with | some v => some v | none => lookup root.methods k := by
  induction chain with
  | nil => simp [mro]
  | cons p chain ih =>
    simp only [List.foldr, List.map_cons, mro]
    rw [build_methods_lookup]
    cases h : lookup p.2.reverse k with
    | some v => simp
    | none => simpa using ih

end Classes
#print axioms Classes.build_wf
#print axioms Classes.flat_is_mro
