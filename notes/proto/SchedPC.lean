import P.Sched
open Sched

def sends (c n : Nat) : List Op := (List.range n).map (fun i => Op.send c (i + 1))
def recvs (c n : Nat) : List Op := (List.range n).map (fun _ => Op.recv c)

def gotCount (vm : VM) (f : Nat) : Nat := (vm.out.filter (fun s => s.startsWith s!"f{f} got" && !s.endsWith "nil")).length
def nilCount (vm : VM) (f : Nat) : Nat := (vm.out.filter (fun s => s.startsWith s!"f{f} got nil")).length

def main : IO Unit := do
  let mut bad := 0
  let mut total := 0
  for cap in [none, some 1, some 2, some 3] do
    for k in List.range 6 do
      for m in List.range 6 do
        for close in [false, true] do
          -- child produces k (then optionally closes), main consumes m
          let child := sends 0 k ++ (if close then [Op.close 0] else [])
          let vm := run 2000 (init [cap] ([Op.launch child] ++ recvs 0 m ++ [Op.print 99]))
          total := total + 1
          let expectExit := m ≤ k || close
          let ok := match vm.outcome with
            | .exit => expectExit && gotCount vm 0 == min m k && nilCount vm 0 == (if m > k then m - k else 0)
            | .deadlock => !expectExit && gotCount vm 0 == k
            | _ => false
          if !ok then
            bad := bad + 1
            IO.println s!"PC cap={repr cap} k={k} m={m} close={close}: {repr vm.outcome} got={gotCount vm 0} nil={nilCount vm 0}"
          -- main produces k, child consumes m
          let vm2 := run 2000 (init [cap] ([Op.launch (recvs 0 m)] ++ sends 0 k ++ [Op.print 99]))
          total := total + 1
          let capN := match cap with | none => 0 | some c => c
          -- main can finish iff every send eventually completes: k ≤ m + capN (sync: k ≤ m)
          let expectExit2 := k ≤ m + capN
          let ok2 := match vm2.outcome with
            | .exit => expectExit2
            | .deadlock => !expectExit2
            | _ => false
          if !ok2 then
            bad := bad + 1
            IO.println s!"CP cap={repr cap} k={k} m={m}: {repr vm2.outcome} childgot={gotCount vm2 1}"
  IO.println s!"total {total} bad {bad}"
