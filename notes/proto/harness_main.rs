use laythe_env::{io::Io, stdio::support::{IoStdioTest, StdioTestContainer, TestWriter}};
use laythe_native::{env::IoEnvNative, fs::IoFsNative, time::IoTimeNative};
use laythe_vm::vm::Vm;
use std::{io::Cursor, path::PathBuf, sync::Arc};

fn main() {
  let path = std::env::args().nth(1).unwrap();
  let src = std::fs::read_to_string(&path).unwrap();
  let container = Arc::new(StdioTestContainer {
    stdout: TestWriter::default(),
    stderr: TestWriter::default(),
    stdin: Box::new(Cursor::new(Vec::new())),
    lines: vec![],
    line_index: Box::new(0),
  });
  let io = Io::default()
    .with_stdio(Arc::new(IoStdioTest::new(&container)))
    .with_time(Arc::new(IoTimeNative::default()))
    .with_fs(Arc::new(IoFsNative()))
    .with_env(Arc::new(IoEnvNative()));
  let r = std::panic::catch_unwind(std::panic::AssertUnwindSafe(move || {
    let mut vm = Vm::new(io);
    vm.run(PathBuf::from(path), &src)
  }));
  println!("result={:?}", r.as_ref().map(|(c, e)| (*c, format!("{:?}", e))).map_err(|_| "panic"));
  println!("stdout={:?}", String::from_utf8_lossy(&container.stdout));
  println!("stderr={:?}", String::from_utf8_lossy(&container.stderr));
}
