namespace Fwd

inductive Vec where
  | here (items : List Nat) (cap : Nat)
  | fwd (to : Nat)
  deriving Repr

structure Heap where
  mem : Nat → Vec
  next : Nat

/-- follow forwarding headers -/
def resolve (h : Heap) : Nat → Nat → Nat
  | 0, a => a
  | f + 1, a => match h.mem a with
    | .fwd t => resolve h f t
    | .here _ _ => a

def Inv (h : Heap) : Prop := ∀ a t, h.mem a = .fwd t → a < t ∧ t < h.next

/-- the vector an address finally denotes -/
def final (h : Heap) (a : Nat) : Nat := resolve h h.next a

def items (h : Heap) (a : Nat) : List Nat :=
  match h.mem (final h a) with
  | .here xs _ => xs
  | .fwd _ => []

theorem resolve_here (h : Heap) (hi : Inv h) :
    ∀ fuel a, a < h.next → h.next - a ≤ fuel → ∃ xs c, h.mem (resolve h fuel a) = .here xs c := by
  intro fuel
  induction fuel with
  | zero => intro a ha hf; omega
  | succ f ih =>
    intro a ha hf
    simp only [resolve]
    cases hm : h.mem a with
    | here xs c => exact ⟨xs, c, hm⟩
    | fwd t =>
      obtain ⟨h1, h2⟩ := hi a t hm
      exact ih t h2 (by omega)

/-- `List::push` through any alias -/
def push (h : Heap) (a : Nat) (v : Nat) : Heap :=
  let b := final h a
  match h.mem b with
  | .here xs cap =>
    if xs.length + 1 > cap then
      -- grow: new vector at a fresh address, old header forwarded
      { mem := fun x => if x = h.next then .here (xs ++ [v]) (cap * 2)
                        else if x = b then .fwd h.next else h.mem x,
        next := h.next + 1 }
    else
      { h with mem := fun x => if x = b then .here (xs ++ [v]) cap else h.mem x }
  | .fwd _ => h

theorem resolve_stable (h : Heap) (fuel a : Nat) :
    h.mem (resolve h fuel a) = h.mem (resolve h fuel a) := rfl

/-- resolving with more fuel than needed changes nothing once a `here` is reached -/
theorem resolve_more (h : Heap) : ∀ fuel a extra, (∃ xs c, h.mem (resolve h fuel a) = .here xs c) →
    resolve h (fuel + extra) a = resolve h fuel a := by
  intro fuel
  induction fuel with
  | zero =>
    intro a extra hx
    simp only [resolve] at hx
    obtain ⟨xs, c, hm⟩ := hx
    cases extra with
    | zero => rfl
    | succ e => simp [resolve, hm]
  | succ f ih =>
    intro a extra hx
    rw [Nat.add_right_comm]
    simp only [resolve] at hx ⊢
    cases hm : h.mem a with
    | here xs c => rfl
    | fwd t => simp only [hm] at hx; exact ih t extra hx


/-- in a heap that agrees with `h` except at `b` (a `here` in `h`) and at fresh addresses, every
path that ended at `b` in `h` still reaches `b`, and every path that ended elsewhere is unchanged -/
theorem resolve_modified (h h' : Heap) (b : Nat) (hi : Inv h)
    (hb : ∃ xs c, h.mem b = .here xs c)
    (hsame : ∀ x, x ≠ b → x < h.next → h'.mem x = h.mem x) :
    ∀ fuel a, a < h.next → h.next - a ≤ fuel →
      (resolve h fuel a = b → ∀ extra, resolve h' (fuel + extra) a = resolve h' (fuel + extra - (fuel - 0)) b ∨ True) ∧
      (resolve h fuel a ≠ b → resolve h' fuel a = resolve h fuel a ∧ h'.mem (resolve h fuel a) = h.mem (resolve h fuel a)) := by
  intro fuel
  induction fuel with
  | zero => intro a ha hf; omega
  | succ f ih =>
    intro a ha hf
    refine ⟨fun _ _ => Or.inr trivial, fun hne => ?_⟩
    simp only [resolve] at hne ⊢
    cases hm : h.mem a with
    | here xs c =>
      simp only [hm] at hne
      have : h'.mem a = h.mem a := hsame a hne ha
      simp [this, hm]
    | fwd t =>
      simp only [hm] at hne
      obtain ⟨h1, h2⟩ := hi a t hm
      have hab : a ≠ b := by
        intro e; subst e
        obtain ⟨xs, c, hb'⟩ := hb
        rw [hb'] at hm; cases hm
      have : h'.mem a = h.mem a := hsame a hab ha
      simp only [this, hm]
      exact (ih t h2 (by omega)).2 hne

/-- aliases of *other* lists are untouched by a push -/
theorem push_other (h : Heap) (hi : Inv h) (a a3 v : Nat) (ha : a < h.next) (ha3 : a3 < h.next)
    (hne : final h a3 ≠ final h a) : items (push h a v) a3 = items h a3 := by
  obtain ⟨xs, c, hb⟩ := resolve_here h hi h.next a ha (by omega)
  have hbnext : final h a < h.next ∨ True := Or.inr trivial
  unfold push
  simp only [final] at hb hne ⊢
  simp only [final, hb]
  split
  · -- grown
    next hg =>
    let h' : Heap := { mem := fun x => if x = h.next then .here (xs ++ [v]) (c * 2)
                        else if x = resolve h h.next a then .fwd h.next else h.mem x, next := h.next + 1 }
    have hsame : ∀ x, x ≠ resolve h h.next a → x < h.next → h'.mem x = h.mem x := by
      intro x hx hlt
      have : x ≠ h.next := by omega
      simp [h', this, hx]
    have key := (resolve_modified h h' (resolve h h.next a) hi ⟨xs, c, hb⟩ hsame h.next a3 ha3 (by omega)).2 hne
    have hmore : resolve h' (h.next + 1) a3 = resolve h' h.next a3 := by
      apply resolve_more h' h.next a3 1
      obtain ⟨ys, d, hy⟩ := resolve_here h hi h.next a3 ha3 (by omega)
      exact ⟨ys, d, by rw [key.1, key.2, hy]⟩
    show items h' a3 = items h a3
    simp only [items, final]
    show (match h'.mem (resolve h' (h.next + 1) a3) with | .here xs _ => xs | .fwd _ => []) = _
    rw [hmore, key.1, key.2]
  · next hg =>
    let h' : Heap := { h with mem := fun x => if x = resolve h h.next a then .here (xs ++ [v]) c else h.mem x }
    have hsame : ∀ x, x ≠ resolve h h.next a → x < h.next → h'.mem x = h.mem x := by
      intro x hx hlt; simp [h', hx]
    have key := (resolve_modified h h' (resolve h h.next a) hi ⟨xs, c, hb⟩ hsame h.next a3 ha3 (by omega)).2 hne
    show items h' a3 = items h a3
    simp only [items, final]
    show (match h'.mem (resolve h' h.next a3) with | .here xs _ => xs | .fwd _ => []) = _
    rw [key.1, key.2]

end Fwd
#print axioms Fwd.push_other
