namespace Intern

structure St where
  objs : Nat → Option String     -- allocated string objects and their contents
  table : String → Option Nat    -- intern_cache
  live : Nat → Bool              -- string objects the program can currently reach
  next : Nat                     -- fresh ids

inductive Op where
  | intern (s : String)                  -- any string-producing operation
  | drop (id : Nat)                      -- the program loses its last reference
  | collect (free : Nat → Bool)          -- a collection that frees `free ∩ unmarked` (nursery or full)

def step (st : St) : Op → St
  | .intern s =>
    match st.table s with
    | some id => { st with live := fun j => if j = id then true else st.live j }
    | none =>
      let id := st.next
      { objs := fun j => if j = id then some s else st.objs j,
        table := fun t => if t = s then some id else st.table t,
        live := fun j => if j = id then true else st.live j,
        next := id + 1 }
  | .drop id => { st with live := fun j => if j = id then false else st.live j }
  | .collect free =>
    -- marked = live; evict unmarked from the table first, then free
    { st with
      table := fun t => match st.table t with
        | some id => if st.live id then some id else none
        | none => none,
      objs := fun j => if free j && !st.live j then none else st.objs j }

structure Inv (st : St) : Prop where
  liveInTable : ∀ id, st.live id = true → ∃ s, st.objs id = some s ∧ st.table s = some id
  tableAlloc : ∀ s id, st.table s = some id → st.objs id = some s
  fresh : ∀ id, st.next ≤ id → st.objs id = none

theorem step_inv (st : St) (op : Op) (h : Inv st) : Inv (step st op) := by
  obtain ⟨h1, h2, h3⟩ := h
  cases op with
  | intern s =>
    simp only [step]
    split
    · next id hid =>
      refine ⟨fun j hj => ?_, h2, h3⟩
      by_cases e : j = id
      · subst e; exact ⟨s, h2 _ _ hid, hid⟩
      · simp [e] at hj; exact h1 j hj
    · next hnone =>
      have hfree : st.objs st.next = none := h3 _ (Nat.le_refl _)
      refine ⟨fun j hj => ?_, fun t id ht => ?_, fun id hid => ?_⟩
      · by_cases e : j = st.next
        · subst e; exact ⟨s, by simp, by simp⟩
        · simp only [e, if_false] at hj ⊢
          obtain ⟨t, ht1, ht2⟩ := h1 j hj
          refine ⟨t, ht1, ?_⟩
          by_cases e2 : t = s
          · subst e2; rw [hnone] at ht2; cases ht2
          · simp [e2, ht2]
      · by_cases e2 : t = s
        · subst e2; simp at ht; subst ht; simp
        · simp only [e2, if_false] at ht
          have := h2 _ _ ht
          by_cases e : id = st.next
          · subst e; rw [hfree] at this; cases this
          · simp [e, this]
      · simp only at hid
        have : id ≠ st.next := by omega
        simp only [this, if_false]
        exact h3 id (by omega)
  | drop id =>
    simp only [step]
    refine ⟨fun j hj => ?_, h2, h3⟩
    by_cases e : j = id
    · simp [e] at hj
    · simp [e] at hj; exact h1 j hj
  | collect free =>
    simp only [step]
    refine ⟨fun j hj => ?_, fun t id ht => ?_, fun id hid => ?_⟩
    · simp only at hj
      obtain ⟨s, hs1, hs2⟩ := h1 j hj
      exact ⟨s, by simp [hj, hs1], by simp [hs2, hj]⟩
    · simp only at ht ⊢
      split at ht
      · next id' hid' =>
        split at ht
        · next hl => cases ht; simp [hl, h2 _ _ hid']
        · cases ht
      · cases ht
    · simp only [h3 id hid]; split <;> rfl

theorem run_inv (st : St) (ops : List Op) (h : Inv st) : Inv (ops.foldl step st) := by
  induction ops generalizing st with
  | nil => simpa
  | cons op ops ih => exact ih _ (step_inv st op h)

/-- C09_intern_canonical: along every history, two reachable strings with equal contents are
the same object (so identity equality and hashing coincide with content equality) -/
theorem canonical (st : St) (ops : List Op) (h : Inv st) (a b : Nat) (sa sb : String) :
    let st' := ops.foldl step st
    st'.live a = true → st'.live b = true → st'.objs a = some sa → st'.objs b = some sb →
    (a = b ↔ sa = sb) := by
  intro st' ha hb hsa hsb
  have hinv : Inv st' := run_inv st ops h
  constructor
  · intro e; subst e; rw [hsa] at hsb; cases hsb; rfl
  · intro e; subst e
    obtain ⟨s1, h11, h12⟩ := hinv.liveInTable a ha
    obtain ⟨s2, h21, h22⟩ := hinv.liveInTable b hb
    rw [hsa] at h11; cases h11
    rw [hsb] at h21; cases h21
    rw [h12] at h22; cases h22; rfl

/-- C09_no_dangling_key -/
theorem no_dangling (st : St) (ops : List Op) (h : Inv st) (s : String) (id : Nat) :
    (ops.foldl step st).table s = some id → (ops.foldl step st).objs id = some s := by
  exact (run_inv st ops h).tableAlloc s id

def init : St := { objs := fun _ => none, table := fun _ => none, live := fun _ => false, next := 0 }
example : Inv init := ⟨by simp [init], by simp [init], by simp [init]⟩

end Intern
#print axioms Intern.canonical
