namespace Sched

inductive FState | pending | running | blocked | complete deriving DecidableEq, Repr, Inhabited
inductive Kind | sync | buffered deriving DecidableEq, Repr, Inhabited
inductive QState | ready | closed | closedEmpty deriving DecidableEq, Repr, Inhabited

inductive Op where
  | send (c : Nat) (v : Nat)
  | recv (c : Nat)            -- prints "f<id> got v"
  | close (c : Nat)
  | launch (body : List Op)
  | print (v : Nat)
  deriving Repr

structure Fiber where
  state : FState
  parent : Option Nat
  channels : List Nat
  runnable : Bool
  prog : List Op
  deriving Repr, Inhabited

structure Q where
  queue : List Nat
  cap : Nat
  kind : Kind
  state : QState
  sendW : List Nat
  recvW : List Nat
  deriving Repr, Inhabited

inductive Outcome | running | exit | deadlock | error (msg : String) | panic (msg : String)
  deriving Repr, DecidableEq

structure VM where
  fibers : Array Fiber
  chans : Array Q
  cur : Nat
  runq : List Nat
  out : List String
  outcome : Outcome
  deriving Repr

def VM.fiber (vm : VM) (i : Nat) : Fiber := vm.fibers[i]!
def VM.setFiber (vm : VM) (i : Nat) (f : Fiber) : VM := { vm with fibers := vm.fibers.set! i f }
def VM.chan (vm : VM) (c : Nat) : Q := vm.chans[c]!
def VM.setChan (vm : VM) (c : Nat) (q : Q) : VM := { vm with chans := vm.chans.set! c q }

/-- pop waiters until a runnable one is found -/
def findRunnable (fs : Array Fiber) : List Nat → Option Nat × List Nat
  | [] => (none, [])
  | w :: rest => if fs[w]!.runnable then (some w, rest) else findRunnable fs rest

def Q.isClosed (q : Q) : Bool := q.state != .ready

/-- ChannelQueue::runnable_waiter -/
def runnableWaiter (fs : Array Fiber) (q : Q) : Option Nat × Q :=
  let fromSend := let (r, sw) := findRunnable fs q.sendW; (r, { q with sendW := sw })
  let fromRecv := let (r, rw) := findRunnable fs q.recvW; (r, { q with recvW := rw })
  match q.kind with
  | .sync => if q.queue.isEmpty && !q.isClosed then fromSend else fromRecv
  | .buffered =>
    if q.queue.isEmpty && !q.isClosed then fromSend
    else if q.queue.length == q.cap || q.isClosed then fromRecv
    else
      match fromSend with
      | (some w, q') => (some w, q')
      | (none, q') => let (r, rw) := findRunnable fs q'.recvW; (r, { q' with recvW := rw })

/-- Fiber::get_runnable over the channels-used list (lazy: stops at the first hit) -/
def getRunnable (vm : VM) : List Nat → Option Nat × VM
  | [] => (none, vm)
  | c :: rest =>
    let (r, q') := runnableWaiter vm.fibers (vm.chan c)
    let vm' := vm.setChan c q'
    match r with
    | some w => (some w, vm')
    | none => getRunnable vm' rest

/-- Vm::queue_blocked_fiber: unblock (asserts Blocked|Pending) and push to the run queue -/
def queueBlocked (vm : VM) (w : Nat) : VM :=
  let f := vm.fiber w
  match f.state with
  | .blocked => { (vm.setFiber w { f with state := .pending }) with runq := vm.runq ++ [w] }
  | .pending => { vm with runq := vm.runq ++ [w] }
  | s => { vm with outcome := .panic s!"unblock: fiber {w} in state {repr s}" }

def wake (vm : VM) (first : Option Nat) : VM :=
  let me := vm.fiber vm.cur
  let (w, vm) := match first with
    | some w => (some w, vm)
    | none => getRunnable vm me.channels
  match w with
  | some w => queueBlocked vm w
  | none => vm

def addUsed (vm : VM) (c : Nat) : VM :=
  let f := vm.fiber vm.cur
  if f.channels.contains c then vm else vm.setFiber vm.cur { f with channels := f.channels ++ [c] }

def contextSwitch (vm : VM) : VM :=
  match vm.outcome with
  | .running =>
    match vm.runq with
    | [] => { vm with outcome := .deadlock }
    | f :: rest =>
      let fb := vm.fiber f
      match fb.state with
      | .pending => { (vm.setFiber f { fb with state := .running }) with cur := f, runq := rest }
      | s => { vm with outcome := .panic s!"activate: fiber {f} in state {repr s}" }
  | _ => vm

def advance (vm : VM) : VM :=
  let f := vm.fiber vm.cur
  vm.setFiber vm.cur { f with prog := f.prog.tail }

def setState (vm : VM) (s : FState) (runnable : Option Bool := none) : VM :=
  let f := vm.fiber vm.cur
  vm.setFiber vm.cur { f with state := s, runnable := runnable.getD f.runnable }

def step (vm : VM) : VM :=
  let me := vm.fiber vm.cur
  match me.prog with
  | [] =>
    if vm.cur == 0 then { vm with outcome := .exit }
    else
      -- Fiber::complete
      let vm := setState vm .complete (some false)
      let parentW : Option Nat := match me.parent with
        | some p => if (vm.fiber p).state == .pending then some p else none
        | none => none
      let (w, vm) := match parentW with
        | some p => (some p, vm)
        | none => getRunnable vm me.channels
      let vm := vm.setFiber vm.cur { (vm.fiber vm.cur) with channels := [] }
      let vm := match w with | some w => queueBlocked vm w | none => vm
      contextSwitch vm
  | .print v :: _ => advance { vm with out := vm.out ++ [s!"f{vm.cur} print {v}"] }
  | .launch body :: _ =>
    let id := vm.fibers.size
    let nf : Fiber := { state := .pending, parent := some vm.cur, channels := [], runnable := true, prog := body }
    advance { vm with fibers := vm.fibers.push nf, runq := vm.runq ++ [id] }
  | .close c :: _ =>
    let q := vm.chan c
    if q.isClosed then { vm with outcome := .error "Channel already closed." }
    else advance (vm.setChan c { q with state := if q.queue.isEmpty then .closedEmpty else .closed })
  | .send c v :: _ =>
    let vm := addUsed vm c
    let q := vm.chan c
    match q.state with
    | .ready =>
      if q.kind == .sync && q.queue.isEmpty then
        let (r, rw) := findRunnable vm.fibers q.recvW
        let vm := vm.setChan c { q with queue := q.queue ++ [v], sendW := q.sendW ++ [vm.cur], recvW := rw }
        let vm := wake vm r
        contextSwitch (setState (advance vm) .blocked)
      else if q.queue.length < q.cap then
        advance (vm.setChan c { q with queue := q.queue ++ [v] })
      else
        let (r, rw) := findRunnable vm.fibers q.recvW
        let vm := vm.setChan c { q with sendW := q.sendW ++ [vm.cur], recvW := rw }
        let vm := wake vm r
        contextSwitch (setState vm .pending (some true))
    | _ => { vm with outcome := .error "Attempted to send into a closed channel." }
  | .recv c :: _ =>
    let vm := addUsed vm c
    let q := vm.chan c
    let got (vm : VM) (v : String) : VM := advance { vm with out := vm.out ++ [s!"f{vm.cur} got {v}"] }
    let park (vm : VM) : VM :=
      let (r, sw) := findRunnable vm.fibers q.sendW
      let vm := vm.setChan c { q with recvW := q.recvW ++ [vm.cur], sendW := sw }
      let vm := wake vm r
      if q.kind == .sync then contextSwitch (setState vm .blocked)
      else contextSwitch (setState vm .pending (some true))
    match q.state with
    | .ready => match q.queue with
      | v :: rest => got (vm.setChan c { q with queue := rest }) (toString v)
      | [] => park vm
    | .closed => match q.queue with
      | v :: rest => got (vm.setChan c { q with queue := rest }) (toString v)
      | [] => got (vm.setChan c { q with state := .closedEmpty }) "nil"
    | .closedEmpty => got vm "nil"

def run : Nat → VM → VM
  | 0, vm => vm
  | n + 1, vm => match vm.outcome with
    | .running => run n (step vm)
    | _ => vm

def mkChan (cap : Option Nat) : Q :=
  match cap with
  | none => { queue := [], cap := 1, kind := .sync, state := .ready, sendW := [], recvW := [] }
  | some c => { queue := [], cap := c, kind := .buffered, state := .ready, sendW := [], recvW := [] }

def init (chans : List (Option Nat)) (main : List Op) : VM :=
  { fibers := #[{ state := .running, parent := none, channels := [], runnable := true, prog := main }],
    chans := (chans.map mkChan).toArray, cur := 0, runq := [], out := [], outcome := .running }

def summary (vm : VM) : List String × Outcome := (vm.out, vm.outcome)

-- t5: done=0 c=1 d=2 e=3, all chan(1)
#eval summary (run 1000 (init [some 1, some 1, some 1, some 1]
  [ .launch [.recv 1], .launch [.recv 2, .send 0 1], .launch [.send 1 1, .send 2 2, .recv 3], .recv 0, .print 99 ]))
-- t11: sync channel closed by child
#eval summary (run 1000 (init [none] [ .launch [.close 0], .recv 0, .print 99 ]))
-- t12: buffered channel closed by child
#eval summary (run 1000 (init [some 1] [ .launch [.close 0], .recv 0, .print 99 ]))
-- ping-pong sync
#eval summary (run 1000 (init [none] [ .launch [.send 0 1, .send 0 2, .send 0 3], .recv 0, .recv 0, .recv 0, .print 99 ]))

end Sched
