import P.Lower
namespace Lower

theorem labelsOf_append (a b : List I) : labelsOf (a ++ b) = labelsOf a ++ labelsOf b := by
  fun_induction labelsOf a <;> simp_all [labelsOf]

theorem after_unique (l : Nat) (a b : List I) (h : l ∉ labelsOf a) :
    after l (a ++ .label l :: b) = b := by
  induction a with
  | nil => simp [after]
  | cons i a ih =>
    cases i <;> simp_all [after, labelsOf]
    omega

theorem exec_cons (prog : List I) (fuel : Nat) (i : I) (r : List I) (s : St) :
    exec prog fuel (i :: r) s =
      match step i s with
      | .next s' => exec prog fuel r s'
      | .goto l s' => match fuel with
        | 0 => .outOfFuel
        | f + 1 => exec prog f (after l prog) s'
      | .err m => .err m
      | .stuck => .stuck := by
  rw [exec]
  cases step i s <;> rfl

/-- a label that sits right after `pfx` in a program with unique labels is found there -/
theorem after_at (prog pfx post : List I) (l : Nat) (hp : prog = pfx ++ .label l :: post)
    (hn : (labelsOf prog).Nodup) : after l prog = post := by
  subst hp
  apply after_unique
  rw [labelsOf_append] at hn
  simp only [labelsOf] at hn
  have := (List.nodup_append.mp hn).2.2
  intro hmem
  exact this l hmem l (by simp) rfl

def RunsTo (prog code post : List I) (s s' : St) : Prop :=
  ∃ k, ∀ f, exec prog (f + k) (code ++ post) s = exec prog f post s'
def Fails (prog code post : List I) (s : St) (m : String) : Prop :=
  ∃ k, ∀ f, exec prog (f + k) (code ++ post) s = .err m

theorem RunsTo.trans {prog a b post : List I} {s1 s2 s3 : St}
    (h1 : RunsTo prog a (b ++ post) s1 s2) (h2 : RunsTo prog b post s2 s3) :
    RunsTo prog (a ++ b) post s1 s3 := by
  obtain ⟨k1, h1⟩ := h1; obtain ⟨k2, h2⟩ := h2
  refine ⟨k2 + k1, fun f => ?_⟩
  rw [← Nat.add_assoc, List.append_assoc, h1, h2]

theorem RunsTo.fails {prog a b post : List I} {s1 s2 : St} {m : String}
    (h1 : RunsTo prog a (b ++ post) s1 s2) (h2 : Fails prog b post s2 m) :
    Fails prog (a ++ b) post s1 m := by
  obtain ⟨k1, h1⟩ := h1; obtain ⟨k2, h2⟩ := h2
  refine ⟨k2 + k1, fun f => ?_⟩
  rw [← Nat.add_assoc, List.append_assoc, h1, h2]

theorem Fails.left {prog a b post : List I} {s1 : St} {m : String}
    (h1 : Fails prog a (b ++ post) s1 m) : Fails prog (a ++ b) post s1 m := by
  obtain ⟨k1, h1⟩ := h1
  exact ⟨k1, fun f => by rw [List.append_assoc, h1]⟩

/-- one fall-through instruction -/
theorem RunsTo.one {prog post : List I} {i : I} {s s' : St} (h : step i s = .next s') :
    RunsTo prog [i] post s s' :=
  ⟨0, fun f => by simp [exec_cons, h]⟩

theorem Fails.one {prog post : List I} {i : I} {s : St} {m} (h : step i s = .err m) :
    Fails prog [i] post s m :=
  ⟨0, fun f => by simp [exec_cons, h]⟩

/-- a taken jump: the skipped code does not matter -/
theorem RunsTo.goto {prog post skipped : List I} {i : I} {l : Nat} {s s' : St}
    (h : step i s = .goto l s') (ha : after l prog = post) :
    RunsTo prog (i :: skipped) post s s' :=
  ⟨1, fun f => by simp [exec_cons, h, ha]⟩

theorem lower_correct (e : E) : ∀ (n : Nat) (prog pre post : List I) (st : List V) (env : Env),
    prog = pre ++ (lower e n).1 ++ post → (labelsOf prog).Nodup →
    (∀ v env', eval e env = .ok (v, env') → RunsTo prog (lower e n).1 post ⟨st, env⟩ ⟨v :: st, env'⟩) ∧
    (∀ m, eval e env = .error m → Fails prog (lower e n).1 post ⟨st, env⟩ m) := by
  induction e with
  | lit v =>
    intro n prog pre post st env _ _
    constructor
    · intro v' env' h; simp [eval] at h; obtain ⟨rfl, rfl⟩ := h
      exact RunsTo.one (by simp [step])
    · intro m h; simp [eval] at h
  | var s =>
    intro n prog pre post st env _ _
    constructor
    · intro v' env' h; simp [eval] at h; obtain ⟨rfl, rfl⟩ := h
      exact RunsTo.one (by simp [step])
    · intro m h; simp [eval] at h
  | assign s a iha =>
    intro n prog pre post st env hp hn
    obtain ⟨ha1, ha2⟩ := iha n prog pre ([.setL s] ++ post) st env (by simp [hp, lower, List.append_assoc]) hn
    constructor
    · intro v env' h
      simp only [eval] at h
      split at h
      · cases h
      · next va env1 hea =>
        simp at h; obtain ⟨rfl, rfl⟩ := h
        exact (ha1 _ _ hea).trans (RunsTo.one (by simp [step]))
    · intro m h
      simp only [eval] at h
      split at h
      · next m' hea => cases h; exact (ha2 _ hea).left
      · cases h
  | add a b iha ihb =>
    intro n prog pre post st env hp hn
    obtain ⟨ha1, ha2⟩ := iha n prog pre ((lower b (lower a n).2).1 ++ ([.add] ++ post)) st env
      (by simp [hp, lower, List.append_assoc]) hn
    have hb := fun va env1 => ihb (lower a n).2 prog (pre ++ (lower a n).1) ([.add] ++ post) (va :: st) env1
      (by simp [hp, lower, List.append_assoc]) hn
    constructor
    · intro v env' h
      simp only [eval] at h
      split at h
      · cases h
      · next va env1 hea =>
        split at h
        · cases h
        · next vb env2 heb =>
          split at h
          · next x y =>
            cases h
            have r1 := ha1 _ _ hea
            have r2 := (hb (.num x) env1).1 _ _ heb
            have r3 : RunsTo prog [.add] post ⟨.num y :: .num x :: st, env'⟩ ⟨.num (x + y) :: st, env'⟩ :=
              RunsTo.one (by simp [step])
            simpa [lower, List.append_assoc] using ((r1.trans r2).trans r3)
          · cases h
    · intro m h
      simp only [eval] at h
      split at h
      · next m' hea =>
        cases h; have h' := ha2 _ hea; rw [← List.append_assoc] at h'
        simpa [lower, List.append_assoc] using h'.left
      · next va env1 hea =>
        split at h
        · next m' heb =>
          cases h
          have r1 := ha1 _ _ hea
          have r2 := (hb va env1).2 _ heb
          simpa [lower, List.append_assoc] using (r1.fails r2).left
        · next vb env2 heb =>
          split at h
          · cases h
          · next hne =>
            cases h
            have r1 := ha1 _ _ hea
            have r2 := (hb va env1).1 _ _ heb
            have r3 : Fails prog [.add] post ⟨vb :: va :: st, env2⟩ "Operands must be two numbers or two strings." := by
              apply Fails.one
              cases va <;> cases vb <;> simp_all [step]
            simpa [lower, List.append_assoc] using ((r1.trans r2).fails r3)
  | and_ a b iha ihb =>
    intro n prog pre post st env hp hn
    -- abbreviations
    generalize hl : (lower a n).2 = l at *
    generalize hcb : (lower b (l + 1)).1 = cb at *
    have hcode : (lower (.and_ a b) n).1 = (lower a n).1 ++ ([.and_ l] ++ (cb ++ [.label l])) := by
      simp [lower, hl, hcb, List.append_assoc]
    obtain ⟨ha1, ha2⟩ := iha n prog pre ([.and_ l] ++ (cb ++ [.label l]) ++ post) st env
      (by rw [hp, hcode]; simp [List.append_assoc]) hn
    have hb := fun env1 => ihb (l + 1) prog (pre ++ (lower a n).1 ++ [.and_ l]) ([.label l] ++ post) st env1
      (by rw [hp, hcode, hcb]; simp [List.append_assoc]) hn
    have hafter : after l prog = post :=
      after_at prog (pre ++ (lower a n).1 ++ [.and_ l] ++ cb) post l
        (by rw [hp, hcode]; simp [List.append_assoc]) hn
    rw [hcode]
    constructor
    · intro v env' h
      simp only [eval] at h
      split at h
      · cases h
      · next va env1 hea =>
        have r1 := ha1 _ _ hea
        split at h
        · next hf =>
          cases h
          have r2 : RunsTo prog ([.and_ l] ++ (cb ++ [.label l])) post ⟨v :: st, env'⟩ ⟨v :: st, env'⟩ :=
            RunsTo.goto (by simp [step, hf]) hafter
          exact r1.trans r2
        · next hf =>
          have r2 : RunsTo prog [.and_ l] (cb ++ [.label l] ++ post) ⟨va :: st, env1⟩ ⟨st, env1⟩ :=
            RunsTo.one (by simp [step, hf])
          have r3 := (hb env1).1 _ _ h
          rw [hcb] at r3
          have r4 : RunsTo prog [.label l] post ⟨v :: st, env'⟩ ⟨v :: st, env'⟩ := RunsTo.one (by simp [step])
          have r34 := r3.trans r4
          have r234 := RunsTo.trans (by simpa [List.append_assoc] using r2) r34
          exact r1.trans (by simpa [List.append_assoc] using r234)
    · intro m h
      simp only [eval] at h
      split at h
      · next m' hea => cases h; exact (ha2 _ hea).left
      · next va env1 hea =>
        have r1 := ha1 _ _ hea
        split at h
        · cases h
        · next hf =>
          have r2 : RunsTo prog [.and_ l] (cb ++ [.label l] ++ post) ⟨va :: st, env1⟩ ⟨st, env1⟩ :=
            RunsTo.one (by simp [step, hf])
          have r3 := (hb env1).2 _ h
          rw [hcb] at r3
          have r23 := RunsTo.fails (by simpa [List.append_assoc] using r2) r3.left
          exact r1.fails (by simpa [List.append_assoc] using r23)
  | tern c t e ihc iht ihe =>
    intro n prog pre post st env hp hn
    generalize hlt : (lower c n).2 = lt at *
    generalize hct : (lower t (lt + 1)).1 = ct at *
    generalize hle : (lower t (lt + 1)).2 = le at *
    generalize hce : (lower e (le + 1)).1 = ce at *
    have hcode : (lower (.tern c t e) n).1 =
        (lower c n).1 ++ ([.jif lt] ++ (ct ++ ([.jump le, .label lt] ++ (ce ++ [.label le])))) := by
      simp [lower, hlt, hct, hle, hce, List.append_assoc]
    obtain ⟨hc1, hc2⟩ := ihc n prog pre ([.jif lt] ++ (ct ++ ([.jump le, .label lt] ++ (ce ++ [.label le]))) ++ post) st env
      (by rw [hp, hcode]; simp [List.append_assoc]) hn
    have ht := fun env1 => iht (lt + 1) prog (pre ++ (lower c n).1 ++ [.jif lt])
      ([.jump le, .label lt] ++ (ce ++ [.label le]) ++ post) st env1
      (by rw [hp, hcode, hct]; simp [List.append_assoc]) hn
    have he := fun env1 => ihe (le + 1) prog (pre ++ (lower c n).1 ++ [.jif lt] ++ ct ++ [.jump le, .label lt])
      ([.label le] ++ post) st env1
      (by rw [hp, hcode, hce]; simp [List.append_assoc]) hn
    have hafter_le : after le prog = post :=
      after_at prog (pre ++ (lower c n).1 ++ [.jif lt] ++ ct ++ [.jump le, .label lt] ++ ce) post le
        (by rw [hp, hcode]; simp [List.append_assoc]) hn
    have hafter_lt : after lt prog = ce ++ [.label le] ++ post :=
      after_at prog (pre ++ (lower c n).1 ++ [.jif lt] ++ ct ++ [.jump le]) (ce ++ [.label le] ++ post) lt
        (by rw [hp, hcode]; simp [List.append_assoc]) hn
    rw [hcode]
    have lblEnd : ∀ (v : V) (env' : Env), RunsTo prog [.label le] post ⟨v :: st, env'⟩ ⟨v :: st, env'⟩ :=
      fun v env' => RunsTo.one (by simp [step])
    constructor
    · intro v env' h
      simp only [eval] at h
      split at h
      · cases h
      · next vc env1 hec =>
        have r1 := hc1 _ _ hec
        split at h
        · next hf =>
          -- condition falsey: jump to the else branch
          have r2 : RunsTo prog ([.jif lt] ++ (ct ++ [.jump le, .label lt])) (ce ++ [.label le] ++ post)
              ⟨vc :: st, env1⟩ ⟨st, env1⟩ := RunsTo.goto (by simp [step, hf]) hafter_lt
          have r3 := (he env1).1 _ _ h
          rw [hce] at r3
          have r34 := r3.trans (lblEnd v env')
          have r234 := RunsTo.trans (by simpa [List.append_assoc] using r2) r34
          exact r1.trans (by simpa [List.append_assoc] using r234)
        · next hf =>
          have r2 : RunsTo prog [.jif lt] (ct ++ ([.jump le, .label lt] ++ (ce ++ [.label le])) ++ post)
              ⟨vc :: st, env1⟩ ⟨st, env1⟩ := RunsTo.one (by simp [step, hf])
          have r3 := (ht env1).1 _ _ h
          rw [hct] at r3
          have r4 : RunsTo prog ([.jump le, .label lt] ++ (ce ++ [.label le])) post ⟨v :: st, env'⟩ ⟨v :: st, env'⟩ :=
            RunsTo.goto (by simp [step]) hafter_le
          have r34 := RunsTo.trans (by simpa [List.append_assoc] using r3) r4
          have r234 := RunsTo.trans (by simpa [List.append_assoc] using r2) r34
          exact r1.trans (by simpa [List.append_assoc] using r234)
    · intro m h
      simp only [eval] at h
      split at h
      · next m' hec => cases h; exact (hc2 _ hec).left
      · next vc env1 hec =>
        have r1 := hc1 _ _ hec
        split at h
        · next hf =>
          have r2 : RunsTo prog ([.jif lt] ++ (ct ++ [.jump le, .label lt])) (ce ++ [.label le] ++ post)
              ⟨vc :: st, env1⟩ ⟨st, env1⟩ := RunsTo.goto (by simp [step, hf]) hafter_lt
          have r3 := (he env1).2 _ h
          rw [hce] at r3
          have r23 := RunsTo.fails (by simpa [List.append_assoc] using r2) r3.left
          exact r1.fails (by simpa [List.append_assoc] using r23)
        · next hf =>
          have r2 : RunsTo prog [.jif lt] (ct ++ ([.jump le, .label lt] ++ (ce ++ [.label le])) ++ post)
              ⟨vc :: st, env1⟩ ⟨st, env1⟩ := RunsTo.one (by simp [step, hf])
          have r3 := (ht env1).2 _ h
          rw [hct] at r3
          have r3' : Fails prog (ct ++ ([.jump le, .label lt] ++ (ce ++ [.label le]))) post ⟨st, env1⟩ m :=
            Fails.left (by simpa [List.append_assoc] using r3)
          have r23 := RunsTo.fails (by simpa [List.append_assoc] using r2) r3'
          exact r1.fails (by simpa [List.append_assoc] using r23)

end Lower

#print axioms Lower.lower_correct
