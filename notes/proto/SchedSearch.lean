import P.Sched
open Sched

def alphabet : List Op := [.send 0 1, .recv 0, .send 1 2, .recv 1]

def seqs : Nat → List (List Op)
  | 0 => [[]]
  | n + 1 => (seqs n) ++ ((seqs n).filter (·.length == n)).flatMap (fun s => alphabet.map (fun o => s ++ [o]))

def isPanic : Outcome → Bool
  | .panic _ => true
  | _ => false

def search (maxLen : Nat) : List (List (Option Nat) × List Op × List Op × List Op × Outcome) := Id.run do
  let mut found := []
  let ss := seqs maxLen
  for caps in [[none, none], [none, some 1], [some 1, some 1], [some 1, none]] do
    for a in ss do
      for b in ss do
        for m in ss do
          let vm := run 400 (init caps ([.launch a, .launch b] ++ m))
          if isPanic vm.outcome && found.length < 5 then
            found := (caps, a, b, m, vm.outcome) :: found
  return found

def main : IO Unit := do
  let r := search 3
  IO.println s!"seqs: {(seqs 3).length}, found {r.length}"
  for x in r do
    IO.println (repr x)
