import P.Mark
namespace Mark

def w (h : Heap) (x : Nat) : Nat := 1 + (h.succ x).length

def sumUnvisited (h : Heap) : List Nat → List Nat → Nat
  | [], _ => 0
  | a :: l, vis => (if a ∈ vis then 0 else w h a) + sumUnvisited h l vis

theorem sumUnvisited_cons_notMem (h : Heap) (l vis : List Nat) (x : Nat) (hx : x ∉ l) :
    sumUnvisited h l (x :: vis) = sumUnvisited h l vis := by
  induction l with
  | nil => simp [sumUnvisited]
  | cons a l ih =>
    simp only [List.mem_cons, not_or] at hx
    have hax : a ≠ x := fun e => hx.1 e.symm
    simp [sumUnvisited, ih hx.2, hax]

theorem sumUnvisited_cons (h : Heap) (l vis : List Nat) (x : Nat)
    (hl : l.Nodup) (hx : x ∈ l) (hv : x ∉ vis) :
    sumUnvisited h l (x :: vis) + w h x = sumUnvisited h l vis := by
  induction l with
  | nil => simp at hx
  | cons a l ih =>
    have hnd := List.nodup_cons.mp hl
    by_cases hax : a = x
    · subst hax
      simp [sumUnvisited, hv, sumUnvisited_cons_notMem h l vis a hnd.1]
      omega
    · have hxl : x ∈ l := by
        simp only [List.mem_cons] at hx
        cases hx with
        | inl e => exact absurd e.symm hax
        | inr e => exact e
      have ih' := ih hnd.2 hxl
      simp only [sumUnvisited, List.mem_cons, hax, false_or]
      omega

def pot (h : Heap) (vis : List Nat) : Nat := sumUnvisited h (List.range h.n) vis

theorem mark_terminates (h : Heap) :
    ∀ fuel work vis, (∀ x ∈ work, x < h.n) → work.length + pot h vis ≤ fuel →
      ∃ res, mark h fuel work vis = some res := by
  intro fuel
  induction fuel with
  | zero =>
    intro work vis _ hf
    cases work with
    | nil => exact ⟨vis, by simp [mark]⟩
    | cons x rest => simp at hf
  | succ f ih =>
    intro work vis hw hf
    cases work with
    | nil => exact ⟨vis, by simp [mark]⟩
    | cons x rest =>
      simp only [mark]
      split
      · apply ih rest vis (fun y hy => hw y (by simp [hy]))
        simp at hf; omega
      · next hx =>
        have hxn : x < h.n := hw x (by simp)
        have hp := sumUnvisited_cons h (List.range h.n) vis x List.nodup_range (by simp [hxn]) hx
        apply ih (h.succ x ++ rest) (x :: vis)
        · intro y hy
          simp only [List.mem_append] at hy
          cases hy with
          | inl h1 => exact h.closed x hxn y h1
          | inr h1 => exact hw y (by simp [h1])
        · simp only [pot, List.length_append, List.length_cons, w] at hf hp ⊢
          omega

/-- with fuel `|roots| + Σ (1 + out-degree)`, marking always finishes -/
theorem mark_total (h : Heap) (roots : List Nat) (hr : ∀ x ∈ roots, x < h.n) :
    ∃ res, mark h (roots.length + pot h []) roots [] = some res ∧ ∀ x, x ∈ res ↔ Reach h roots x := by
  obtain ⟨res, hres⟩ := mark_terminates h _ roots [] hr (Nat.le_refl _)
  exact ⟨res, hres, mark_is_reachability h roots _ res hres⟩

end Mark
#print axioms Mark.mark_total
