import P.PeepSem
namespace Peep

theorem spanDrops_eq' (r : List I) : List.replicate (spanDrops r).1 .drop ++ (spanDrops r).2 = r := by
  fun_induction spanDrops r with
  | case1 r ih => simp [List.replicate_succ, ih]
  | case2 r h => simp

theorem spanDrops_eq (r : List I) : r = List.replicate (spanDrops r).1 .drop ++ (spanDrops r).2 :=
  (spanDrops_eq' r).symm

theorem spanEq_eq' (i : I) (r : List I) : List.replicate (spanEq i r).1 i ++ (spanEq i r).2 = r := by
  fun_induction spanEq i r with
  | case1 r ih => simp [List.replicate_succ, ih]
  | case2 j r h => simp
  | case3 => simp

theorem spanEq_eq (i : I) (r : List I) : r = List.replicate (spanEq i r).1 i ++ (spanEq i r).2 :=
  (spanEq_eq' i r).symm

theorem runLine_single {σ} (step : I → σ → Out σ) (i : I) (s : σ) : runLine step [i] s = step i s := by
  simp only [runLine]; cases step i s <;> rfl

variable {σ : Type} (step : I → σ → Out σ) (prog : List I)

/-- the goto continuation agrees at this fuel -/
def G (fuel : Nat) : Prop :=
  ∀ l s', cont step (opt prog) fuel [] (.goto l s') = cont step prog fuel [] (.goto l s')

theorem cont_eq (fuel : Nat) (hG : G step prog fuel) (ra rb : List I)
    (h : ∀ s, exec step (opt prog) fuel ra s = exec step prog fuel rb s) (o : Out σ) :
    cont step (opt prog) fuel ra o = cont step prog fuel rb o := by
  cases o with
  | next s => simpa [cont] using h s
  | goto l s => simpa [cont] using hG l s
  | stop s => simp [cont]
  | stuck => simp [cont]

theorem exec_cons (p : List I) (fuel : Nat) (i : I) (r : List I) (s : σ) :
    exec step p fuel (i :: r) s = cont step p fuel r (step i s) := by
  have := exec_line step p fuel [i] r s
  simpa [runLine_single] using this

theorem inner (L : Laws step) (fuel : Nat) (hG : G step prog fuel) :
    ∀ pc s, exec step (opt prog) fuel (opt pc) s = exec step prog fuel pc s := by
  intro pc
  fun_induction opt pc with
  | case1 => intro s; simp [exec]
  | case2 r ih =>
    intro s
    have hr : Peep.I.drop :: .drop :: r = List.replicate ((spanDrops r).1 + 2) .drop ++ (spanDrops r).2 := by
      conv => lhs; rw [spanDrops_eq r]
      simp [List.replicate_succ]
    rw [hr, exec_line, exec_cons, L.dropN]
    exact cont_eq step prog fuel hG _ _ ih _
  | case3 n a r ih =>
    intro s
    have h1 := exec_line step (opt prog) fuel [.invoke n a, .invokeSlot] (opt r) s
    have h2 := exec_line step prog fuel [.getProp n, .propSlot, .call a] r s
    simp only [List.cons_append, List.nil_append] at h1 h2
    rw [h1, h2, L.invoke]
    exact cont_eq step prog fuel hG _ _ ih _
  | case4 n a r ih =>
    intro s
    have h1 := exec_line step (opt prog) fuel [.superInvoke n a, .invokeSlot] (opt r) s
    have h2 := exec_line step prog fuel [.getSuper n, .call a] r s
    simp only [List.cons_append, List.nil_append] at h1 h2
    rw [h1, h2, L.superInvoke]
    exact cont_eq step prog fuel hG _ _ ih _
  | case5 k s' k' s'' r hk ih =>
    intro s
    obtain ⟨rfl, rfl⟩ := hk
    have h1 := exec_line step (opt prog) fuel [.set k s'] (opt r) s
    have h2 := exec_line step prog fuel [.set k s', .drop, .get k s'] r s
    simp only [List.cons_append, List.nil_append] at h1 h2
    rw [h1, h2, L.setGet]
    exact cont_eq step prog fuel hG _ _ ih _
  | case6 k s' k' s'' r hk ih =>
    intro s
    rw [exec_cons, exec_cons]
    exact cont_eq step prog fuel hG _ _ ih _
  | case7 k s' r ih =>
    intro s
    have hr : Peep.I.get k s' :: r =
        (.get k s' :: List.replicate (spanEq (.get k s') r).1 (.get k s')) ++ (spanEq (.get k s') r).2 := by
      conv => lhs; rw [spanEq_eq (.get k s') r]
      simp
    have hl : Peep.I.get k s' :: (List.replicate (spanEq (.get k s') r).1 .dup ++ opt (spanEq (.get k s') r).2) =
        (.get k s' :: List.replicate (spanEq (.get k s') r).1 .dup) ++ opt (spanEq (.get k s') r).2 := by simp
    rw [hr, hl, exec_line, exec_line, L.getDup]
    exact cont_eq step prog fuel hG _ _ ih _
  | case8 l r ih =>
    intro s
    rw [exec_cons, exec_cons]
    cases h : step (.jump l) s with
    | next s' => exact absurd h (L.jump l s s')
    | goto l' s' => simpa [cont] using hG l' s'
    | stop s' => simp [cont]
    | stuck => simp [cont]
  | case9 l r ih =>
    intro s
    rw [exec_cons, exec_cons]
    cases h : step (.loop l) s with
    | next s' => exact absurd h (L.loop l s s')
    | goto l' s' => simpa [cont] using hG l' s'
    | stop s' => simp [cont]
    | stuck => simp [cont]
  | case10 r ih =>
    intro s
    rw [exec_cons, exec_cons]
    cases h : step .ret s with
    | next s' => exact absurd h (L.ret s s')
    | goto l' s' => simpa [cont] using hG l' s'
    | stop s' => simp [cont]
    | stuck => simp [cont]
  | case11 r ih =>
    intro s
    rw [exec_cons, exec_cons]
    cases h : step .raise s with
    | next s' => exact absurd h (L.raise s s')
    | goto l' s' => simpa [cont] using hG l' s'
    | stop s' => simp [cont]
    | stuck => simp [cont]
  | case12 r ih =>
    intro s
    rw [exec_cons, L.argDelim]
    simpa [cont] using ih s
  | case13 i r _ _ _ _ _ _ _ _ _ _ ih =>
    intro s
    rw [exec_cons, exec_cons]
    exact cont_eq step prog fuel hG _ _ ih _

/-- The optimiser preserves the behaviour of whole programs from the entry and from every
suffix the optimiser restarts at (in particular every label). -/
theorem opt_preserves (L : Laws step) :
    ∀ fuel pc s, exec step (opt prog) fuel (opt pc) s = exec step prog fuel pc s := by
  intro fuel
  induction fuel with
  | zero =>
    apply inner step prog L 0
    intro l s'; simp [cont]
  | succ f ih =>
    apply inner step prog L (f + 1)
    intro l s'
    simp only [cont]
    rw [label_restart]
    exact ih _ _

end Peep
#print axioms Peep.opt_preserves
