namespace Cache

/-- what a site needs from the world: classes are identified by address; the slow path is a pure
function of (class, name) as long as class tables are frozen after definition -/
structure World where
  fieldIndex : Nat → String → Option Nat      -- class addr → field name → slot
  method : Nat → String → Option Nat          -- class addr → method name → method value

inductive Recv where
  | inst (cls : Nat) (fields : List Nat)      -- an instance with its slot values
  | prim (cls : Nat)                          -- any non-instance value with its class
  deriving Repr

def Recv.cls : Recv → Nat
  | .inst c _ => c
  | .prim c => c

inductive Res | value (v : Nat) | call (callee : Nat) (receiverReplacedByField : Bool) | bound (m : Nat) | error
  deriving DecidableEq, Repr

/-- slow `GetPropByName` -/
def getSlow (w : World) (r : Recv) (name : String) : Res :=
  match r with
  | .inst c fs => match w.fieldIndex c name with
    | some i => .value (fs.getD i 0)
    | none => match w.method c name with | some m => .bound m | none => .error
  | .prim c => match w.method c name with | some m => .bound m | none => .error

/-- cached `op_get_prop_by_name`: returns the result and the new cache entry -/
def getCached (w : World) (cache : Option (Nat × Nat)) (r : Recv) (name : String) : Res × Option (Nat × Nat) :=
  match r with
  | .inst c fs =>
    match cache with
    | some (cc, i) =>
      if cc = c then (.value (fs.getD i 0), cache)
      else match w.fieldIndex c name with
        | some i' => (.value (fs.getD i' 0), some (c, i'))
        | none => (match w.method c name with | some m => .bound m | none => .error, none)
    | none => match w.fieldIndex c name with
      | some i' => (.value (fs.getD i' 0), some (c, i'))
      | none => (match w.method c name with | some m => .bound m | none => .error, none)
  | .prim c => (match w.method c name with | some m => .bound m | none => .error, none)

/-- the cache entry is consistent with the world for this site's name -/
def Good (w : World) (name : String) : Option (Nat × Nat) → Prop
  | none => True
  | some (c, i) => w.fieldIndex c name = some i

theorem getCached_step (w : World) (name : String) (cache : Option (Nat × Nat)) (r : Recv)
    (hg : Good w name cache) :
    (getCached w cache r name).1 = getSlow w r name ∧ Good w name (getCached w cache r name).2 := by
  cases r with
  | prim c => simp [getCached, getSlow, Good]
  | inst c fs =>
    cases cache with
    | none =>
      simp only [getCached, getSlow]
      cases h : w.fieldIndex c name <;> simp [Good, h]
    | some p =>
      obtain ⟨cc, i⟩ := p
      simp only [getCached, getSlow]
      by_cases hc : cc = c
      · subst hc
        simp only [Good] at hg
        simp [hg, Good]
      · simp only [hc, if_false]
        cases h : w.fieldIndex c name <;> simp [Good, h]

/-- C13_transparent (property read): for every history of receivers at one site the cached
results equal the slow-path results -/
theorem get_transparent (w : World) (name : String) (rs : List Recv) :
    ∀ cache, Good w name cache →
      (rs.foldl (fun (acc : List Res × Option (Nat × Nat)) r =>
        let o := getCached w acc.2 r name; (acc.1 ++ [o.1], o.2)) ([], cache)).1
      = rs.map (fun r => getSlow w r name) := by
  suffices h : ∀ (pre : List Res) cache, Good w name cache →
      (rs.foldl (fun (acc : List Res × Option (Nat × Nat)) r =>
        let o := getCached w acc.2 r name; (acc.1 ++ [o.1], o.2)) (pre, cache)).1
      = pre ++ rs.map (fun r => getSlow w r name) by
    intro cache hg; simpa using h [] cache hg
  induction rs with
  | nil => intro pre cache _; simp
  | cons r rs ih =>
    intro pre cache hg
    obtain ⟨h1, h2⟩ := getCached_step w name cache r hg
    simp only [List.foldl, List.map_cons]
    rw [ih _ _ h2, h1]
    simp

end Cache
#print axioms Cache.get_transparent
