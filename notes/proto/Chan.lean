namespace Chan

inductive Kind | sync | buffered deriving DecidableEq, Repr
inductive QState | ready | closed | closedEmpty deriving DecidableEq, Repr

abbrev Waiter := Nat

structure Q where
  queue : List Nat
  cap : Nat
  kind : Kind
  state : QState
  sendW : List (Waiter × Bool)   -- waiter id, runnable flag snapshot
  recvW : List (Waiter × Bool)
  deriving Repr

inductive SendRes | ok | fullBlock (w : Option Waiter) | full (w : Option Waiter) | closed
  deriving Repr, DecidableEq
inductive RecvRes | ok (v : Nat) | emptyBlock (w : Option Waiter) | empty (w : Option Waiter) | closed
  deriving Repr, DecidableEq

def findRunnable : List (Waiter × Bool) → Option Waiter × List (Waiter × Bool)
  | [] => (none, [])
  | (w, r) :: rest => if r then (some w, rest) else findRunnable rest

def Q.isClosed (q : Q) : Bool := q.state != .ready

def Q.send (q : Q) (w : Waiter) (v : Nat) : Q × SendRes :=
  match q.state with
  | .ready =>
    if q.kind == .sync && q.queue.isEmpty then
      let (r, rw) := findRunnable q.recvW
      ({ q with queue := q.queue ++ [v], sendW := q.sendW ++ [(w, true)], recvW := rw }, .fullBlock r)
    else if q.queue.length < q.cap then
      ({ q with queue := q.queue ++ [v] }, .ok)
    else
      let (r, rw) := findRunnable q.recvW
      ({ q with sendW := q.sendW ++ [(w, true)], recvW := rw }, .full r)
  | _ => (q, .closed)

def Q.recv (q : Q) (w : Waiter) : Q × RecvRes :=
  match q.state with
  | .ready =>
    match q.queue with
    | v :: rest => ({ q with queue := rest }, .ok v)
    | [] =>
      let (r, sw) := findRunnable q.sendW
      let q' := { q with recvW := q.recvW ++ [(w, true)], sendW := sw }
      if q.kind == .sync then (q', .emptyBlock r) else (q', .empty r)
  | .closed =>
    match q.queue with
    | v :: rest => ({ q with queue := rest }, .ok v)
    | [] => ({ q with state := .closedEmpty }, .closed)
  | .closedEmpty => (q, .closed)

def Q.close (q : Q) : Q × Bool :=
  if q.isClosed then (q, false)
  else if q.queue.isEmpty then ({ q with state := .closedEmpty }, true)
  else ({ q with state := .closed }, true)

inductive Op | send (w : Waiter) (v : Nat) | recv (w : Waiter) | close
  deriving Repr

structure H where
  q : Q
  accepted : List Nat
  delivered : List Nat

def step (h : H) : Op → H
  | .send w v =>
    let (q', r) := h.q.send w v
    match r with
    | .ok | .fullBlock _ => { q := q', accepted := h.accepted ++ [v], delivered := h.delivered }
    | _ => { h with q := q' }
  | .recv w =>
    let (q', r) := h.q.recv w
    match r with
    | .ok v => { q := q', accepted := h.accepted, delivered := h.delivered ++ [v] }
    | _ => { h with q := q' }
  | .close => { h with q := (h.q.close).1 }

def Inv (h : H) : Prop :=
  h.delivered ++ h.q.queue = h.accepted ∧ h.q.queue.length ≤ h.q.cap ∧ 1 ≤ h.q.cap ∧
  (h.q.kind = .sync → h.q.cap = 1)

theorem step_inv (h : H) (op : Op) (hi : Inv h) : Inv (step h op) := by
  unfold Inv at *
  obtain ⟨h1, h2, h3, h4⟩ := hi
  cases op with
  | send w v =>
    simp only [step, Q.send]
    repeat' split
    all_goals simp_all [← List.append_assoc]
    all_goals omega
  | recv w =>
    simp only [step, Q.recv]
    repeat' split
    all_goals simp_all
    all_goals (try omega)
  | close =>
    simp only [step, Q.close]
    repeat' split
    all_goals simp_all

theorem run_inv (h : H) (ops : List Op) (hi : Inv h) : Inv (ops.foldl step h) := by
  induction ops generalizing h with
  | nil => simpa
  | cons op ops ih => exact ih _ (step_inv h op hi)

end Chan
