import P.Peep
namespace Peep

inductive Out (σ : Type) where
  | next (s : σ) | goto (l : Nat) (s : σ) | stop (s : σ) | stuck
  deriving Repr

inductive Res (σ : Type) where
  | fell (s : σ) | stopped (s : σ) | stuck | outOfFuel
  deriving Repr

/-- run a straight line of instructions until one does not fall through -/
def runLine {σ} (step : I → σ → Out σ) : List I → σ → Out σ
  | [], s => .next s
  | i :: r, s => match step i s with
    | .next s' => runLine step r s'
    | o => o

theorem runLine_append {σ} (step : I → σ → Out σ) (a b : List I) (s : σ) :
    runLine step (a ++ b) s = match runLine step a s with
      | .next s' => runLine step b s'
      | o => o := by
  induction a generalizing s with
  | nil => simp [runLine]
  | cons i a ih =>
    simp only [List.cons_append, runLine]
    cases h : step i s <;> simp [ih]

structure Laws {σ} (step : I → σ → Out σ) : Prop where
  dropN : ∀ n s, step (.dropN (n + 2)) s = runLine step (List.replicate (n + 2) .drop) s
  setGet : ∀ k v s, runLine step [.set k v, .drop, .get k v] s = runLine step [.set k v] s
  getDup : ∀ k v m s, runLine step (.get k v :: List.replicate m (.get k v)) s
                     = runLine step (.get k v :: List.replicate m .dup) s
  invoke : ∀ n a s, runLine step [.getProp n, .propSlot, .call a] s = runLine step [.invoke n a, .invokeSlot] s
  superInvoke : ∀ n a s, runLine step [.getSuper n, .call a] s = runLine step [.superInvoke n a, .invokeSlot] s
  argDelim : ∀ s, step .argDelim s = .next s
  jump : ∀ l s, ∀ s', step (.jump l) s ≠ .next s'
  loop : ∀ l s, ∀ s', step (.loop l) s ≠ .next s'
  ret : ∀ s, ∀ s', step .ret s ≠ .next s'
  raise : ∀ s, ∀ s', step .raise s ≠ .next s'

/-- whole-program execution: fuel is consumed only by control transfers -/
def exec {σ} (step : I → σ → Out σ) (prog : List I) : Nat → List I → σ → Res σ
  | _, [], s => .fell s
  | fuel, i :: r, s =>
    match step i s with
    | .next s' => exec step prog fuel r s'
    | .goto l s' => match fuel with
      | 0 => .outOfFuel
      | f + 1 => exec step prog f (after l prog) s'
    | .stop s' => .stopped s'
    | .stuck => .stuck
termination_by fuel pc => (fuel, pc.length)

/-- what happens after a straight line -/
def cont {σ} (step : I → σ → Out σ) (prog : List I) (fuel : Nat) (rest : List I) : Out σ → Res σ
  | .next s' => exec step prog fuel rest s'
  | .goto l s' => match fuel with
    | 0 => .outOfFuel
    | f + 1 => exec step prog f (after l prog) s'
  | .stop s' => .stopped s'
  | .stuck => .stuck

theorem exec_line {σ} (step : I → σ → Out σ) (prog : List I) (fuel : Nat) (xs rest : List I) (s : σ) :
    exec step prog fuel (xs ++ rest) s = cont step prog fuel rest (runLine step xs s) := by
  induction xs generalizing s with
  | nil => simp [runLine, cont]
  | cons i xs ih =>
    simp only [List.cons_append, runLine]
    rw [exec]
    cases h : step i s <;> simp [cont, ih]

end Peep
