namespace NanBox

def QNAN : BitVec 64 := 0x7ffc000000000000#64
def BIT_SIGN : BitVec 64 := 0xc000000000000000#64
def TAG_OBJ : BitVec 64 := BIT_SIGN ||| QNAN
def TAG_NIL : BitVec 64 := 1#64 ||| QNAN
def TAG_FALSE : BitVec 64 := 2#64 ||| QNAN
def TAG_TRUE : BitVec 64 := 3#64 ||| QNAN
def TAG_UNDEF : BitVec 64 := 4#64 ||| QNAN

def isNum (v : BitVec 64) : Bool := (v &&& QNAN) != QNAN
def isObj (v : BitVec 64) : Bool := (v &&& TAG_OBJ) == TAG_OBJ
def fromPtr (p : BitVec 64) : BitVec 64 := p ||| TAG_OBJ
def toPtr (v : BitVec 64) : BitVec 64 := v &&& ~~~TAG_OBJ

theorem tag_obj_val : TAG_OBJ = 0xfffc000000000000#64 := by decide

/-- pointers that fit in the low 50 bits survive boxing -/
theorem ptr_roundtrip (p : BitVec 64) (h : p &&& TAG_OBJ = 0#64) : toPtr (fromPtr p) = p := by
  unfold toPtr fromPtr
  ext i hi
  have hb := congrArg (fun v => v.getLsbD i) h
  simp only [BitVec.getLsbD_and, BitVec.getLsbD_zero] at hb
  simp only [BitVec.getElem_and, BitVec.getElem_or, BitVec.getElem_not]
  simp only [← BitVec.getLsbD_eq_getElem] at *
  cases hp : p.getLsbD i <;> cases ht : TAG_OBJ.getLsbD i <;> simp_all

theorem obj_is_obj (p : BitVec 64) : isObj (fromPtr p) = true := by
  unfold isObj fromPtr
  simp only [beq_iff_eq]
  ext i hi
  simp only [BitVec.getElem_and, BitVec.getElem_or]
  cases p[i] <;> cases TAG_OBJ[i] <;> rfl

theorem obj_not_num (p : BitVec 64) : isNum (fromPtr p) = false := by
  unfold isNum fromPtr
  simp only [bne_eq_false_iff_eq]
  ext i hi
  simp only [BitVec.getElem_and, BitVec.getElem_or]
  have : QNAN[i] = true → TAG_OBJ[i] = true := by
    have : ∀ j : Fin 64, QNAN[j.val] = true → TAG_OBJ[j.val] = true := by decide
    exact this ⟨i, hi⟩
  cases hq : QNAN[i] <;> cases hp : p[i] <;> simp_all

theorem tags_distinct : TAG_NIL ≠ TAG_FALSE ∧ TAG_NIL ≠ TAG_TRUE ∧ TAG_NIL ≠ TAG_UNDEF ∧ TAG_FALSE ≠ TAG_TRUE
    ∧ TAG_FALSE ≠ TAG_UNDEF ∧ TAG_TRUE ≠ TAG_UNDEF
    ∧ isNum TAG_NIL = false ∧ isNum TAG_FALSE = false ∧ isNum TAG_TRUE = false ∧ isNum TAG_UNDEF = false
    ∧ isObj TAG_NIL = false ∧ isObj TAG_FALSE = false ∧ isObj TAG_TRUE = false ∧ isObj TAG_UNDEF = false := by
  decide

end NanBox
#print axioms NanBox.ptr_roundtrip
#print axioms NanBox.obj_not_num
#print axioms NanBox.tags_distinct
