import random, re, subprocess, sys, os, glob, hashlib
from concurrent.futures import ThreadPoolExecutor
random.seed(int(sys.argv[1]) if len(sys.argv) > 1 else 1)
N = int(sys.argv[2]) if len(sys.argv) > 2 else 2000
BIN = sys.argv[3] if len(sys.argv) > 3 else '/tmp/lt-target/debug/laythe'
files = [f for f in glob.glob('/repo/laythe_vm/fixture/language/**/*.lay', recursive=True)]
srcs = [open(f, encoding='utf-8', errors='replace').read() for f in files]
srcs = [s for s in srcs if len(s) < 3000]
TOK = re.compile(r'\s+|//[^\n]*|"[^"]*"|\'[^\']*\'|[A-Za-z_][A-Za-z_0-9]*|\d+(?:\.\d+)?|<-|->|[=!<>+\-*/]=|&&|\|\||.', re.S)
JUNK = ['(', ')', '{', '}', '[', ']', ',', '.', ';', ':', '|', '<-', '->', '=', '==', '+', '-', '*', '/', '!', '?', '&&', '||', '<', '>',
        'class', 'fn', 'let', 'if', 'else', 'for', 'in', 'while', 'return', 'break', 'continue', 'try', 'catch', 'raise', 'self', 'super',
        'static', 'import', 'export', 'launch', 'chan', 'nil', 'true', 'false', 'trait', 'type', '"', "'", '${', '"${', '@x', '@', '\\', 'é', '\U0001F600', '0', '1e9', '1.', '.5', '99999999999999999999999999']
def mutate(s):
    toks = TOK.findall(s)
    if not toks: return s
    for _ in range(random.choice([1, 1, 2, 3, 5])):
        k = random.random()
        i = random.randrange(len(toks))
        if k < 0.25: del toks[i]
        elif k < 0.45: toks.insert(i, random.choice(JUNK))
        elif k < 0.6: toks[i] = random.choice(JUNK)
        elif k < 0.7:
            j = random.randrange(len(toks)); toks[i], toks[j] = toks[j], toks[i]
        elif k < 0.8: toks.insert(i, toks[random.randrange(len(toks))])
        elif k < 0.9: toks = toks[:i]
        else:
            b = bytearray(''.join(toks).encode('utf-8'))
            if b:
                p = random.randrange(len(b)); b[p] = random.randrange(256)
            return b.decode('utf-8', errors='replace')
        if not toks: break
    return ''.join(toks)
cases = [mutate(random.choice(srcs)) for _ in range(N)]
def run(idx):
    path = f'/tmp/lt/fuzz/c{idx}.lay'
    open(path, 'w', encoding='utf-8').write(cases[idx])
    try:
        r = subprocess.run([BIN, path], capture_output=True, timeout=8, stdin=subprocess.DEVNULL)
        rc = r.returncode; err = r.stderr.decode('utf-8', 'replace')
    except subprocess.TimeoutExpired:
        rc = 'timeout'; err = ''
    bad = rc == 'timeout' or rc == 101 or (isinstance(rc, int) and rc < 0) or rc == 134
    if not bad: os.remove(path)
    return idx, rc, err
sig = {}
with ThreadPoolExecutor(16) as ex:
    for idx, rc, err in ex.map(run, range(N)):
        if rc == 'timeout' or rc == 101 or (isinstance(rc, int) and (rc < 0 or rc == 134)):
            m = re.search(r'panicked at ([^\n]*)\n([^\n]*)', err)
            key = (rc, m.group(1) + ' | ' + m.group(2)[:80]) if m else (rc, err[-120:])
            sig.setdefault(key, []).append(idx)
for k, v in sorted(sig.items(), key=lambda kv: -len(kv[1])):
    print(len(v), k, 'e.g. c%d.lay' % v[0])
print('total bad', sum(len(v) for v in sig.values()), 'of', N)
