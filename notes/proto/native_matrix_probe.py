import re, glob, subprocess, itertools, sys, os
from concurrent.futures import ThreadPoolExecutor
BIN='/tmp/lt-target/debug/laythe'
# receivers by class file
recv = {
 'list': '[1, 2, 3]', 'map': '{1: 2}', 'tuple': '(1, 2)', 'string': '"héllo"', 'iter': '[1,2].iter()', 'number': '3',
 'bool': 'true', 'nil': 'nil', 'fun': 'ffun', 'closure': 'fclo', 'method': 'fmeth', 'native': 'print', 'class': 'K', 'object': 'K()',
 'channel': 'chan(2)', 'error': 'Error("e")',
}
PRE = '''class K { init() { self.a = 1; } m() { return 1; } str() { return "k"; } }
fn ffun(x) { return x; }
let cap = 1; fn fclo(x) { return x + cap; }
let fmeth = K().m;
'''
KINDS = ['nil', 'true', '1', '-1', '0.5', '1e300', '"s"', '""', '[1]', '[]', '(1,)', '{1: 2}', 'ffun', 'fclo', 'fmeth', 'print', 'K', 'K()', '[1].iter()', 'chan(1)', 'Error("x")', '|x| x', '|a, b| a', '|| nil']
meths = []
for cls in recv:
    path = f'/repo/laythe_lib/src/global/primitives/{cls}.rs'
    if not os.path.exists(path): continue
    src = open(path).read()
    for m in re.finditer(r'NativeMetaBuilder::(fun|method)\("([^"]+)", Arity::([A-Za-z]+)\(([^)]*)\)\)', src):
        kind, name, ar, nums = m.groups()
        nums = [int(x) for x in nums.replace(' ', '').split(',') if x]
        if ar == 'Fixed': counts = [nums[0]]
        elif ar == 'Variadic': counts = [nums[0], nums[0] + 1, nums[0] + 2]
        else: counts = list(range(nums[0], nums[1] + 1))
        meths.append((cls, kind, name, sorted(set(c for c in counts if c <= 2))))
def prog(cls, kind, name, counts):
    lines = [PRE]
    target = recv[cls] if kind == 'method' else {'list': 'List', 'tuple': 'Tuple', 'number': 'Number', 'iter': 'Iter'}.get(cls, cls.capitalize())
    if name in ('[]', '[]='):
        return None
    n = 0
    for c in counts:
        for args in itertools.product(KINDS, repeat=c):
            call = f'{target}.{name}({", ".join(args)})'
            lines.append(f'try {{ let r = {call}; }} catch e: Error {{ }}')
            n += 1
    lines.append('print("DONE");')
    return '\n'.join(lines), n
def run(m):
    cls, kind, name, counts = m
    p = prog(cls, kind, name, counts)
    if p is None: return m, 'skip', ''
    src, n = p
    path = f'/tmp/lt/mat/{cls}_{re.sub("[^a-zA-Z]", "_", name)}.lay'
    open(path, 'w').write(src)
    try:
        r = subprocess.run([BIN, path], capture_output=True, timeout=60, stdin=subprocess.DEVNULL)
        out = r.stdout.decode('utf-8', 'replace'); err = r.stderr.decode('utf-8', 'replace'); rc = r.returncode
    except subprocess.TimeoutExpired:
        return m, 'timeout', ''
    if 'DONE' in out and rc == 0: return m, 'ok', ''
    mm = re.search(r'panicked at ([^\n]*)\n([^\n]*)', err)
    return m, f'rc={rc}', (mm.group(1) + ' | ' + mm.group(2)[:100]) if mm else err[-200:]
with ThreadPoolExecutor(16) as ex:
    res = list(ex.map(run, meths))
bad = [(m, s, d) for m, s, d in res if s not in ('ok', 'skip')]
print('methods', len(meths), 'bad', len(bad))
for m, s, d in bad:
    print(m[0], m[2], s, d)
