namespace Peep

inductive VK | loc | box | cap | modsym deriving DecidableEq, Repr

inductive I where
  | drop | dropN (n : Nat) | dup
  | get (k : VK) (s : Nat) | set (k : VK) (s : Nat)
  | getProp (n : Nat) | propSlot | call (a : Nat) | invoke (n a : Nat) | invokeSlot
  | getSuper (n : Nat) | superInvoke (n a : Nat)
  | jump (l : Nat) | loop (l : Nat) | ret | raise
  | br (k : Nat) (l : Nat)          -- any conditional / label-carrying instruction
  | label (l : Nat) | argDelim
  | other (k : Nat)
  deriving DecidableEq, Repr

/-- number of leading `drop`s and the rest -/
def spanDrops : List I → Nat × List I
  | .drop :: r => ((spanDrops r).1 + 1, (spanDrops r).2)
  | r => (0, r)

theorem spanDrops_len (l : List I) : (spanDrops l).2.length ≤ l.length := by
  fun_induction spanDrops l <;> simp_all <;> omega

/-- number of leading copies of `i` and the rest -/
def spanEq (i : I) : List I → Nat × List I
  | j :: r => if j = i then ((spanEq i r).1 + 1, (spanEq i r).2) else (0, j :: r)
  | [] => (0, [])

theorem spanEq_len (i : I) (l : List I) : (spanEq i l).2.length ≤ l.length := by
  fun_induction spanEq i l <;> simp_all <;> omega

/-- skip dead code up to the next label -/
def skipDead : List I → List I
  | .label l :: r => .label l :: r
  | _ :: r => skipDead r
  | [] => []

theorem skipDead_len (l : List I) : (skipDead l).length ≤ l.length := by
  fun_induction skipDead l <;> simp_all <;> omega

def opt : List I → List I
  | [] => []
  | .drop :: .drop :: r =>
      .dropN ((spanDrops r).1 + 2) :: opt (spanDrops r).2
  | .getProp n :: .propSlot :: .call a :: r => .invoke n a :: .invokeSlot :: opt r
  | .getSuper n :: .call a :: r => .superInvoke n a :: .invokeSlot :: opt r
  | .set k s :: .drop :: .get k' s' :: r =>
      if k = k' ∧ s = s' then .set k s :: opt r
      else .set k s :: opt (.drop :: .get k' s' :: r)
  | .get k s :: r =>
      .get k s :: (List.replicate (spanEq (.get k s) r).1 .dup ++ opt (spanEq (.get k s) r).2)
  | .jump l :: r => .jump l :: opt (skipDead r)
  | .loop l :: r => .loop l :: opt (skipDead r)
  | .ret :: r => .ret :: opt (skipDead r)
  | .raise :: r => .raise :: opt (skipDead r)
  | .argDelim :: r => opt r
  | i :: r => i :: opt r
termination_by l => l.length
decreasing_by
  all_goals simp_wf
  all_goals (try omega)
  · have := spanDrops_len r; omega
  · have := spanEq_len (.get k s) r; omega
  · have := skipDead_len r; omega
  · have := skipDead_len r; omega
  · have := skipDead_len r; omega
  · have := skipDead_len r; omega

#eval opt [.drop, .drop, .drop, .getProp 3, .propSlot, .call 0, .other 1, .set .loc 1, .drop, .get .loc 1, .get .loc 1, .jump 2, .other 5, .label 2, .ret, .drop]

/-- suffix after the first `label l` -/
def after (l : Nat) : List I → List I
  | .label m :: r => if m = l then r else after l r
  | _ :: r => after l r
  | [] => []


theorem after_spanDrops (l : Nat) (r : List I) : after l (spanDrops r).2 = after l r := by
  fun_induction spanDrops r <;> simp_all [after]

theorem after_spanEq_get (l : Nat) (k : VK) (s : Nat) (r : List I) :
    after l (spanEq (.get k s) r).2 = after l r := by
  fun_induction spanEq (.get k s) r <;> simp_all [after]

theorem after_skipDead (l : Nat) (r : List I) : after l (skipDead r) = after l r := by
  fun_induction skipDead r <;> simp_all [after]

theorem after_replicate_dup (l n : Nat) (r : List I) :
    after l (List.replicate n .dup ++ r) = after l r := by
  induction n with
  | zero => simp
  | succ n ih => simp [List.replicate_succ, after, ih]

theorem label_restart (l : Nat) (p : List I) : after l (opt p) = opt (after l p) := by
  fun_induction opt p
  all_goals (try simp_all [after, opt, after_spanDrops, after_spanEq_get, after_skipDead, after_replicate_dup])
  · next i r _ _ _ _ _ _ _ _ _ _ ih =>
    cases i <;> simp_all [after]
    split <;> simp_all

end Peep

#print axioms Peep.label_restart
