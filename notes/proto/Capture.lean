namespace Capture

inductive CapIdx | loc (s : Nat) | enc (i : Nat) deriving DecidableEq, Repr

structure Comp where
  locals : List String          -- slot ↦ name
  captures : List CapIdx
  deriving Repr

/-- `resolve_local`: the innermost (last declared) local with that name -/
def resolveLocal (names : List String) (name : String) : Option Nat :=
  match names with
  | [] => none
  | n :: rest =>
    match resolveLocal rest name with
    | some i => some (i + 1)
    | none => if n = name then some 0 else none

/-- position of the first `loc s` capture, if any (the only de-duplication `add_capture` does) -/
def findLoc (caps : List CapIdx) (s : Nat) : Option Nat :=
  match caps with
  | [] => none
  | c :: rest => if c = .loc s then some 0 else (findLoc rest s).map (· + 1)

def dedup (caps : List CapIdx) : CapIdx → Option Nat
  | .loc s => findLoc caps s
  | .enc _ => none

def addCapture (f : Comp) (ci : CapIdx) : Comp × Nat :=
  match dedup f.captures ci with
  | some i => (f, i)
  | none => ({ f with captures := f.captures ++ [ci] }, f.captures.length)

/-- `resolve_capture` over the compiler chain, innermost first -/
def resolveCapture : List Comp → String → Option (List Comp × Nat)
  | f :: parent :: rest, name =>
    match resolveLocal parent.locals name with
    | some s => some ((addCapture f (.loc s)).1 :: parent :: rest, (addCapture f (.loc s)).2)
    | none =>
      match resolveCapture (parent :: rest) name with
      | some (chain', j) => some ((addCapture f (.enc j)).1 :: chain', (addCapture f (.enc j)).2)
      | none => none
  | _, _ => none

/-- run time: `op_closure` builds the capture array of the innermost function from the frame of
its parent (`slots`, innermost first, one per level) and the parent's own capture array -/
def caps : List Comp → List (Nat → Nat) → List Nat
  | f :: parent :: rest, _ :: ps :: srest =>
    f.captures.map (fun ci => match ci with
      | .loc s => ps s
      | .enc j => (caps (parent :: rest) (ps :: srest)).getD j 0)
  | _, _ => []

/-- the box the name denotes: the slot of the nearest enclosing level that declares it -/
def declBox : List Comp → List (Nat → Nat) → String → Option Nat
  | _ :: parent :: rest, _ :: ps :: srest, name =>
    match resolveLocal parent.locals name with
    | some s => some (ps s)
    | none => declBox (parent :: rest) (ps :: srest) name
  | _, _, _ => none

theorem findLoc_spec (cs : List CapIdx) (s i : Nat) (h : findLoc cs s = some i) : cs[i]? = some (.loc s) := by
  induction cs generalizing i with
  | nil => simp [findLoc] at h
  | cons c cs ih =>
    simp only [findLoc] at h
    split at h
    · next hc => cases h; simp [hc]
    · cases hf : findLoc cs s with
      | none => simp [hf] at h
      | some j => simp [hf] at h; subst h; simpa using ih j hf

theorem dedup_spec (cs : List CapIdx) (ci : CapIdx) (i : Nat) (h : dedup cs ci = some i) : cs[i]? = some ci := by
  cases ci with
  | loc s => exact findLoc_spec cs s i h
  | enc j => simp [dedup] at h

theorem addCapture_prefix (f : Comp) (ci : CapIdx) :
    ∃ ext, (addCapture f ci).1.captures = f.captures ++ ext ∧ (addCapture f ci).1.locals = f.locals := by
  unfold addCapture
  split
  · exact ⟨[], by simp⟩
  · exact ⟨[ci], by simp⟩

theorem addCapture_get (f : Comp) (ci : CapIdx) :
    (addCapture f ci).1.captures[(addCapture f ci).2]? = some ci := by
  unfold addCapture
  split
  · next i hi => exact dedup_spec _ _ _ hi
  · simp

/-- resolution only ever appends captures and never touches locals, level by level -/
theorem resolveCapture_shape (chain : List Comp) (name : String) :
    ∀ (chain' : List Comp) (idx : Nat), resolveCapture chain name = some (chain', idx) →
    chain'.length = chain.length ∧
    ∀ k, ∃ ext, (chain'.getD k ⟨[], []⟩).captures = (chain.getD k ⟨[], []⟩).captures ++ ext ∧
               (chain'.getD k ⟨[], []⟩).locals = (chain.getD k ⟨[], []⟩).locals := by
  fun_induction resolveCapture chain name with
  | case1 f parent rest name s hs =>
    intro chain' idx h
    simp at h; obtain ⟨rfl, rfl⟩ := h
    refine ⟨by simp, fun k => ?_⟩
    cases k with
    | zero => simpa using addCapture_prefix f (.loc s)
    | succ k => exact ⟨[], by simp⟩
  | case2 f parent rest name hn chain2 j hr ih =>
    intro chain' idx h
    simp at h; obtain ⟨rfl, rfl⟩ := h
    obtain ⟨hl, hk⟩ := ih chain2 j hr
    refine ⟨by simp [hl], fun k => ?_⟩
    cases k with
    | zero => simpa using addCapture_prefix f (.enc j)
    | succ k => simpa using hk k
  | case3 f parent rest name hn hr => intro chain' idx h; simp at h
  | case4 chain name hne => intro chain' idx h; simp at h


theorem caps_get (f parent : Comp) (rest : List Comp) (s0 ps : Nat → Nat) (srest : List (Nat → Nat)) (i : Nat)
    (ci : CapIdx) (h : f.captures[i]? = some ci) :
    (caps (f :: parent :: rest) (s0 :: ps :: srest))[i]? = some (match ci with
      | .loc s => ps s
      | .enc j => (caps (parent :: rest) (ps :: srest)).getD j 0) := by
  simp only [caps, List.getElem?_map, h, Option.map_some]
  cases ci <;> rfl

/-- C02_capture_chain_sound: whatever the nesting depth, the capture index returned by
`resolve_capture` denotes, at run time, the box in the slot of the nearest enclosing declaration -/
theorem chain_sound (chain : List Comp) (name : String) :
    ∀ (chain' : List Comp) (idx : Nat) (slots : List (Nat → Nat)),
      resolveCapture chain name = some (chain', idx) → slots.length = chain.length →
      (caps chain' slots)[idx]? = declBox chain slots name ∧ (declBox chain slots name).isSome := by
  fun_induction resolveCapture chain name with
  | case1 f parent rest name s hs =>
    intro chain' idx slots h hl
    simp at h; obtain ⟨rfl, rfl⟩ := h
    match slots, hl with
    | s0 :: ps :: srest, _ =>
      have hg := addCapture_get f (.loc s)
      rw [caps_get _ _ _ _ _ _ _ _ hg]
      simp [declBox, hs]
  | case2 f parent rest name hn chain2 j hr ih =>
    intro chain' idx slots h hl
    simp at h; obtain ⟨rfl, rfl⟩ := h
    match slots, hl with
    | s0 :: ps :: srest, hl =>
      obtain ⟨ih1, ih2⟩ := ih chain2 j (ps :: srest) hr (by simpa using hl)
      have hshape := (resolveCapture_shape (parent :: rest) name chain2 j hr).1
      match chain2, hshape with
      | p2 :: r2, _ =>
        have hg := addCapture_get f (.enc j)
        rw [caps_get _ _ _ _ _ _ _ _ hg]
        simp only [declBox, hn]
        cases hd : declBox (parent :: rest) (ps :: srest) name with
        | none => simp [hd] at ih2
        | some b =>
          rw [hd] at ih1
          simp [List.getD, ih1]
  | case3 f parent rest name hn hr => intro chain' idx slots h; simp at h
  | case4 chain name hne => intro chain' idx slots h; simp at h

end Capture
#print axioms Capture.chain_sound
