#!/usr/bin/env python3
"""Prototype translator: laythe_vm/src/byte_code.rs -> Lean definitions."""
import re, sys
src = open(sys.argv[1]).read()

def block(after, text):
    i = text.index(after)
    i = text.index('{', i)
    depth = 0
    for j in range(i, len(text)):
        if text[j] == '{': depth += 1
        elif text[j] == '}':
            depth -= 1
            if depth == 0:
                return text[i+1:j]
    raise SystemExit('unbalanced')

enum_body = block('pub enum SymbolicByteCode', src)
enum_body = re.sub(r'//[^\n]*', '', enum_body)
enum_body = re.sub(r'#\[[^\]]*\]', '', enum_body)
variants = []
for m in re.finditer(r'([A-Z][A-Za-z]*)\s*(\(([^()]*(\([^()]*\))?[^()]*)\))?\s*,', enum_body):
    name, payload = m.group(1), (m.group(3) or '').strip()
    payload = payload.strip('()')
    tys = [t.strip() for t in payload.replace('(', '').replace(')', '').split(',') if t.strip()]
    variants.append((name, tys))

def arms(fn_name):
    body = block(f'pub const fn {fn_name}', src)
    body = block('match self', body)
    out = {}
    for m in re.finditer(r'Self::([A-Za-z]+)(\(([^=]*)\))?\s*=>\s*([^,]+),', body):
        out[m.group(1)] = ((m.group(3) or '').strip(), m.group(4).strip())
    return out

len_arms, eff_arms = arms('len'), arms('stack_effect')

def lean_ty(t):
    return {'u8': 'Nat', 'u16': 'Nat', 'u32': 'Nat', 'Label': 'Nat', 'CaptureIndex': 'Nat'}[t]

def binders(pat, tys):
    pat = pat.replace('(', ' ').replace(')', ' ').replace(',', ' ')
    names = pat.split()
    names = names + ['_'] * (len(tys) - len(names))
    return names[:len(tys)]

def expr(e):
    e = re.sub(r'\*([a-z_]+) as i32', r'(\1 : Int)', e)
    e = re.sub(r'\b(\d+)\b', r'\1', e)
    return e

print('namespace Gen\n')
print('inductive Sym where')
for n, tys in variants:
    args = ' '.join(f'(a{i} : {lean_ty(t)})' for i, t in enumerate(tys))
    print(f'  | {n[0].lower()+n[1:]}_ {args}'.rstrip())
print('  deriving DecidableEq, Repr\n')
for fn, table, ty in (('len', len_arms, 'Nat'), ('stackEffect', eff_arms, 'Int')):
    print(f'def Sym.{fn} : Sym → {ty}')
    for n, tys in variants:
        pat, rhs = table[n]
        bs = binders(pat, tys)
        print(f'  | .{n[0].lower()+n[1:]}_ {" ".join(bs)} => {expr(rhs)}'.replace('  =>', ' =>'))
    print()
bc = re.sub(r'//[^\n]*', '', block('pub enum ByteCode', src))
ops = re.findall(r'\b([A-Z][A-Za-z]*)\s*,', bc)
print('def opcodes : List String := [' + ', '.join(f'"{o}"' for o in ops) + ']')
print('\nend Gen')
