namespace Mark

/-- an abstract heap: objects are `0 … n-1`, `succ x` are the references `x` holds -/
structure Heap where
  n : Nat
  succ : Nat → List Nat
  closed : ∀ x, x < n → ∀ y ∈ succ x, y < n

/-- work-list marking with fuel (the recursion of `trace()` made explicit) -/
def mark (h : Heap) : Nat → List Nat → List Nat → Option (List Nat)
  | _, [], vis => some vis
  | 0, _ :: _, _ => none
  | f + 1, x :: rest, vis =>
    if x ∈ vis then mark h f rest vis
    else mark h f (h.succ x ++ rest) (x :: vis)

inductive Reach (h : Heap) (roots : List Nat) : Nat → Prop
  | root {x} : x ∈ roots → Reach h roots x
  | step {x y} : Reach h roots x → y ∈ h.succ x → Reach h roots y

/-- soundness and closure invariant -/
theorem mark_spec (h : Heap) (roots : List Nat) :
    ∀ fuel work vis res,
      (∀ x ∈ work, Reach h roots x) → (∀ x ∈ vis, Reach h roots x) →
      (∀ x ∈ vis, ∀ y ∈ h.succ x, y ∈ vis ∨ y ∈ work) →
      mark h fuel work vis = some res →
      (∀ x ∈ res, Reach h roots x) ∧ (∀ x ∈ res, ∀ y ∈ h.succ x, y ∈ res) ∧
      (∀ x ∈ vis, x ∈ res) ∧ (∀ x ∈ work, x ∈ res) := by
  intro fuel
  induction fuel with
  | zero =>
    intro work vis res hw hv hc hm
    cases work with
    | nil =>
      simp [mark] at hm; subst hm
      exact ⟨hv, fun x hx y hy => by cases hc x hx y hy <;> simp_all, fun x hx => hx, by simp⟩
    | cons x rest => simp [mark] at hm
  | succ f ih =>
    intro work vis res hw hv hc hm
    cases work with
    | nil =>
      simp [mark] at hm; subst hm
      exact ⟨hv, fun x hx y hy => by cases hc x hx y hy <;> simp_all, fun x hx => hx, by simp⟩
    | cons x rest =>
      simp only [mark] at hm
      split at hm
      · next hx =>
        have := ih rest vis res (fun y hy => hw y (by simp [hy])) hv
          (fun a ha y hy => by
            cases hc a ha y hy with
            | inl h1 => exact Or.inl h1
            | inr h1 =>
              simp only [List.mem_cons] at h1
              cases h1 with
              | inl h2 => subst h2; exact Or.inl hx
              | inr h2 => exact Or.inr h2) hm
        obtain ⟨r1, r2, r3, r4⟩ := this
        refine ⟨r1, r2, r3, fun y hy => ?_⟩
        simp only [List.mem_cons] at hy
        cases hy with
        | inl h1 => subst h1; exact r3 _ hx
        | inr h1 => exact r4 _ h1
      · next hx =>
        have hxr : Reach h roots x := hw x (by simp)
        have := ih (h.succ x ++ rest) (x :: vis) res
          (fun y hy => by
            simp only [List.mem_append] at hy
            cases hy with
            | inl h1 => exact Reach.step hxr h1
            | inr h1 => exact hw y (by simp [h1]))
          (fun y hy => by
            simp only [List.mem_cons] at hy
            cases hy with
            | inl h1 => subst h1; exact hxr
            | inr h1 => exact hv y h1)
          (fun a ha y hy => by
            simp only [List.mem_cons] at ha
            cases ha with
            | inl h1 => subst h1; exact Or.inr (by simp [hy])
            | inr h1 =>
              cases hc a h1 y hy with
              | inl h2 => exact Or.inl (by simp [h2])
              | inr h2 =>
                simp only [List.mem_cons] at h2
                cases h2 with
                | inl h3 => subst h3; exact Or.inl (by simp)
                | inr h3 => exact Or.inr (by simp [h3])) hm
        obtain ⟨r1, r2, r3, r4⟩ := this
        refine ⟨r1, r2, fun y hy => r3 y (by simp [hy]), fun y hy => ?_⟩
        simp only [List.mem_cons] at hy
        cases hy with
        | inl h1 => subst h1; exact r3 _ (by simp)
        | inr h1 => exact r4 y (by simp [h1])

/-- whenever marking finishes, it has marked exactly the reachable objects -/
theorem mark_is_reachability (h : Heap) (roots : List Nat) (fuel : Nat) (res : List Nat)
    (hm : mark h fuel roots [] = some res) : ∀ x, x ∈ res ↔ Reach h roots x := by
  have := mark_spec h roots fuel roots [] res (fun x hx => Reach.root hx) (by simp) (by simp) hm
  obtain ⟨r1, r2, _, r4⟩ := this
  intro x
  constructor
  · exact r1 x
  · intro hr
    induction hr with
    | root hx => exact r4 _ hx
    | step _ hy ih => exact r2 _ ih _ hy

end Mark
#print axioms Mark.mark_is_reachability
