import P.Sched
open Sched

def alphabet2 : List Op := [.send 0 1, .recv 0, .send 1 2, .recv 1, .close 0]

def seqs2 : Nat → List (List Op)
  | 0 => [[]]
  | n + 1 => (seqs2 n) ++ ((seqs2 n).filter (·.length == n)).flatMap (fun s => alphabet2.map (fun o => s ++ [o]))

def panicMsg : Outcome → Option String
  | .panic m => some m
  | _ => none

def main : IO Unit := do
  let ss := seqs2 3
  let mut seen : List String := []
  let mut count := 0
  for caps in [[none, none], [none, some 1], [some 1, some 1], [some 2, none]] do
    for a in ss do
      for b in ss.take 40 do
        for m in ss do
          let vm := run 400 (init caps ([.launch a, .launch b] ++ m))
          count := count + 1
          match panicMsg vm.outcome with
          | some msg =>
            if !seen.contains msg then
              seen := msg :: seen
              IO.println s!"{msg}: caps={repr caps} a={repr a} b={repr b} main={repr m}"
          | none => pure ()
  IO.println s!"runs {count}, distinct panics {seen.length}"
