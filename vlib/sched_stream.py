"""Program-level collection-schedule streams shared by C05/C09/C13/C20: run the same program under
several schedules / cache modes and compare the observable outcome."""
import os
import re

from . import common, dumps, gen_programs

ADDR = re.compile(r"0x[0-9a-fA-F]+|addr: 0x[0-9a-f]+, metadata: \d+")

SCHEDULES_QUICK = ["--gc every:1", "--gc every:3 --full 1", "--gc coin:1/7:{seed} --full 0", "--gc never"]
SCHEDULES_THOROUGH = SCHEDULES_QUICK + ["--gc every:2", "--gc every:5 --full 0", "--gc every:7", "--gc every:13 --full 1",
                                        "--gc coin:1/2:{seed}", "--gc coin:1/100:{seed} --full 1", "--gc every:1 --full 0"]

# fixtures whose outcome depends on the clock, the environment or a random source are not differential inputs
SKIP_FIXTURES = ("native_stack_overvflow", "stdin", "lox.lay", "too_many", "/import/", "/module/", "regression",
                 "clock.lay", "/benchmark/", "/std_lib/env/", "rand.lay", "/std_lib/io/")


def canon(r):
    return (r["status"].split(":")[0] if r["status"].startswith(("PANIC", "CRASH")) else r["status"],
            ADDR.sub("0x", r["stdout"]), ADDR.sub("0x", r["stderr"]))


def fixture_programs(limit=None):
    fx = [f for f in dumps.fixture_files() if not any(s in f for s in SKIP_FIXTURES)]
    return fx[:limit] if limit else fx


def write_generated(ctx, n, label, opts=None, salt=0):
    d = os.path.join(common.VERIF, "work", "%s_%s_%s" % (ctx.prop.lower(), label, ctx.tier))
    os.makedirs(d, exist_ok=True)
    files = []
    for k in range(n):
        src = gen_programs.gen_program(ctx.seed * 7919 + salt * 104729 + k, opts)
        f = os.path.join(d, "p%d.lay" % k)
        with open(f, "w") as fh:
            fh.write(src)
        files.append(f)
    return files


def write_zoo(ctx, n, label="zoo", salt=0):
    """object-zoo programs (vlib/zoo.py): natives' Trace implementations under partial consumption"""
    import random
    from . import zoo
    d = os.path.join(common.VERIF, "work", "%s_%s_%s" % (ctx.prop.lower(), label, ctx.tier))
    os.makedirs(d, exist_ok=True)
    rng = random.Random(ctx.seed * 6007 + salt * 31 + 5)
    files = []
    for k in range(n):
        f = os.path.join(d, "z%d.lay" % k)
        with open(f, "w") as fh:
            fh.write(zoo.zoo_program(rng))
        files.append(f)
    return files


def compare_modes(ctx, label, files, modes, base_mode="", steps=400000, what="collection schedule", nan_boxing=False, bin="vharness"):
    """Run every file under base_mode and each of `modes`; outcomes must be identical.
    Returns False after reporting the first difference.  `nan_boxing`: use the harness built with
    the NaN-boxed value representation (both the base run and the other modes).  `bin`: which runner
    (`vh_runpoison` = the same runner under an allocator that poisons released blocks)."""
    base = common.run_batch(["%s --steps %d %s" % (base_mode, steps, f) for f in files], nan_boxing=nan_boxing, bin=bin)
    stats = {"programs": len(files), "modes": len(modes) + 1, "runs": len(files), "scheduled_collections": 0,
             "base_ok": sum(1 for r in base if r["status"].startswith("Ok")),
             "base_runtime_error": sum(1 for r in base if r["status"].startswith("RuntimeError")),
             "base_steplimit": sum(1 for r in base if r["status"] == "STEPLIMIT"),
             "base_crash": sum(1 for r in base if r["status"].startswith(("PANIC", "CRASH")))}
    for mode in modes:
        mode = mode.format(seed=ctx.seed)
        runs = common.run_batch(["%s --steps %d %s" % (mode, steps, f) for f in files], nan_boxing=nan_boxing, bin=bin)
        stats["runs"] += len(files)
        for f, b, r in zip(files, base, runs):
            stats["scheduled_collections"] += int(r.get("scheduled_collections", 0) or 0)
            if b["status"] == "STEPLIMIT" or r["status"] == "STEPLIMIT":
                continue
            if canon(b) != canon(r):
                ctx.stream_stat(label, **stats)
                ctx.cov["impl_vs_spec_failures"] += 1
                ctx.violation(label, {"kind": "implementation-vs-spec",
                                      "what": "observable behaviour depends on the %s" % what,
                                      "file": f, "program": open(f).read()[:20000], "base_mode": base_mode or "default", "mode": mode,
                                      "base": {"status": b["status"], "stdout": b["stdout"][-1500:], "stderr": b["stderr"][-800:]},
                                      "other": {"status": r["status"], "stdout": r["stdout"][-1500:], "stderr": r["stderr"][-800:]},
                                      "nan_boxing": nan_boxing,
                                      "runner": bin,
                                      "run": "harness/%s/debug/vharness run %s --steps %d <program>" % ("target-nb" if nan_boxing else "target", mode, steps)
                                             if bin == "vharness" else "echo '%s --steps %d <program>' | harness/target/debug/%s" % (mode, steps, bin)})
                return False
        for f, r in zip(files, runs):
            ctx.count_case((f, mode), nontrivial=int(r.get("scheduled_collections", 0) or 0) > 0)
    ctx.stream_stat(label, **stats)
    ctx.cov["traces_validated_against_impl"] += stats["runs"]
    return True
