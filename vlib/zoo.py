"""Object-zoo programs: values kept alive only through the `Trace` implementation of some native
object — above all iterator pipelines advanced part of the way (sub-iterators exhausted, adaptors
holding callbacks and current values), plus channels, bound methods, closures, boxes — then a burst
of garbage, then every remaining use of the object.  The output does not depend on when collections
happen, so the programs are judged by self-agreement across collection schedules (C05, C20) and by
the allocator's own accounting (C20)."""


def _src(rng, n):
    k = rng.randrange(9)
    if k == 0:
        return "[%s].iter()" % ", ".join('"e%d_${%d}"' % (i, n) for i in range(rng.randint(0, 5)))
    if k == 1:
        return "[%s].iter()" % ", ".join("[%d, \"x${%d}\"]" % (i, n + i) for i in range(rng.randint(1, 4)))
    if k == 2:
        return "(\"t${%d}\", [%d], \"u${%d}\").iter()" % (n, n, n + 1)
    if k == 3:
        return "{\"k${%d}\": [\"v${%d}\"]}.iter()" % (n, n)
    if k == 4:
        return "\"ab${%d}cd\".iter()" % n
    if k == 5:
        return "\"p${%d} q r${%d} s\".split(\" \")" % (n, n)
    if k == 6:
        return "%d.times()" % rng.randint(0, 6)
    if k == 7:
        return "%d.until(%d)" % (rng.randint(0, 3), rng.randint(3, 8))
    return "[%s].iter()" % ", ".join(str(rng.randint(0, 9)) for _ in range(rng.randint(2, 7)))


def _pipe(rng, n, depth):
    e = _src(rng, n)
    for _ in range(rng.randint(0, depth)):
        k = rng.randrange(7)
        if k == 0:
            e += ".map(|x| \"m${x}\")"
        elif k == 1:
            e += ".map(|x| [x, \"w${x}\"])"
        elif k == 2:
            e += ".filter(|x| \"${x}\".len() != %d)" % rng.randint(2, 9)
        elif k == 3:
            e += ".take(%d)" % rng.randint(0, 5)
        elif k == 4:
            e += ".skip(%d)" % rng.randint(0, 3)
        elif k == 5:
            e += ".zip(%s)" % _pipe(rng, n + 1, depth - 1)
        else:
            e += ".chain(%s)" % (", ".join(_pipe(rng, n + 1 + j, depth - 1) for j in range(rng.randint(1, 2))))
    return e


GARBAGE = "if true { let junk = nil; for gi in %d.times() { junk = [\"g${gi}\", [gi], {\"k\": gi}]; } }"


def zoo_program(rng, bursts=(3, 12)):
    """one program: several objects, each advanced, followed by garbage, then used up"""
    L = ["class Box { init(v) { self.v = v; } get() { return self.v; } }",
         "fn show(x) { print(\"${x}\"); }"]
    n = rng.randint(0, 50)
    for oi in range(rng.randint(2, 5)):
        n += 7
        kind = rng.randrange(10)
        g = GARBAGE % rng.randint(*bursts)
        if kind <= 5:
            it = "it%d" % oi
            hold = rng.randrange(5)
            decl = "let %s = %s;" % (it, _pipe(rng, n, 3))
            ref = it
            if hold == 1:
                decl += " let h%d = [%s];" % (oi, it)
                ref = "h%d[0]" % oi
            elif hold == 2:
                decl += " let h%d = Box(%s);" % (oi, it)
                ref = "h%d.get()" % oi
            elif hold == 3:
                decl += " let h%d = || %s;" % (oi, it)
                ref = "h%d()" % oi
            elif hold == 4:
                decl += " let h%d = chan(1); h%d <- %s; h%d.close();" % (oi, oi, it, oi)
                ref = None
            L.append(decl)
            adv = rng.randint(0, 6)
            for _ in range(adv):
                L.append("%s.next();" % it)
            L.append(g)
            if ref is None:
                L.append("let r%d = <- h%d;" % (oi, oi))
                ref = "r%d" % oi
            for _ in range(rng.randint(1, 4)):
                o = rng.randrange(8)
                if o == 0:
                    L.append("show(%s.current());" % ref)
                elif o == 1:
                    L.append("show(%s.len());" % ref)
                elif o == 2:
                    L.append("show(%s.next());" % ref)
                    L.append("show(%s.current());" % ref)
                elif o == 3:
                    L.append(g)
                elif o == 4:
                    L.append("if true { let acc = []; while %s.next() { acc.push(%s.current()); } show(acc); }" % (ref, ref))
                elif o == 5:
                    L.append("show(%s.into(List.collect));" % ref)
                elif o == 6:
                    L.append("show(%s.reduce(\"\", |a, x| \"${a}|${x}\"));" % ref)
                else:
                    L.append("if true { let c = 0; for x in %s { c = c + 1; } show(c); }" % ref)
            L.append("show(%s.len());" % ref)
        elif kind == 6:
            L.append("let ch%d = chan(4); ch%d <- \"a${%d}\"; ch%d <- [\"b${%d}\", (%d, \"t${%d}\")]; ch%d <- Box(\"c${%d}\");" % (oi, oi, n, oi, n, n, n, oi, n))
            if rng.random() < 0.6:
                L.append("ch%d.close();" % oi)
            L.append(g)
            L.append("show(<- ch%d); show(<- ch%d); show((<- ch%d).get());" % (oi, oi, oi))
        elif kind == 7:
            L.append("let bm%d = Box([\"z${%d}\", \"y${%d}\"]).get;" % (oi, n, n))
            L.append(g)
            L.append("show(bm%d());" % oi)
        elif kind == 8:
            L.append("fn mk%d() { let cell = \"c${%d}\"; let other = [cell, \"d${%d}\"]; return (|| cell, |v| { other.push(v); return other; }); }" % (oi, n, n))
            L.append("let cl%d = mk%d();" % (oi, oi))
            L.append(g)
            L.append("show(cl%d[0]()); show(cl%d[1](\"e${%d}\"));" % (oi, oi, n))
        elif kind == 9 and rng.random() < 0.5:
            # numbers whose bit patterns sit next to the tags of the boxed representation, alive across collections
            L.append("let z%d = 0; let nums%d = [z%d / z%d, -(z%d / z%d), 1 / z%d, -1 / z%d, -z%d, 1e308 * 10, 5e-324 / 2, -(5e-324 / 2)]; let nf%d = Box(z%d / z%d);"
                     % (oi, oi, oi, oi, oi, oi, oi, oi, oi, oi, oi, oi))
            L.append(g)
            L.append("show(nums%d); show(nf%d.get()); show(nums%d.len());" % (oi, oi, oi))
        else:
            L.append("let mp%d = {\"k${%d}\": [\"v${%d}\"]}; let ls%d = [mp%d, (mp%d, \"q${%d}\")];" % (oi, n, n, oi, oi, oi, n))
            L.append(g)
            L.append("show(ls%d[1][0][\"k${%d}\"]); show(ls%d[0].len());" % (oi, n, oi))
    return "\n".join(L) + "\n"
