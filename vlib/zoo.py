"""Object-zoo programs: values kept alive only through the `Trace` implementation of some native
object — above all iterator pipelines advanced part of the way (sub-iterators exhausted, adaptors
holding callbacks and current values), plus channels, bound methods, closures, boxes — then a burst
of garbage, then every remaining use of the object.  The output does not depend on when collections
happen, so the programs are judged by self-agreement across collection schedules (C05, C20) and by
the allocator's own accounting (C20)."""


def _src(rng, n):
    k = rng.randrange(9)
    if k == 0:
        return "[%s].iter()" % ", ".join('"e%d_${%d}"' % (i, n) for i in range(rng.randint(0, 5)))
    if k == 1:
        return "[%s].iter()" % ", ".join("[%d, \"x${%d}\"]" % (i, n + i) for i in range(rng.randint(1, 4)))
    if k == 2:
        return "(\"t${%d}\", [%d], \"u${%d}\").iter()" % (n, n, n + 1)
    if k == 3:
        return "{\"k${%d}\": [\"v${%d}\"]}.iter()" % (n, n)
    if k == 4:
        return "\"ab${%d}cd\".iter()" % n
    if k == 5:
        return "\"p${%d} q r${%d} s\".split(\" \")" % (n, n)
    if k == 6:
        return "%d.times()" % rng.randint(0, 6)
    if k == 7:
        return "%d.until(%d)" % (rng.randint(0, 3), rng.randint(3, 8))
    return "[%s].iter()" % ", ".join(str(rng.randint(0, 9)) for _ in range(rng.randint(2, 7)))


def _pipe(rng, n, depth):
    e = _src(rng, n)
    for _ in range(rng.randint(0, depth)):
        k = rng.randrange(7)
        if k == 0:
            e += ".map(|x| \"m${x}\")"
        elif k == 1:
            e += ".map(|x| [x, \"w${x}\"])"
        elif k == 2:
            e += ".filter(|x| \"${x}\".len() != %d)" % rng.randint(2, 9)
        elif k == 3:
            e += ".take(%d)" % rng.randint(0, 5)
        elif k == 4:
            e += ".skip(%d)" % rng.randint(0, 3)
        elif k == 5:
            e += ".zip(%s)" % _pipe(rng, n + 1, depth - 1)
        else:
            e += ".chain(%s)" % (", ".join(_pipe(rng, n + 1 + j, depth - 1) for j in range(rng.randint(1, 2))))
    return e


GARBAGE = "if true { let junk = nil; for gi in %d.times() { junk = [\"g${gi}\", [gi], {\"k\": gi}]; } }"


def zoo_program(rng, bursts=(3, 12)):
    """one program: several objects, each advanced, followed by garbage, then used up"""
    L = ["class Box { init(v) { self.v = v; } get() { return self.v; } }",
         "fn show(x) { print(\"${x}\"); }"]
    n = rng.randint(0, 50)
    for oi in range(rng.randint(2, 5)):
        n += 7
        kind = rng.randrange(10)
        g = GARBAGE % rng.randint(*bursts)
        if kind <= 5:
            it = "it%d" % oi
            hold = rng.randrange(5)
            decl = "let %s = %s;" % (it, _pipe(rng, n, 3))
            ref = it
            if hold == 1:
                decl += " let h%d = [%s];" % (oi, it)
                ref = "h%d[0]" % oi
            elif hold == 2:
                decl += " let h%d = Box(%s);" % (oi, it)
                ref = "h%d.get()" % oi
            elif hold == 3:
                decl += " let h%d = || %s;" % (oi, it)
                ref = "h%d()" % oi
            elif hold == 4:
                decl += " let h%d = chan(1); h%d <- %s; h%d.close();" % (oi, oi, it, oi)
                ref = None
            L.append(decl)
            adv = rng.randint(0, 6)
            for _ in range(adv):
                L.append("%s.next();" % it)
            L.append(g)
            if ref is None:
                L.append("let r%d = <- h%d;" % (oi, oi))
                ref = "r%d" % oi
            for _ in range(rng.randint(1, 4)):
                o = rng.randrange(8)
                if o == 0:
                    L.append("show(%s.current());" % ref)
                elif o == 1:
                    L.append("show(%s.len());" % ref)
                elif o == 2:
                    L.append("show(%s.next());" % ref)
                    L.append("show(%s.current());" % ref)
                elif o == 3:
                    L.append(g)
                elif o == 4:
                    L.append("if true { let acc = []; while %s.next() { acc.push(%s.current()); } show(acc); }" % (ref, ref))
                elif o == 5:
                    L.append("show(%s.into(List.collect));" % ref)
                elif o == 6:
                    L.append("show(%s.reduce(\"\", |a, x| \"${a}|${x}\"));" % ref)
                else:
                    L.append("if true { let c = 0; for x in %s { c = c + 1; } show(c); }" % ref)
            L.append("show(%s.len());" % ref)
        elif kind == 6:
            L.append("let ch%d = chan(4); ch%d <- \"a${%d}\"; ch%d <- [\"b${%d}\", (%d, \"t${%d}\")]; ch%d <- Box(\"c${%d}\");" % (oi, oi, n, oi, n, n, n, oi, n))
            if rng.random() < 0.6:
                L.append("ch%d.close();" % oi)
            L.append(g)
            L.append("show(<- ch%d); show(<- ch%d); show((<- ch%d).get());" % (oi, oi, oi))
        elif kind == 7:
            L.append("let bm%d = Box([\"z${%d}\", \"y${%d}\"]).get;" % (oi, n, n))
            L.append(g)
            L.append("show(bm%d());" % oi)
        elif kind == 8:
            L.append("fn mk%d() { let cell = \"c${%d}\"; let other = [cell, \"d${%d}\"]; return (|| cell, |v| { other.push(v); return other; }); }" % (oi, n, n))
            L.append("let cl%d = mk%d();" % (oi, oi))
            L.append(g)
            L.append("show(cl%d[0]()); show(cl%d[1](\"e${%d}\"));" % (oi, oi, n))
        elif kind == 9 and rng.random() < 0.5:
            # numbers whose bit patterns sit next to the tags of the boxed representation, alive across collections
            L.append("let z%d = 0; let nums%d = [z%d / z%d, -(z%d / z%d), 1 / z%d, -1 / z%d, -z%d, 1e308 * 10, 5e-324 / 2, -(5e-324 / 2)]; let nf%d = Box(z%d / z%d);"
                     % (oi, oi, oi, oi, oi, oi, oi, oi, oi, oi, oi, oi))
            L.append(g)
            L.append("show(nums%d); show(nf%d.get()); show(nums%d.len());" % (oi, oi, oi))
        else:
            L.append("let mp%d = {\"k${%d}\": [\"v${%d}\"]}; let ls%d = [mp%d, (mp%d, \"q${%d}\")];" % (oi, n, n, oi, oi, oi, n))
            L.append(g)
            L.append("show(ls%d[1][0][\"k${%d}\"]); show(ls%d[0].len());" % (oi, n, oi))
    return "\n".join(L) + "\n"


# ---------------------------------------------------------------------------------------------
# Degenerate blocks (C20: every block the allocator lets go of is handed back): containers and
# strings of capacity/length 0 obtained in every way the natives can produce them, lists that are
# pushed to afterwards (the capacity-0 block becomes a forwarding stub), and one object of every
# other kind — each either dropped at once, dropped at the end of a scope, or kept to the end.
# The output never depends on when collections happen.

def _empty_iter(rng, depth=2):
    """an iterator expression that yields nothing (its size hint is 0 in most cases)"""
    k = rng.randrange(14 if depth > 0 else 8)
    if k == 0:
        return "[].iter()"
    if k == 1:
        return "{}.iter()"
    if k == 2:
        return "().iter()"
    if k == 3:
        return "\"ab\".slice(1, 1).iter()"
    if k == 4:
        return "0.times()"
    if k == 5:
        n = rng.randint(0, 5)
        return "%d.until(%d)" % (n, n)
    if k == 6:
        return "[%s].iter().take(0)" % ", ".join(str(rng.randint(0, 9)) for _ in range(rng.randint(0, 4)))
    if k == 7:
        n = rng.randint(0, 4)
        return "[%s].iter().skip(%d)" % (", ".join(str(i) for i in range(n)), n + rng.randint(0, 3))
    if k == 8:
        return "%s.map(|x| [x])" % _empty_iter(rng, depth - 1)
    if k == 9:
        # the hint of a filter is not the number of elements: sometimes 0 elements, sometimes not
        return "[%s].iter().filter(|x| x > %d)" % (", ".join(str(rng.randint(0, 9)) for _ in range(rng.randint(0, 5))), rng.choice([9, 9, 4]))
    if k == 10:
        a, b = _empty_iter(rng, depth - 1), "[1, 2, 3].iter()"
        return "%s.zip(%s)" % ((a, b) if rng.random() < 0.5 else (b, a))
    if k == 11:
        return "%s.chain(%s)" % (_empty_iter(rng, depth - 1), _empty_iter(rng, depth - 1))
    if k == 12:
        return "%s.take(%d)" % (_empty_iter(rng, depth - 1), rng.randint(0, 3))
    return "%s.skip(%d)" % (_empty_iter(rng, depth - 1), rng.randint(0, 3))


def _empty_list(rng):
    """a list expression of length 0; most of them have capacity 0 as well"""
    k = rng.randrange(9)
    it = _empty_iter(rng)
    if k <= 1:
        return "%s.into(List.collect)" % it
    if k == 2:
        return "List.collect(%s)" % it
    if k == 3:
        return "%s.list()" % it
    if k == 4:
        n = rng.randint(0, 3)
        return "[%s].slice(%d, %d)" % (", ".join(str(i) for i in range(3)), n, n)
    if k == 5:
        return "[%s].slice(%d)" % (", ".join(str(i) for i in range(3)), 3)
    if k == 6:
        return "%s.into(List.collect).rev()" % it
    if k == 7:
        return "%s.into(List.collect).slice()" % it
    return "[]"


def _empty_other(rng, lit_empty):
    """(expression, how to show it) for the degenerate values that are not lists"""
    k = rng.randrange(12)
    it = _empty_iter(rng)
    if k == 0:
        return "%s.into(Tuple.collect)" % it, "len"
    if k == 1:
        return "Tuple.collect(%s)" % it, "len"
    if k == 2:
        return "(1, 2).slice(%d, %d)" % (1, 1), "len"
    if k == 3:
        return "()", "len"
    if k == 4:
        return "{}", "len"
    if k == 5:
        return ("\"\"" if lit_empty else "\"q\".slice(1)"), "len"
    if k == 6:
        return "\"xyz\".slice(%d, %d)" % (2, 2), "len"
    if k == 7:
        return "\"  \".trim()", "len"
    if k == 8:
        return "%s.reduce(\"k\".slice(1), |a, x| a + \"${x}\")" % it, "len"
    if k == 9:
        return "\"k\".slice(1).upCase()", "len"
    if k == 10:
        return "\"ab\".slice(2).split(\",\").into(List.collect)", "len"
    return it, "iter"


def _other_kind(rng, oi, n):
    """statements that create one object of a kind the other generators rarely drop"""
    k = rng.randrange(9)
    if k == 0:
        return ["let c%d = chan(%s); show(c%d.len());" % (oi, rng.choice(["", "1", "3"]), oi)]
    if k == 1:
        return ["let c%d = chan(2); c%d <- [%d]; c%d <- \"s${%d}\"; c%d.close(); show(c%d.len());" % (oi, oi, n, oi, n, oi, oi)]
    if k == 2:
        return ["fn w%d(ch, v) { ch <- v; }" % oi,
                "let c%d = chan(1); launch w%d(c%d, %d); show(<- c%d);" % (oi, oi, oi, n, oi)]
    if k == 3:
        return ["let f%d = || %d; show(f%d());" % (oi, n, oi)]
    if k == 4:
        return ["fn mk%d(a, b, c) { return || a + b + c; }" % oi, "let f%d = mk%d(%d, 1, 2); show(f%d());" % (oi, oi, n, oi)]
    if k == 5:
        return ["fn mc%d() { class Local%d { m() { return %d; } } return Local%d; }" % (oi, oi, n, oi),
                "let k%d = mc%d(); show(k%d().m());" % (oi, oi, oi)]
    if k == 6:
        return ["let e%d = Empty(); show(e%d.tag());" % (oi, oi)]
    if k == 7:
        return ["let b%d = Box(nil); let m%d = b%d.get; show(m%d());" % (oi, oi, oi, oi)]
    return ["let b%d = Box(Box(\"v${%d}\")); show(b%d.get().get());" % (oi, n, oi)]


def _native_tour(rng, oi):
    """the natives of List / Tuple / Map / String / Iter on receivers of 0, 1, a few and many elements: whatever a
    native obtains on the Rust side (scratch vectors, strings, tables) has to be gone after the call"""
    n = rng.choice([0, 1, 3, 9, 20, 40])
    h = n // 2
    r = "r%d" % oi
    L = ["let %s = [%s];" % (r, ", ".join(str((i * 7) % 11) for i in range(n)))]
    calls = [
        "show(%s.rev().len());" % r,
        "show(%s.slice(0, %d).len()); show(%s.slice(%d).len());" % (r, h, r, h),
        "show(%s.sort(Number.cmp).len());" % r,
        "show(%s.has(3)); show(%s.index(3));" % (r, r),
        "show(%s.str().len());" % r,
        "show(%s.iter().first()); show(%s.iter().last()); show(%s.iter().len());" % (r, r, r),
        "%s.iter().each(|x| { total = total + x; });" % r,
        "show(%s.iter().map(|x| x + 1).into(List.collect).len());" % r,
        "show(%s.iter().filter(|x| x > 3).list().len());" % r,
        "show(%s.iter().reduce(0, |a, x| a + x));" % r,
        "show(%s.iter().zip(%s.iter()).into(List.collect).len());" % (r, r),
        "show(%s.iter().chain(%s.iter()).into(Tuple.collect).len());" % (r, r),
        "show(%s.iter().skip(2).take(%d).into(List.collect));" % (r, h),
        "show(%s.iter().all(|x| x >= 0)); show(%s.iter().any(|x| x > 100));" % (r, r),
        "if true { let t = Tuple.collect(%s.iter()); show(t.len()); show(t.slice(0, %d).len()); show(t.has(3)); show(t.index(3)); show(t.str().len()); }" % (r, h),
        "if true { let m = {}; for x in %s { m[x] = [x]; } show(m.len()); show(m.has(3)); show(m.get(3)); show(m.str().len()); show(m.iter().reduce(0, |a, kv| a + kv[0])); }" % r,
        "if true { let s = %s.str(); show(s.upCase().len()); show(s.downCase().len()); show(s.split(\",\").into(List.collect).len()); show(s.trim().len()); "
        "show(s.trimStart().len()); show(s.trimEnd().len()); show(s.slice(1).len()); show(s.has(\"1\")); show(s.iter().into(List.collect).len()); }" % r,
        "if true { let c = %s.slice(); c.push(1); c.insert(0, 2); show(c.pop()); show(c.remove(0)); c.clear(); show(c.len()); }" % r,
    ]
    rng.shuffle(calls)
    return L + calls[:rng.randint(3, 7)]


def degenerate_program(rng, bursts=(2, 8)):
    """one program: degenerate blocks of every kind, created, grown, dropped and kept"""
    lit_empty = rng.random() < 0.5          # without the literal "" the empty string itself can become garbage
    L = ["class Box { init(v) { self.v = v; } get() { return self.v; } }",
         "class Empty { tag() { return \"e\"; } }",
         "fn show(x) { print(\"${x}\"); }",
         "let keep = [];", "let total = 0;"]
    n = rng.randint(0, 40)
    for oi in range(rng.randint(4, 9)):
        n += 3
        g = GARBAGE % rng.randint(*bursts)
        how = rng.randrange(9)
        scoped = rng.random() < 0.6          # inside a block: garbage from the end of the block on
        body = []
        if how <= 2:
            # a list of capacity 0 ...
            e = _empty_list(rng)
            use = rng.randrange(5)
            if use == 0:
                body.append("let l%d = %s; show(l%d.len());" % (oi, e, oi))
            elif use == 1:
                # ... pushed to afterwards: the capacity-0 block becomes a forwarding stub that an alias still points to
                body.append("let l%d = %s; let a%d = l%d; let h%d = [l%d];" % (oi, e, oi, oi, oi, oi))
                body.append("for i in %d.times() { l%d.push(i); }" % (rng.choice([1, 2, 5, 9, 20]), oi))
                body.append("show(l%d.len()); show(a%d.len()); show(h%d[0].len());" % (oi, oi, oi))
            elif use == 2:
                body.append("let l%d = %s; l%d.insert(0, \"i${%d}\"); show(l%d); l%d.clear(); show(l%d.len());" % (oi, e, oi, n, oi, oi, oi))
            elif use == 3:
                body.append("for i in %d.times() { let t = %s; total = total + t.len(); }" % (rng.randint(2, 12), e))
            else:
                body.append("keep.push(%s); show(keep.len());" % e)
        elif how <= 4:
            e, shown = _empty_other(rng, lit_empty)
            if shown == "iter":
                body.append("let it%d = %s; show(it%d.next()); show(it%d.into(List.collect).len());" % (oi, e, oi, oi))
            elif rng.random() < 0.5:
                body.append("let v%d = %s; show(v%d.len());" % (oi, e, oi))
            else:
                body.append("for i in %d.times() { let t = %s; total = total + t.len(); }" % (rng.randint(2, 8), e))
        elif how == 8:
            body += _native_tour(rng, oi)
        elif how == 5:
            body += _other_kind(rng, oi, n)
        elif how == 6:
            # a map that grows and is emptied again
            grow = rng.choice([1, 3, 9, 20])
            body.append("let m%d = {}; for i in %d.times() { m%d[\"k${i}\"] = [i]; } for i in %d.times() { m%d.remove(\"k${i}\"); } show(m%d.len());"
                        % (oi, grow, oi, rng.choice([0, 1, grow]), oi, oi))
        elif how == 7 and rng.random() < 0.5:
            # the big size classes: a long string, a wide tuple, an instance with many fields, a long list literal
            body.append("class Wide%d { init(v) { self.a = v; self.b = v; self.c = v; self.d = v; self.e = [v]; self.f = \"f${v}\"; } }" % oi)
            body.append("let w%d = Wide%d(%d); let big%d = \"long string number ${%d} with padding\"; let tup%d = (1, 2, 3, 4, 5, w%d, big%d);" % (oi, oi, n, oi, n, oi, oi, oi))
            body.append("let ll%d = [%s]; show(tup%d.len() + ll%d.len() + big%d.len());" % (oi, ", ".join(str(i) for i in range(rng.randint(9, 14))), oi, oi, oi))
        else:
            body.append("let s%d = %s; let t%d = (s%d, s%d.len(), %s); show(t%d[1]);"
                        % (oi, _empty_list(rng), oi, oi, oi, _empty_other(rng, lit_empty)[0] if rng.random() < 0.5 else "nil", oi))
        if scoped:
            L.append("if true {")
            L += ["  " + b for b in body]
            if rng.random() < 0.5:
                L.append("  " + g)
            L.append("}")
        else:
            L += body
        if rng.random() < 0.6:
            L.append(g)
    L.append("show(total); show(keep.len());")
    return "\n".join(L) + "\n"
