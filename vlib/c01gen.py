"""Program generator for C01: programs over the core expression/statement grammar, as LayRef ASTs (vlib/layref.py).

Type-directed and scope-aware so that (almost) every program is accepted by the front end and terminates:
* loops are counter loops (`i += 1` first in the body) or `for` over finite iterables that the body does not grow;
* a function body only calls functions declared before it (no recursion except the fixed `fib` template);
* wrong-typed operations are generated on purpose, with low probability outside `try`, high inside.

Signatures of defects the generator used to stay clear of while they were open (DESIGN §6).  All of D1, D2, D3, D25 are repaired
in /repo and their shapes are generated (avoid_d2 defaults to False, can_try allows parameters, earlier ternaries and nesting);
still avoided: D9/D20 shapes (see below) and the last item:
* D2  — `break`/`continue` while a local of the loop body is live (avoid_d2); a `try` textually after a ternary in the same
        function body (the straight-line depth pass counts both ternary branches); a `try` after a block that declares a
        local and ends in `raise`/`return` (the scope-exit Drop is removed as dead code, the pass keeps the slot);
* D1  — `try` inside a function with parameters;
* D3  — nested `try`;
* D9  — reading a module variable before its `let`;
* D20 — undefined property reads / undefined method calls with arguments (error class differs fused/unfused);
* D25 — compound assignment to a property of a non-`self` receiver inside a class method;
* identity of capture-free function values, map print order, printing cyclic lists.
"""
from . import layref as L
from .layref import (NIL, TRUE, FALSE, SELF, Num, Str, Var, Neg, Not, Bin, And, Or, Tern, Assign, Call, Prop, Index, MCall,
                     List_, Tuple_, Map_, Interp, Lambda, LambdaBlock, Let, Fn, Class, ExprStmt, IRet, If, While, For, Return,
                     Try, Raise, Print)

ARITH = ["+", "-", "*", "/"]
CMP = ["<", "<=", ">", ">="]
EQ = ["==", "!="]
ALL_BIN = ARITH + CMP + EQ

# the 13 operand kinds of the matrix; each maps to a list of expression makers (given the prelude names)
KINDS = ["nil", "true", "false", "num", "numx", "str", "list", "map", "tuple", "fn", "class", "inst", "method"]

NUMS = [0, 1, 2, 3, 7, 10, 0.5, 2.5, 0.25, 1.5, 100, 12345, 0.1, 3.75, 1e15, 4503599627370497.0]
STRS = ["", "a", "b", "ab", "B", "abc", "hello world", "10", "z9", "a b", "Zeta"]


class Scope:
    def __init__(self, kind):
        self.kind = kind            # 'module' | 'fn' | 'block' | 'loop' | 'catch'
        self.vars = {}              # name -> kind tag
        self.nlocals = 0


class FnCtx:
    def __init__(self, kind, nparams):
        self.kind = kind            # 'module' | 'fn' | 'method' | 'init' | 'static' | 'lambda'
        self.nparams = nparams
        self.ternary_seen = False
        self.in_try = 0
        self.loops = []             # indices into scope stack where loop bodies start


class ProgGen:
    def __init__(self, rng, max_depth=6, avoid_d2=False, p_err=0.04):
        self.rng = rng
        self.max_depth = max_depth
        self.avoid_d2 = avoid_d2
        self.p_err = p_err
        self.scopes = []
        self.fns = []
        self.counter = 0
        self.funcs = {}             # name -> arity (declared functions visible by name, any scope)
        self.classes = {}           # name -> dict(fields, methods{name: arity}, init_arity, statics)
        self.stats = {}
        self.iterating = set()
        self.no_str_vars = 0        # >0 while building the right-hand side of a string assignment (bounds growth)

    # -- helpers -----------------------------------------------------------------------------
    def hit(self, k):
        self.stats[k] = self.stats.get(k, 0) + 1

    def fresh(self, p):
        self.counter += 1
        return "%s%d" % (p, self.counter)

    def push(self, kind):
        self.scopes.append(Scope(kind))

    def pop(self):
        s = self.scopes.pop()
        for n, k in s.vars.items():
            if k.startswith("fn"):
                self.funcs.pop(n, None)
        return s

    def fn(self):
        return self.fns[-1]

    def is_module_top(self):
        return len(self.scopes) == 1 and self.scopes[0].kind == "module"

    def declare(self, name, kind):
        self.scopes[-1].vars[name] = kind
        if not self.is_module_top():
            self.scopes[-1].nlocals += 1

    def visible(self, want=None, assignable=False):
        """names of variables visible from here (inside the current function chain), optionally of a kind"""
        out = []
        for s in self.scopes:
            for n, k in s.vars.items():
                if assignable and (k.startswith("fn") or k in ("class", "loopvar", "counter", "iterlist")):
                    continue
                if want is None or k == want or (want == "num" and k in ("counter", "loopnum")):
                    out.append(n)
        return out

    def kind_of(self, name):
        for s in reversed(self.scopes):
            if name in s.vars:
                return s.vars[name]
        return None

    def live_loop_locals(self):
        f = self.fn()
        if not f.loops:
            return None
        start = f.loops[-1]
        return sum(s.nlocals for s in self.scopes[start:])

    def can_break(self):
        k = self.live_loop_locals()
        if k is None:
            return False
        return (not self.avoid_d2) or k == 0

    def can_try(self):
        # (D1 `try` in a function with parameters, D2 `try` after a ternary, D3 nested `try` are repaired: no shape is avoided;
        # nesting is bounded only to keep programs small)
        f = self.fn()
        return f.in_try < 3

    def can_ternary(self):
        return True

    def note_ternary(self):
        self.fn().ternary_seen = True

    # -- expressions -------------------------------------------------------------------------
    def num_lit(self):
        r = self.rng
        x = r.choice(NUMS) if r.random() < 0.8 else float(r.randint(0, 1000))
        e = Num(x)
        if r.random() < 0.15:
            e = Neg(e)
        return e

    def special_num(self):
        return self.rng.choice([L.INF, Neg(L.INF), L.NAN, L.NEG_ZERO, Num(0), Num(9007199254740992.0),
                                Bin("/", Num(1), Num(3)), Bin("+", Num(0.1), Num(0.2)), Neg(Num(2.5))])

    def str_lit(self):
        return Str(self.rng.choice(STRS))

    def leaf(self, kind):
        r = self.rng
        vs = self.visible(kind)
        if kind == "str" and self.no_str_vars:
            vs = []
        if vs and r.random() < 0.6:
            return Var(r.choice(vs))
        if kind == "num":
            return self.num_lit() if r.random() < 0.9 else self.special_num()
        if kind == "str":
            return self.str_lit()
        if kind == "bool":
            return r.choice([TRUE, FALSE])
        if kind == "nil":
            return NIL
        if kind == "list":
            return List_(*[self.leaf(r.choice(["num", "str", "nil", "bool"])) for _ in range(r.randint(0, 3))])
        if kind == "tuple":
            return Tuple_(*[self.leaf(r.choice(["num", "str"])) for _ in range(r.randint(0, 3))])
        if kind == "map":
            return Map_() if r.random() < 0.4 else Map_((self.leaf(r.choice(["str", "num"])), self.leaf("num")))
        return self.num_lit()

    def expr(self, kind, depth):
        """an expression that (normally) evaluates to a value of `kind` in
        {'num','str','bool','nil','list','tuple','map','any'}"""
        r = self.rng
        if kind == "any":
            kind = r.choice(["num", "num", "str", "bool", "nil", "list", "tuple", "num", "str"])
        if depth <= 0 or r.random() < 0.18:
            return self.leaf(kind)
        if r.random() < self.p_err and self.fn().in_try == 0:
            pass
        d = depth - 1
        c = r.random()
        # constructs that work for any kind
        if c < 0.09:
            self.hit("ternary")
            self.note_ternary()
            return Tern(self.expr("any" if r.random() < 0.5 else "bool", d), self.expr(kind, d), self.expr(kind, d))
        if c < 0.15:
            self.hit("and_or")
            # a && b yields b when a is truthy; a || b yields a when truthy
            if r.random() < 0.5:
                return And(self.truthy(d), self.expr(kind, d))
            return Or(self.falsy(d), self.expr(kind, d))
        if c < 0.20:
            vs = [v for v in self.visible(kind, assignable=True)]
            if vs and not (kind == "str" and self.no_str_vars):
                self.hit("assign_expr")
                return Assign(Var(r.choice(vs)), self.str_rhs(d) if kind == "str" else self.expr(kind, d))
        if c < 0.26 and not (kind == "str" and self.no_str_vars):
            call = self.call_returning(kind, d)
            if call is not None:
                return call
        if c < 0.30:
            # immediately-invoked lambda
            self.hit("iife")
            p = self.fresh("p")
            self.fns.append(FnCtx("lambda", 1))
            self.push("fn")
            self.declare(p, kind if kind in ("num", "str") else "any")
            body = self.expr(kind, d)
            self.pop()
            self.fns.pop()
            return Call(Lambda([p], body), self.expr(kind if kind in ("num", "str") else "any", d))
        if kind == "num":
            return self.num_expr(d)
        if kind == "str":
            return self.str_expr(d)
        if kind == "bool":
            return self.bool_expr(d)
        if kind == "list":
            if r.random() < 0.7:
                return List_(*[self.expr(r.choice(["num", "str", "any"]), d) for _ in range(r.randint(0, 4))])
            return self.leaf("list")
        if kind == "tuple":
            return Tuple_(*[self.expr(r.choice(["num", "str"]), d) for _ in range(r.randint(0, 3))])
        return self.leaf(kind)

    def truthy(self, d):
        r = self.rng
        return r.choice([TRUE, Num(0), Str(""), self.expr("num", d), self.expr("str", d), List_()])

    def falsy(self, d):
        r = self.rng
        c = r.random()
        if c < 0.4:
            return NIL
        if c < 0.8:
            return FALSE
        return Not(self.truthy(d))

    def num_expr(self, d):
        r = self.rng
        c = r.random()
        if c < 0.55:
            self.hit("arith")
            return Bin(r.choice(ARITH), self.expr("num", d), self.expr("num", d))
        if c < 0.65:
            return Neg(self.expr("num", d))
        if c < 0.72:
            vs = self.visible("num", assignable=True)
            if vs:
                self.hit("compound_assign")
                return Assign(Var(r.choice(vs)), self.expr("num", d), r.choice(["set+", "set-", "set*", "set/"]))
        if c < 0.80:
            ls = self.visible("list")
            if ls:
                return MCall(Var(r.choice(ls)), "len")
            return MCall(self.expr("str", d), "len")
        if c < 0.86:
            return MCall(self.expr(r.choice(["str", "list", "tuple"]), d), "len")
        if c < 0.90:
            return self.special_num()
        return Bin(r.choice(ARITH), self.expr("num", d), self.expr("num", d))

    def str_expr(self, d):
        r = self.rng
        c = r.random()
        if c < 0.4:
            self.hit("concat")
            return Bin("+", self.expr("str", d), self.expr("str", d))
        if c < 0.7:
            self.hit("interp")
            parts = []
            for _ in range(r.randint(1, 3)):
                if r.random() < 0.5:
                    parts.append(("lit", r.choice(["", "x", " ", "v=", ": ", "a-b"])))
                parts.append(self.expr(r.choice(["num", "str", "bool", "nil", "list", "tuple"]), max(0, d - 1)))
            if r.random() < 0.5:
                parts.append(("lit", r.choice(["", "!", " end"])))
            return ("interp", parts)
        if c < 0.8:
            return MCall(self.expr(r.choice(["num", "bool", "nil", "str", "list"]), d), "str")
        if c < 0.9:
            vs = self.visible("str", assignable=True)
            if vs and not self.no_str_vars:
                return Assign(Var(r.choice(vs)), self.str_lit(), "set+")
        return self.leaf("str")

    def str_rhs(self, d):
        """right-hand side for a string variable: never mentions string variables (keeps lengths bounded in loops)"""
        self.no_str_vars += 1
        e = self.expr("str", d)
        self.no_str_vars -= 1
        return e

    def bool_expr(self, d):
        r = self.rng
        c = r.random()
        if c < 0.35:
            self.hit("compare")
            k = r.choice(["num", "num", "str"])
            return Bin(r.choice(CMP), self.expr(k, d), self.expr(k, d))
        if c < 0.6:
            self.hit("equality")
            k = r.choice(["num", "str", "bool", "nil", "num"])
            k2 = k if r.random() < 0.7 else r.choice(["num", "str", "bool", "nil"])
            return Bin(r.choice(EQ), self.expr(k, d), self.expr(k2, d))
        if c < 0.8:
            return Not(self.expr("any", d))
        if c < 0.9:
            ls = self.visible("list")
            if ls:
                return MCall(Var(r.choice(ls)), "has", self.expr("num", d))
        return self.leaf("bool")

    def call_returning(self, kind, d):
        """call of a declared function whose return kind is `kind` (recorded at declaration)"""
        r = self.rng
        cands = [(n, a) for n, (a, rk) in self.funcs.items() if rk == kind and self.kind_of(n) is not None]
        if not cands:
            return None
        n, params = r.choice(cands)
        self.hit("call")
        return Call(Var(n), *[self.expr(pk, d) for pk in params])

    def wrong_expr(self, d):
        """an expression that raises a runtime type/arity/index error (or, sometimes, does not)"""
        r = self.rng
        c = r.random()
        a = self.expr(r.choice(["num", "str", "bool", "nil", "list"]), d)
        b = self.expr(r.choice(["num", "str", "bool", "nil", "tuple"]), d)
        self.hit("wrong")
        if c < 0.45:
            return Bin(r.choice(ARITH + CMP), a, b)
        if c < 0.55:
            return Neg(self.expr(r.choice(["str", "nil", "bool", "list"]), d))
        if c < 0.70:
            cands = [(n, a_) for n, (a_, rk) in self.funcs.items() if self.kind_of(n) is not None]
            if cands:
                n, params = r.choice(cands)
                k = len(params) + r.choice([-1, 1, 2])
                return Call(Var(n), *[self.expr("num", 0) for _ in range(max(0, k))])
        if c < 0.80:
            return Call(self.expr(r.choice(["num", "str", "nil", "bool", "list"]), 0))
        if c < 0.90:
            return Index(self.leaf("list"), r.choice([Num(5), Neg(Num(9)), Num(1.5), Str("k"), NIL]))
        return MCall(self.expr(r.choice(["num", "nil", "bool"]), 0), r.choice(["foo", "len", "push"]))

    # -- statements --------------------------------------------------------------------------
    def block(self, depth, n, kind="block"):
        self.push(kind)
        out = []
        for _ in range(n):
            out += self.stmt(depth)
        self.pop()
        return out

    def stmt(self, depth):
        """returns a list of statements (usually one)"""
        r = self.rng
        f = self.fn()
        d = max(1, min(3, depth))
        c = r.random()
        if depth <= 0:
            c = c * 0.45
        if c < 0.14:
            return [self.let_stmt(d)]
        if c < 0.30:
            self.hit("print")
            return [Print(*[self.expr("any", d) for _ in range(r.choice([1, 1, 1, 2, 3]))])]
        if c < 0.40:
            return [self.assign_stmt(d)]
        if c < 0.45:
            e = self.expr("any", d)
            return [ExprStmt(e)]
        if c < 0.47 and self.fn().in_try == 0:
            return [ExprStmt(self.wrong_expr(1))] if r.random() < self.p_err * 4 else [Print(self.expr("num", d))]
        if c < 0.58:
            return [self.if_stmt(depth)]
        if c < 0.66:
            return self.while_stmt(depth)
        if c < 0.74:
            return [self.for_stmt(depth)]
        if c < 0.80:
            return [self.fn_stmt(depth)]
        if c < 0.86 and self.can_try():
            return [self.try_stmt(depth)]
        if c < 0.89 and self.can_break():
            self.hit("break" if r.random() < 0.5 else "continue")
            cond = self.expr("bool", 2)
            return [If(cond, [r.choice(["break", "continue"])])]
        if c < 0.92 and f.kind not in ("module", "init"):
            self.hit("return")
            return [If(self.expr("bool", 2), [Return(self.expr("any", d) if r.random() < 0.8 else None)])]
        if c < 0.95:
            return self.list_ops(d)
        if c < 0.975:
            return self.class_stmts(depth)
        return [Print(self.expr("str", d))]

    def let_stmt(self, d):
        r = self.rng
        kind = r.choice(["num", "num", "str", "bool", "list", "nil", "tuple", "num"])
        e = self.expr(kind, d)
        name = self.fresh("v")
        if kind == "nil" and r.random() < 0.5:
            e = None
        self.declare(name, kind)
        self.hit("let")
        return Let(name, e)

    def assign_stmt(self, d):
        r = self.rng
        vs = [(n, self.kind_of(n)) for n in self.visible(assignable=True)]
        vs = [(n, k) for n, k in vs if k in ("num", "str", "bool", "list", "tuple", "nil")]
        if not vs:
            return self.let_stmt(d)
        n, k = r.choice(vs)
        if k == "list" and n not in self.iterating and r.random() < 0.6:
            i = r.choice([Num(0), Neg(Num(1)), Num(1), Num(7)])
            self.hit("index_assign")
            op = r.choice(["set", "set", "set+", "set*"])
            guard = Bin(">", MCall(Var(n), "len"), Num(1))
            return If(guard, [ExprStmt(Assign(Index(Var(n), r.choice([Num(0), Neg(Num(1)), Num(1)])), self.expr("num", d), op))],
                      [ExprStmt(MCall(Var(n), "push", self.expr("num", d), self.expr("num", d)))]) if r.random() < 0.8 \
                else ExprStmt(Assign(Index(Var(n), i), self.expr("num", d), op))
        if k == "nil":
            return ExprStmt(Assign(Var(n), NIL))
        if k == "num":
            self.hit("assign")
            return ExprStmt(Assign(Var(n), self.expr("num", d), r.choice(["set", "set+", "set-", "set*", "set/"])))
        if k == "str":
            return ExprStmt(Assign(Var(n), self.str_rhs(d), "set") if r.random() < 0.5 else Assign(Var(n), self.str_lit(), "set+"))
        self.hit("assign")
        return ExprStmt(Assign(Var(n), self.expr(k, d)))

    def if_stmt(self, depth):
        r = self.rng
        self.hit("if")
        cond = self.expr(r.choice(["bool", "bool", "any"]), 3)
        then = self.block(depth - 1, r.randint(1, 3))
        els = None
        c = r.random()
        if c < 0.35:
            els = self.block(depth - 1, r.randint(1, 2))
        elif c < 0.55:
            els = [self.if_stmt(depth - 1)]
            self.hit("else_if")
        return If(cond, then, els)

    def while_stmt(self, depth):
        r = self.rng
        self.hit("while")
        i = self.fresh("i")
        n = r.randint(0, 5)
        pre = Let(i, Num(0))
        self.declare(i, "counter")
        cond = Bin("<", Var(i), Num(n))
        if r.random() < 0.3:
            cond = And(cond, self.expr("bool", 1)) if r.random() < 0.5 else Bin(">", Num(n), Var(i))
        self.push("loop")
        self.fn().loops.append(len(self.scopes) - 1)
        body = [ExprStmt(Assign(Var(i), Num(1), "set+"))]
        for _ in range(r.randint(1, 3)):
            body += self.stmt(depth - 1)
        self.fn().loops.pop()
        self.pop()
        return [pre, While(cond, body)]

    def for_stmt(self, depth):
        r = self.rng
        self.hit("for")
        x = self.fresh("x")
        c = r.random()
        iterating = None
        if c < 0.4:
            it, xk = MCall(Num(r.randint(0, 4)), "times"), "loopnum"
        elif c < 0.7:
            ls = self.visible("list")
            if ls and r.random() < 0.5:
                iterating = r.choice(ls)
                it, xk = Var(iterating), "any"
            else:
                it, xk = List_(*[self.expr("num", 1) for _ in range(r.randint(0, 4))]), "loopnum"
        elif c < 0.8:
            it, xk = Tuple_(*[self.leaf("num") for _ in range(r.randint(0, 3))]), "loopnum"
        elif c < 0.9:
            it, xk = self.str_lit(), "loopstr"
        else:
            it, xk = MCall(List_(*[self.num_lit() for _ in range(r.randint(0, 3))]), "iter"), "loopnum"
        # the loop variable lives in a scope around the body (hidden $iter + item), the body is the loop scope
        self.push("block")
        self.scopes[-1].vars[x] = {"loopnum": "num", "loopstr": "str"}.get(xk, "any")
        self.scopes[-1].nlocals += 2
        if iterating:
            self.iterating.add(iterating)
        self.push("loop")
        self.fn().loops.append(len(self.scopes) - 1)
        body = []
        for _ in range(r.randint(1, 3)):
            body += self.stmt(depth - 1)
        self.fn().loops.pop()
        self.pop()
        self.pop()
        if iterating:
            self.iterating.discard(iterating)
        return For(x, it, body)

    def fn_body(self, depth, ctx, params, ret_kind, n):
        """statements of a function body; ends with an explicit or implicit return of `ret_kind`"""
        r = self.rng
        self.fns.append(ctx)
        self.push("fn")
        for p, k in params:
            self.scopes[-1].vars[p] = k
        body = []
        for _ in range(n):
            body += self.stmt(depth - 1)
        if ctx.kind != "init":
            c = r.random()
            if ret_kind is None:
                pass
            elif c < 0.45:
                body.append(Return(self.expr(ret_kind, 2)))
                self.hit("explicit_return")
            elif c < 0.9:
                body.append(IRet(self.expr(ret_kind, 2)))
                self.hit("implicit_return")
            else:
                # if/else both returning
                body.append(If(self.expr("bool", 2), [Return(self.expr(ret_kind, 2))], [Return(self.expr(ret_kind, 1))]))
        self.pop()
        self.fns.pop()
        return body

    def fn_stmt(self, depth):
        r = self.rng
        name = self.fresh("f")
        np_ = r.choice([0, 0, 1, 1, 2, 3])
        pk = [r.choice(["num", "num", "str", "any"]) for _ in range(np_)]
        params = [(self.fresh("a"), k) for k in pk]
        ret = r.choice(["num", "num", "str", "bool", "any", None])
        self.hit("fn")
        # declared before the body so that the name is in scope, but not callable from its own body
        body = self.fn_body(depth, FnCtx("fn", np_), params, ret, r.randint(0, 3))
        self.declare(name, "fn%d" % np_)
        self.funcs[name] = (pk, ret if ret is not None else "nil")
        if r.random() < 0.25:
            # the same thing as a lambda bound by let
            self.hit("lambda_let")
            return Let(name, LambdaBlock([p for p, _ in params], body))
        return Fn(name, [p for p, _ in params], body)

    def try_stmt(self, depth):
        r = self.rng
        self.hit("try")
        f = self.fn()
        f.in_try += 1
        self.push("block")
        body = []
        # D26: an error raised by the VM itself (operator, `raise <non-error>`) overwrites the slot under its operands.  That
        # is only harmless when that slot is discarded by the unwind, so either the try body starts with a local of its
        # own ("guarded") or every statement in it evaluates under a call (print(..) / raise Cls(..)).
        guarded = r.random() < 0.6
        if guarded:
            g = self.fresh("t")
            body.append(Let(g, self.leaf(r.choice(["num", "str", "nil"]))))
            self.declare(g, "guard")
            for _ in range(r.randint(0, 2)):
                body += self.stmt(min(depth - 1, 2))
        else:
            for _ in range(r.randint(0, 2)):
                body.append(Print(self.expr("any", 2)))
        c = r.random()
        if c < 0.55:
            body.append(ExprStmt(self.wrong_expr(1)) if (guarded and r.random() < 0.6) else Print(self.wrong_expr(1)))
        elif c < 0.8:
            cls = r.choice(["Error", "RuntimeError", "TypeError", "ValueError", "IndexError"] + list(self.user_errors()))
            stmt = Raise(Call(Var(cls), self.expr("str", 1)))
            if guarded and r.random() < 0.5:
                stmt = If(self.truthy(1), [stmt])
            elif guarded:
                # D2, third trigger: the scope-exit Drop of the guard local is dead code after `raise`, the straight-line
                # depth pass then carries one slot too many: no further `try` in this function
                f.ternary_seen = True
            body.append(stmt)
            self.hit("raise")
        if r.random() < 0.4:
            body.append(Print(Str("after")))
        self.pop()
        f.in_try -= 1
        catches = []
        e = self.fresh("e")
        f.in_try += 1
        nclauses = r.choice([1, 1, 1, 2, 3])
        for k in range(nclauses):
            last = k == nclauses - 1
            cls = None if (last and r.random() < 0.5) else r.choice(
                ["Error", "RuntimeError", "TypeError", "IndexError", "PropertyError", "ValueError"] + list(self.user_errors()))
            if last and r.random() < 0.75:
                cls = r.choice([None, "Error"])
            self.push("catch")
            self.declare(e, "error")
            cbody = [Print(Str("caught%d" % k), MCall(MCall(Var(e), "cls"), "name"), Prop(Var(e), "message"))]
            if r.random() < 0.3:
                cbody += self.stmt(min(depth - 1, 1))
            self.pop()
            catches.append((e, cls, cbody))
        f.in_try -= 1
        return Try(body, catches)

    def user_errors(self):
        return [n for n, c in self.classes.items() if c.get("error") and self.kind_of(n) is not None]

    def list_ops(self, d):
        r = self.rng
        ls = [n for n in self.visible("list") if n not in self.iterating]
        if not ls:
            name = self.fresh("l")
            init = List_(*[self.expr("num", 1) for _ in range(r.randint(0, 3))])
            self.declare(name, "list")
            return [Let(name, init)]
        n = r.choice(ls)
        self.hit("list_op")
        c = r.random()
        if c < 0.4:
            return [ExprStmt(MCall(Var(n), "push", self.expr(r.choice(["num", "str"]), d)))]
        if c < 0.6:
            return [Print(MCall(Var(n), "pop"), MCall(Var(n), "len"))]
        if c < 0.8:
            return [Print(Var(n), MCall(Var(n), "index", self.expr("num", 1)))]
        return [Print(Index(Var(n), r.choice([Num(0), Neg(Num(1))]))) if r.random() < 0.5 else
                If(Bin(">", MCall(Var(n), "len"), Num(0)), [Print(Index(Var(n), Num(0)))])]

    def class_stmts(self, depth):
        """a small class (fields, methods with self/@, optional superclass, statics) and some uses of it"""
        r = self.rng
        self.hit("class")
        name = self.fresh("K")
        bases = [n for n, c in self.classes.items() if self.kind_of(n) is not None and not c.get("error")]
        sup = r.choice(bases) if bases and r.random() < 0.4 else None
        is_err = sup is None and r.random() < 0.2
        if is_err:
            sup = "Error"
        info = {"fields": [], "methods": {}, "init": 0, "statics": {}, "error": is_err}
        if sup and sup != "Error":
            base = self.classes[sup]
            info["fields"] = list(base["fields"])
            info["methods"] = dict(base["methods"])
            info["init"] = base["init"]
        init = None
        # the class name is visible inside its own methods
        self.declare(name, "class")
        self.classes[name] = info
        if not is_err and r.random() < 0.8:
            np_ = r.choice([0, 1, 2])
            params = [(self.fresh("a"), "num") for _ in range(np_)]
            flds = [self.fresh("fld") for _ in range(r.randint(1, 3))]
            self.fns.append(FnCtx("init", np_))
            self.push("fn")
            for p, k in params:
                self.scopes[-1].vars[p] = k
            body = []
            if sup and sup != "Error":
                body.append(ExprStmt(Call(("super", "init"), *[self.expr("num", 1) for _ in range(self.classes[sup]["init"])])))
                self.hit("super_init")
            for fl in flds:
                body.append(ExprStmt(Assign(Prop(SELF, fl), self.expr("num", 2))))
            if r.random() < 0.3:
                body += self.stmt(1)
            self.pop()
            self.fns.pop()
            init = ([p for p, _ in params], body)
            info["fields"] = info["fields"] + flds
            info["init"] = np_
        methods = []
        for _ in range(r.randint(0, 3)):
            mname = self.fresh("m") if not info["methods"] or r.random() < 0.6 else r.choice(list(info["methods"]))
            np_ = info["methods"].get(mname, r.choice([0, 0, 1, 2]))
            params = [(self.fresh("a"), "num") for _ in range(np_)]
            self.fns.append(FnCtx("method", np_))
            self.push("fn")
            for p, k in params:
                self.scopes[-1].vars[p] = k
            body = []
            for _ in range(r.randint(0, 2)):
                body += self.stmt(min(depth - 1, 2))
            if info["fields"] and r.random() < 0.7:
                fl = r.choice(info["fields"])
                body.append(ExprStmt(Assign(Prop(SELF, fl), self.expr("num", 1), r.choice(["set", "set+", "set*"]))))
                self.hit("field_assign")
            ret = Prop(SELF, r.choice(info["fields"])) if info["fields"] and r.random() < 0.6 else self.expr("num", 2)
            if sup and sup != "Error" and mname in self.classes[sup]["methods"] and r.random() < 0.7:
                ret = Bin("+", Call(("super", mname), *[self.expr("num", 1) for _ in range(np_)]), ret)
                self.hit("super_call")
            body.append(IRet(ret) if r.random() < 0.5 else Return(ret))
            self.pop()
            self.fns.pop()
            methods = [m for m in methods if m[0] != mname] + [(mname, [p for p, _ in params], body)]
            info["methods"][mname] = np_
        statics = []
        if r.random() < 0.3:
            sname = self.fresh("s")
            self.fns.append(FnCtx("static", 0))
            self.push("fn")
            sb = [IRet(self.expr("num", 2))]
            self.pop()
            self.fns.pop()
            statics.append((sname, [], sb))
            info["statics"][sname] = 0
        out = [Class(name, sup, init, methods, statics)]
        if is_err:
            return out
        # uses
        o = self.fresh("o")
        out.append(Let(o, Call(Var(name), *[self.expr("num", 1) for _ in range(info["init"])])))
        self.declare(o, "inst:" + name)
        for mname, np_ in list(info["methods"].items())[:3]:
            out.append(Print(MCall(Var(o), mname, *[self.expr("num", 1) for _ in range(np_)])))
            self.hit("method_call")
        if info["fields"]:
            fl = r.choice(info["fields"])
            out.append(Print(Prop(Var(o), fl)))
            if True:      # (D25, compound property assignment on a non-self receiver inside a method, is repaired: generated everywhere)
                out.append(ExprStmt(Assign(Prop(Var(o), fl), self.expr("num", 1), r.choice(["set", "set+", "set-"]))))
            else:
                out.append(ExprStmt(Assign(Prop(Var(o), fl), self.expr("num", 1))))
            out.append(Print(Prop(Var(o), fl)))
        for sname in info["statics"]:
            out.append(Print(MCall(Var(name), sname)))
        if info["methods"] and r.random() < 0.5:
            mname, np_ = r.choice(list(info["methods"].items()))
            b = self.fresh("bm")
            out.append(Let(b, Prop(Var(o), mname)))
            self.declare(b, "bound")
            out.append(Print(Call(Var(b), *[self.expr("num", 1) for _ in range(np_)])))
            self.hit("bound_method")
        return out

    # -- whole bodies ------------------------------------------------------------------------
    def body(self, nstmts, final_wrong=False):
        """a statement list that is valid in all four positions (no `return`/`self` at its top level; its lets are
        counted as locals, which is what they are in three of the four positions)"""
        self.fns.append(FnCtx("module", 0))
        self.push("fn")
        out = []
        for _ in range(nstmts):
            out += self.stmt(self.max_depth - 1)
        if final_wrong:
            out.append(ExprStmt(self.wrong_expr(1)))
        self.pop()
        self.fns.pop()
        return out


# ---------------------------------------------------------------------------------------------
# operand-kind matrix

PRELUDE_NAMES = {"list": "ql", "map": "qm", "tuple": "qt", "fn": "qf", "class": "QC", "inst": "qi", "method": "qb"}


def prelude():
    """declarations of one sample value per heap kind (placed at the start of the body, in any position)"""
    return [
        Let("ql", List_(Num(1), Str("s"))),
        Let("qm", Map_((Str("k"), Num(1)))),
        Let("qt", Tuple_(Num(1), Num(2))),
        Fn("qf", ["p"], [Return(Var("p"))]),
        Fn("qg", [], [Return(NIL)]),
        Class("QC", None, ([], [ExprStmt(Assign(Prop(SELF, "f"), Num(1)))]),
              [("m", [], [Return(Num(1))]), ("two", ["a", "b"], [IRet(Bin("+", Var("a"), Var("b")))])], []),
        Class("QD", None, (["a", "b"], [ExprStmt(Assign(Prop(SELF, "s"), Bin("-", Var("a"), Var("b"))))]), [], []),
        Let("qi", Call(Var("QC"))),
        Let("qb", Prop(Var("qi"), "m")),
    ]


def operand(kind, rng):
    if kind == "nil":
        return NIL
    if kind == "true":
        return TRUE
    if kind == "false":
        return FALSE
    if kind == "num":
        return rng.choice([Num(0), Num(1), Num(2), Num(2.5), Neg(Num(3)), Num(10), Num(0.1), Num(1e15)])
    if kind == "numx":
        return rng.choice([L.NEG_ZERO, L.INF, Neg(L.INF), L.NAN, Num(0), Bin("/", Num(1), Num(3))])
    if kind == "str":
        return Str(rng.choice(STRS))
    if kind in ("list", "map", "tuple"):
        if rng.random() < 0.3:
            return {"list": List_(Num(1)), "map": Map_(), "tuple": Tuple_(Num(1), Str("x"))}[kind]
        return Var(PRELUDE_NAMES[kind])
    if kind == "fn":
        return rng.choice([Var("qf"), Var("qg"), Var("print")])
    if kind == "method":
        return rng.choice([Var("qb"), Prop(Var("qi"), "m"), Prop(Var("ql"), "push")])
    return Var(PRELUDE_NAMES[kind])


MATRIX_OPS = ALL_BIN + ["and", "or"]
CALL_TARGETS = ["qf", "qg", "QC", "QD", "qi.m", "qb", "lambda2", "qi.two", "ql.len", "nil", "num", "str"]


def matrix_cells():
    cells = []
    for op in MATRIX_OPS:
        for a in KINDS:
            for b in KINDS:
                cells.append((op, a, b))
    for op in ("not", "neg"):
        for a in KINDS:
            cells.append((op, a, None))
    # calls with every argument count 0..3 (arity check of functions, lambdas, methods, bound methods, initializers, natives)
    for target in CALL_TARGETS:
        for k in range(4):
            cells.append(("call", target, k))
    # the same operand on both sides (equal strings / numbers, identical objects)
    for op in MATRIX_OPS:
        for a in ("num", "numx", "str", "list", "tuple", "fn", "inst", "method", "class"):
            cells.append((op, a, "="))
    return cells


def matrix_stmt(cell, rng, caught=True, nested=False):
    """one statement exercising one matrix cell: prints the value, or (caught) the error class and message"""
    op, ka, kb = cell
    if op == "call":
        f = {"qf": Var("qf"), "qg": Var("qg"), "QC": Var("QC"), "QD": Var("QD"), "qi.m": Prop(Var("qi"), "m"), "qb": Var("qb"),
             "lambda2": Lambda(["x", "y"], Bin("-", Var("x"), Var("y"))), "qi.two": Prop(Var("qi"), "two"),
             "ql.len": Prop(Var("ql"), "len"), "nil": NIL, "num": Num(3), "str": Str("s")}[ka]
        e = Call(f, *[Num(rng.choice([1, 2, 5, 10])) for _ in range(kb)])
        if ka in ("QC", "QD"):
            e = Prop(e, "s" if ka == "QD" else "f")
        return Try([Print(e)], [("e", None, [Print(MCall(MCall(Var("e"), "cls"), "name"), Prop(Var("e"), "message"))])]) \
            if caught else Print(e)
    a = operand(ka, rng)
    if kb is None:
        e = (op, a)
    elif kb == "=":
        e = (op, a, a)
    else:
        e = (op, a, operand(kb, rng))
    if nested:
        # the same operation under more structure: inside an arithmetic-free context that keeps the value
        c = rng.random()
        if c < 0.3:
            e = Or(FALSE, e)
        elif c < 0.6:
            e = Call(Lambda([], e))
        else:
            e = Index(List_(e), Num(0))
    if not caught:
        return Print(e)
    return Try([Print(e)], [("e", None, [Print(MCall(MCall(Var("e"), "cls"), "name"), Prop(Var("e"), "message"))])])


def wrap(body, position):
    """place a statement list at module level, in a function, in a method, or in a lambda"""
    if position == "module":
        return list(body)
    if position == "fn":
        return [Fn("main", [], body), ExprStmt(Call(Var("main")))]
    if position == "method":
        return [Class("Host", None, None, [("run", [], body)], []), ExprStmt(MCall(Call(Var("Host")), "run"))]
    if position == "lambda":
        return [Let("main", LambdaBlock([], body)), ExprStmt(Call(Var("main")))]
    raise ValueError(position)


POSITIONS = ["module", "fn", "method", "lambda"]
