"""LayRef — Python side of the reference interpreter (DESIGN.md §4.2).

One AST, three uses:

* ``to_sexp(program)``      → the S-expression line read by the Lean driver ``drv_layref`` (the Spec/oracle);
* ``to_laythe(program, rng, ...)`` → Laythe source text of the *same* AST in a randomly chosen layout
  (whitespace, newlines, comments, redundant or minimal parentheses, `@x` vs `self.x`, quote style, `else if`);
* ``run_layref(programs)``  → outcomes of the oracle; ``run_impl(sources, ...)`` → outcomes of the real VM;
  ``compare(spec, impl)`` → None or a description of the disagreement.

All randomness comes from the ``rng`` (a ``random.Random``) handed in by the caller.

AST (plain tuples / lists / strings, so that cases are JSON-serialisable and shrinkable)
-----------------------------------------------------------------------------------------
expressions
    'nil' 'true' 'false' 'self'
    ('num', float)                 number literal (non-negative, finite; use ('neg', ..) for a sign,
                                   ('/', num 1, num 0) for inf, ('/', num 0, num 0) for NaN)
    ('str', s)                     string literal; s over [A-Za-z0-9 _.,:;!?+*/=<>()-] (no quotes, `$`, backslash)
    ('interp', [part, ...])        "..${e}.." — part is ('lit', s) or an expression
    ('var', x)  ('super', m)
    ('not', e)  ('neg', e)
    (op, a, b)                     op in + - * / < <= > >= == !=
    ('and', a, b) ('or', a, b)     `&&` / `||` (the parser makes them RIGHT associative)
    ('tern', c, t, e)
    (setop, target, e)             setop in set set+ set- set* set/ ; target = ('var', x) | ('prop', o, n) | ('index', o, i)
    ('call', f, [args])  ('prop', o, name)  ('index', o, i)        a method call is ('call', ('prop', o, m), args)
    ('list', [e...]) ('tuple', [e...]) ('map', [(k, v), ...])
    ('lambda', [params], ('expr', e))   |p| e
    ('lambda', [params], ('block', [stmt...]))   |p| { ... }
statements
    ('let', x, e_or_None)  ('fn', name, [params], [stmt...])
    ('class', name, super_or_None, init_or_None, [method...], [static...])   init = ([params], [stmt...]);  method = (name, [params], [stmt...])
    ('expr', e)  ('iret', e)  (implicit return: last statement of a fn/method/static/block-lambda body, not of init)
    ('if', c, [then...], else_or_None)  ('while', c, [body...])  ('for', x, e, [body...])
    'break' 'continue' ('return', e_or_None)  ('try', [body...], [(x, cls_or_None, [stmt...]), ...])  ('raise', e)
program = [stmt...]

Supported by the Lean interpreter (lean/LaytheVerif/Model/LayRef/Eval.lean)
----------------------------------------------------------------------------
everything above, with: module-level lets/fns/classes as late-bound module symbols, locals as shared cells
(closures capture cells), classes (field sets, inherited fields/methods/init, static methods not inherited, `super.m`,
bound methods, fields shadow methods), errors as instances of the builtin error classes (Error + TypeError FormatError
ValueError IndexError DeadLockError ChannelError SyntaxError ImportError ExportError RuntimeError PropertyError
MethodNotFoundError KeyError AssertError; all direct subclasses of Error; user classes may derive from them),
try/catch with class filters (first matching clause; no match re-raises; a filter that is not a subclass of Error raises
TypeError), `raise` of a non-error raises RuntimeError, frame limit 255 ("Stack overflow."), a step budget ("fuel").
natives: print (variadic), assert, assertEq, Error(msg[, inner]); x.str(), x.cls() (not on classes), C.name(), C.superCls();
Number.times; String len [] iter; List len push pop [] []= index has iter; Tuple len [] iter; Map len [] []= has get;
Iter next current iter — with the arity/kind checks and messages of `Native::check_if_valid_call`.
Exact `print`/`str()` formats; numbers exactly as Rust `{}` prints an f64 (shortest round trip, ties up, no exponent).

Language facts the interpreter encodes (read off the pinned code, all confirmed by the differential stream):
* `&&`/`||` are right associative in the parser; both yield an operand; only nil and false are falsey.
* `a[i] = v` evaluates a, v, i (in that order); `a[i] op= v` evaluates a, i, v and then i AGAIN; `x op= e` reads x before e.
* `o.m(args)`: o, the property lookup, then the arguments; an instance field shadows a method of the same name.
* one variable per `for` loop (closures made in different iterations share it); a `while` body's lets are fresh each time.
* the fields of a class are those assigned as `self.x = ..`/`@x = ..` (or compound) textually inside `init` (any nesting
  except nested functions) plus the inherited ones; other property writes raise PropertyError; `(self).x = ..` does not count.
* `init` always returns the instance; a class without init accepts only zero arguments ("Expected 0 arguments but got n").
* a lambda's name (used in arity errors) is the name of the innermost `let` whose initializer contains it, else "lambda".
* error texts: `+` "Operands must be two numbers or two strings."; `- * /` and `<` "Operands must be numbers.";
  `<= > >=` "Operands must be numbers or strings."; unary `-` "Operand must be a number."; calls "X is not callable.";
  arity "f expected n argument(s) but received m."; all RuntimeError.
NOT modelled (the driver answers status "unsupported"): channels/fibers, imports/exports, `cls()` of a class, `print()` with
no arguments, str() methods returning non-strings, reading an undefined variable.  Deliberately unspecified: the identity
of capture-free function values created by the same expression twice (the VM shares one constant), so do not compare those
with `==`; whether a function prints as `<Fun ..>` or `<Closure ..>` (both are masked to `<Fun ADDR>`); map print order
for maps with more than one entry (never print those); printing a cyclic list (the VM overflows the host stack).
Post-repair semantics are used where DESIGN §6 plans a fix: an undefined property/method raises PropertyError (D20), so
generators should only trigger it through a zero-argument call `x.foo()` until D20 is repaired.
"""
import json
import os
import re
import resource
import struct
import subprocess

from . import common

BINOPS = ["+", "-", "*", "/", "<", "<=", ">", ">=", "==", "!="]
SETOPS = {"set": "=", "set+": "+=", "set-": "-=", "set*": "*=", "set/": "/="}

# ---------------------------------------------------------------------------------------------
# constructors (thin; the AST is plain data)

NIL, TRUE, FALSE, SELF = "nil", "true", "false", "self"


def Num(x): return ("num", float(x))
def Str(s): return ("str", s)
def Var(x): return ("var", x)
def Neg(e): return ("neg", e)
def Not(e): return ("not", e)
def Bin(op, a, b): return (op, a, b)
def And(a, b): return ("and", a, b)
def Or(a, b): return ("or", a, b)
def Tern(c, t, e): return ("tern", c, t, e)
def Assign(target, e, op="set"): return (op, target, e)
def Call(f, *args): return ("call", f, list(args))
def Prop(o, name): return ("prop", o, name)
def Index(o, i): return ("index", o, i)
def MCall(o, name, *args): return ("call", ("prop", o, name), list(args))
def List_(*items): return ("list", list(items))
def Tuple_(*items): return ("tuple", list(items))
def Map_(*entries): return ("map", [tuple(e) for e in entries])
def Interp(*parts): return ("interp", [("lit", p) if isinstance(p, str) and p not in (NIL, TRUE, FALSE, SELF) else p for p in parts])
def Lambda(params, body_expr): return ("lambda", list(params), ("expr", body_expr))
def LambdaBlock(params, stmts): return ("lambda", list(params), ("block", list(stmts)))
def Let(x, e=None): return ("let", x, e)
def Fn(name, params, body): return ("fn", name, list(params), list(body))
def Class(name, sup=None, init=None, methods=(), statics=()): return ("class", name, sup, init, list(methods), list(statics))
def ExprStmt(e): return ("expr", e)
def IRet(e): return ("iret", e)
def If(c, then, els=None): return ("if", c, list(then), None if els is None else list(els))
def While(c, body): return ("while", c, list(body))
def For(x, e, body): return ("for", x, e, list(body))
def Return(e=None): return ("return", e)
def Try(body, catches): return ("try", list(body), [tuple(c) for c in catches])
def Raise(e): return ("raise", e)
def Print(*args): return ("expr", ("call", ("var", "print"), list(args)))
INF = ("/", ("num", 1.0), ("num", 0.0))
NAN = ("/", ("num", 0.0), ("num", 0.0))
NEG_ZERO = ("neg", ("num", 0.0))

# ---------------------------------------------------------------------------------------------
# S-expressions


def _q(s):
    out = ['"']
    for c in s:
        if c == '"':
            out.append('\\"')
        elif c == "\\":
            out.append("\\\\")
        elif c == "\n":
            out.append("\\n")
        elif c == "\t":
            out.append("\\t")
        elif c == "\r":
            out.append("\\r")
        elif ord(c) < 0x20 or ord(c) > 0x7e:
            out.append("\\u%x;" % ord(c))
        else:
            out.append(c)
    out.append('"')
    return "".join(out)


def float_bits(x):
    return struct.unpack("<Q", struct.pack("<d", x))[0]


def sx_expr(e):
    if isinstance(e, str):
        return e
    k = e[0]
    if k == "num":
        return "(num %d)" % float_bits(e[1])
    if k == "str":
        return "(str %s)" % _q(e[1])
    if k == "lit":
        return "(lit %s)" % _q(e[1])
    if k == "interp":
        return "(interp %s)" % " ".join(sx_expr(p) for p in e[1])
    if k in ("var", "super"):
        return "(%s %s)" % (k, e[1])
    if k in ("not", "neg"):
        return "(%s %s)" % (k, sx_expr(e[1]))
    if k in BINOPS or k in ("and", "or") or k in SETOPS:
        return "(%s %s %s)" % (k, sx_expr(e[1]), sx_expr(e[2]))
    if k == "tern":
        return "(tern %s %s %s)" % (sx_expr(e[1]), sx_expr(e[2]), sx_expr(e[3]))
    if k == "call":
        return "(call %s)" % " ".join([sx_expr(e[1])] + [sx_expr(a) for a in e[2]])
    if k == "prop":
        return "(prop %s %s)" % (sx_expr(e[1]), e[2])
    if k == "index":
        return "(index %s %s)" % (sx_expr(e[1]), sx_expr(e[2]))
    if k in ("list", "tuple"):
        return "(%s)" % " ".join([k] + [sx_expr(a) for a in e[1]])
    if k == "map":
        return "(%s)" % " ".join(["map"] + ["(%s %s)" % (sx_expr(a), sx_expr(b)) for a, b in e[1]])
    if k == "lambda":
        body = e[2]
        if body[0] == "expr":
            return "(lambda (%s) (expr %s))" % (" ".join(e[1]), sx_expr(body[1]))
        return "(lambda (%s) (%s))" % (" ".join(e[1]), " ".join(["block"] + [sx_stmt(s) for s in body[1]]))
    raise ValueError("bad expr %r" % (e,))


def _sx_method(m):
    return "(%s)" % " ".join([m[0], "(%s)" % " ".join(m[1])] + [sx_stmt(s) for s in m[2]])


def sx_stmt(s):
    if isinstance(s, str):
        return s
    k = s[0]
    if k == "let":
        return "(let %s)" % s[1] if s[2] is None else "(let %s %s)" % (s[1], sx_expr(s[2]))
    if k == "fn":
        return "(%s)" % " ".join(["fn", s[1], "(%s)" % " ".join(s[2])] + [sx_stmt(x) for x in s[3]])
    if k == "class":
        _, name, sup, init, methods, statics = s
        ini = "-" if init is None else "(%s)" % " ".join(["init", "(%s)" % " ".join(init[0])] + [sx_stmt(x) for x in init[1]])
        return "(class %s %s %s (%s) (%s))" % (name, sup or "-", ini, " ".join(["methods"] + [_sx_method(m) for m in methods]),
                                               " ".join(["statics"] + [_sx_method(m) for m in statics]))
    if k in ("expr", "iret", "raise"):
        return "(%s %s)" % (k, sx_expr(s[1]))
    if k == "if":
        t = "(%s)" % " ".join(sx_stmt(x) for x in s[2])
        if s[3] is None:
            return "(if %s %s)" % (sx_expr(s[1]), t)
        return "(if %s %s (%s))" % (sx_expr(s[1]), t, " ".join(sx_stmt(x) for x in s[3]))
    if k == "while":
        return "(%s)" % " ".join(["while", sx_expr(s[1])] + [sx_stmt(x) for x in s[2]])
    if k == "for":
        return "(%s)" % " ".join(["for", s[1], sx_expr(s[2])] + [sx_stmt(x) for x in s[3]])
    if k == "return":
        return "(return)" if s[1] is None else "(return %s)" % sx_expr(s[1])
    if k == "try":
        cs = ["(%s)" % " ".join(["catch", x, c or "-"] + [sx_stmt(y) for y in body]) for x, c, body in s[2]]
        return "(try (%s) %s)" % (" ".join(sx_stmt(x) for x in s[1]), " ".join(cs))
    raise ValueError("bad stmt %r" % (s,))


def to_sexp(program):
    return "(%s)" % " ".join(["program"] + [sx_stmt(s) for s in program])


# ---------------------------------------------------------------------------------------------
# Laythe source rendering

P_ASSIGN, P_TERNARY, P_OR, P_AND, P_EQ, P_CMP, P_TERM, P_FACTOR, P_UNARY, P_CALL, P_PRIMARY = range(1, 12)
BIN_PREC = {"==": P_EQ, "!=": P_EQ, "<": P_CMP, "<=": P_CMP, ">": P_CMP, ">=": P_CMP, "+": P_TERM, "-": P_TERM,
            "*": P_FACTOR, "/": P_FACTOR}


def prec_of(e):
    """Binding level of the outermost construct of `e` (Precedence of parser.rs, 1 = Assignment … 11 = Primary)."""
    if isinstance(e, str):
        return P_PRIMARY
    k = e[0]
    if k in BIN_PREC:
        return BIN_PREC[k]
    if k == "and":
        return P_AND
    if k == "or":
        return P_OR
    if k == "tern":
        return P_TERNARY
    if k in SETOPS or k == "lambda":
        return P_ASSIGN
    if k in ("not", "neg"):
        return P_UNARY
    if k in ("call", "prop", "index"):
        return P_CALL
    return P_PRIMARY


def fmt_num(x, rng=None):
    """A literal the scanner reads back as exactly `x` (x >= 0, finite): digits, optionally `.digits`, never an exponent."""
    if x != x or x in (float("inf"), float("-inf")) or x < 0:
        raise ValueError("number literal %r is not writable (use neg / division)" % x)
    if x == int(x):
        s = "%d" % int(x)
        if rng is not None and rng.random() < 0.15:
            s += ".0"
        return s
    s = repr(x)
    if "e" in s or "E" in s:
        from decimal import Decimal
        s = format(Decimal(s), "f")
    return s


class Style:
    """Layout choices for one rendering.  `parens`: 'min' | 'full' | 'rand';  `space`: 'compact' | 'wide' | 'dense'."""

    def __init__(self, rng, parens="min", space="compact", at_sugar=None, quote=None, elseif=None, comments=None):
        self.rng = rng
        self.parens = parens
        self.space = space
        self.at_sugar = (rng.random() < 0.5) if at_sugar is None else at_sugar
        self.quote = quote
        self.elseif = (rng.random() < 0.7) if elseif is None else elseif
        self.comments = (space == "wide" and rng.random() < 0.5) if comments is None else comments
        self.indent = 0

    def sp(self):
        """mandatory separator"""
        if self.space != "wide":
            return " "
        r = self.rng.random()
        if r < 0.55:
            return " "
        if r < 0.7:
            return "  "
        if r < 0.8:
            return "\t"
        if r < 0.93 or not self.comments:
            return "\n" + " " * self.rng.randint(0, 8)
        return " // %s\n" % self.rng.choice(["x", "note: a + b", "}", "\"quoted\"", "if while", ""])

    def osp(self):
        """optional separator"""
        if self.space == "compact":
            return ""
        if self.space == "dense":
            return ""
        return self.sp() if self.rng.random() < 0.5 else ""

    def opsp(self):
        """separator around a binary operator"""
        if self.space == "dense":
            return ""
        return self.sp()

    def nl(self):
        if self.space == "dense":
            return " " if self.rng.random() < 0.7 else "\n"
        if self.space == "wide":
            return self.rng.choice(["\n", "\n\n", " ", "\n  ", "\n\t"]) + " " * self.rng.randint(0, 4)
        return "\n" + "  " * self.indent


def _wrap(st, text):
    return "(" + st.osp() + text + st.osp() + ")"


def render_expr(e, st, minp=P_ASSIGN):
    """Text of `e` for a position that requires binding level >= minp."""
    text = _render(e, st)
    p = prec_of(e)
    need = p < minp
    if not need and p != P_PRIMARY:
        if st.parens == "full":
            need = True
        elif st.parens == "rand" and st.rng.random() < 0.3:
            need = True
    elif not need and st.parens == "rand" and e != SELF and st.rng.random() < 0.08:
        need = True     # (`(self).x = v` in an initializer does not declare the field: fields are found syntactically)
    if need:
        text = _wrap(st, text)
        if st.parens == "rand" and st.rng.random() < 0.1:
            text = _wrap(st, text)
    return text


def _quote(st, s, inner=False):
    q = st.quote or st.rng.choice(["'", '"'])
    if inner:
        q = inner
    return q + s + q


def _join_ops(st, left, op, right):
    a, b = st.opsp(), st.opsp()
    # lexical hazards when nothing separates the tokens: `<-`, `->`, `--`?, `//`, `<=`/`==` followed by `=` cannot occur
    if a == "" and (left[-1:] + op[:1]) in ("//", "<-", "->", "||", "&&", "==", "!=", "<=", ">=", "--"):
        a = " "
    if a == "" and op[:1] in "!?" and (left[-1:].isalnum() or left[-1:] == "_"):
        a = " "     # an identifier may end in one `!` or `?`
    if b == "" and (op[-1:] + right[:1]) in ("//", "<-", "->", "||", "&&", "==", "!=", "<=", ">=", "--", "-="):
        b = " "
    if b == "" and op[-1:] in "<>-/|&=!" and right[:1] in "-=>|&/<":
        b = " "
    return left + a + op + b + right


def _args(st, items, close):
    parts = [render_expr(a, st) for a in items]
    sep = "," + (st.sp() if st.space != "dense" else "")
    s = sep.join(parts)
    if parts and st.space == "wide" and st.rng.random() < 0.15 and close != ")":
        s += ","
    return s


def _target(t, st):
    k = t[0]
    if k == "var":
        return t[1]
    if k == "prop":
        if t[1] == SELF and st.at_sugar:
            return "@" + t[2]
        return render_expr(t[1], st, P_CALL) + st.osp() + "." + st.osp() + t[2]
    if k == "index":
        return render_expr(t[1], st, P_CALL) + "[" + st.osp() + render_expr(t[2], st) + st.osp() + "]"
    raise ValueError("bad assignment target %r" % (t,))


def _render(e, st):
    if isinstance(e, str):
        return e
    k = e[0]
    if k == "num":
        return fmt_num(e[1], st.rng)
    if k == "str":
        return _quote(st, e[1])
    if k == "interp":
        q = st.quote or st.rng.choice(["'", '"'])
        inner = Style(st.rng, parens=st.parens, space="compact", at_sugar=st.at_sugar, quote="'" if q == '"' else '"',
                      elseif=st.elseif, comments=False)
        out = [q]
        for p in e[1]:
            if p[0] == "lit":
                out.append(p[1])
            else:
                out.append("${" + render_expr(p, inner) + "}")
        out.append(q)
        return "".join(out)
    if k == "var":
        return e[1]
    if k == "super":
        return "super" + st.osp() + "." + st.osp() + e[1]
    if k in ("not", "neg"):
        op = "!" if k == "not" else "-"
        inner = render_expr(e[1], st, P_UNARY)
        if inner[:1] == "-" and op == "-" or (op == "-" and inner[:1] == ">"):
            return op + " " + inner
        return op + st.osp() + inner if not (op == "-" and st.space == "wide") else op + inner
    if k in BIN_PREC:
        p = BIN_PREC[k]
        return _join_ops(st, render_expr(e[1], st, p), k, render_expr(e[2], st, p + 1))
    if k == "and":
        return _join_ops(st, render_expr(e[1], st, P_AND + 1), "&&", render_expr(e[2], st, P_AND))
    if k == "or":
        return _join_ops(st, render_expr(e[1], st, P_OR + 1), "||", render_expr(e[2], st, P_OR))
    if k == "tern":
        return (render_expr(e[1], st, P_OR) + st.sp() + "?" + st.sp() + render_expr(e[2], st, P_ASSIGN) + st.sp() + ":" + st.sp()
                + render_expr(e[3], st, P_ASSIGN))
    if k in SETOPS:
        return _target(e[1], st) + st.sp() + SETOPS[k] + st.sp() + render_expr(e[2], st, P_ASSIGN)
    if k == "call":
        f = e[1]
        return render_expr(f, st, P_CALL) + "(" + st.osp() + _args(st, e[2], ")") + st.osp() + ")"
    if k == "prop":
        if e[1] == SELF and st.at_sugar:
            return "@" + e[2]
        return render_expr(e[1], st, P_CALL) + st.osp() + "." + st.osp() + e[2]
    if k == "index":
        return render_expr(e[1], st, P_CALL) + "[" + st.osp() + render_expr(e[2], st) + st.osp() + "]"
    if k == "list":
        return "[" + st.osp() + _args(st, e[1], "]") + st.osp() + "]"
    if k == "tuple":
        if len(e[1]) == 0:
            return "(" + st.osp() + ")"
        if len(e[1]) == 1:
            return "(" + st.osp() + render_expr(e[1][0], st) + st.osp() + "," + st.osp() + ")"
        return "(" + st.osp() + _args(st, e[1], ")") + st.osp() + ")"
    if k == "map":
        parts = [render_expr(a, st) + st.osp() + ":" + st.sp() + render_expr(b, st) for a, b in e[1]]
        return "{" + st.osp() + ("," + st.sp()).join(parts) + st.osp() + "}"
    if k == "lambda":
        params = "|" + ("," + st.sp()).join(e[1]) + "|" if e[1] else ("||" if st.rng.random() < 0.7 else "| |")
        body = e[2]
        if body[0] == "expr":
            t = render_expr(body[1], st, P_ASSIGN)
            if t.lstrip()[:1] == "{":
                t = "(" + t + ")"
            return params + st.sp() + t
        return params + st.sp() + _block(body[1], st)
    raise ValueError("bad expr %r" % (e,))


def _block(stmts, st):
    st.indent += 1
    inner = "".join(st.nl() + render_stmt(s, st) for s in stmts)
    st.indent -= 1
    return "{" + inner + st.nl() + "}"


def _fun(name, params, body, st):
    return name + st.osp() + "(" + st.osp() + ("," + st.sp()).join(params) + st.osp() + ")" + st.sp() + _block(body, st)


def render_stmt(s, st):
    if isinstance(s, str):
        return s + st.osp() + ";"
    k = s[0]
    semi = st.osp() + ";"
    if k == "let":
        if s[2] is None:
            return "let" + st.sp() + s[1] + semi
        return "let" + st.sp() + s[1] + st.sp() + "=" + st.sp() + render_expr(s[2], st) + semi
    if k == "fn":
        return "fn" + st.sp() + _fun(s[1], s[2], s[3], st)
    if k == "class":
        _, name, sup, init, methods, statics = s
        head = "class" + st.sp() + name + ((st.sp() + ":" + st.sp() + sup) if sup else "") + st.sp() + "{"
        members = []
        if init is not None:
            members.append(_fun("init", init[0], init[1], st))
        members += [_fun(m[0], m[1], m[2], st) for m in methods]
        members += ["static" + st.sp() + _fun(m[0], m[1], m[2], st) for m in statics]
        if st.space == "wide":          # member order is free in the source
            st.rng.shuffle(members)
        st.indent += 1
        body = "".join(st.nl() + m for m in members)
        st.indent -= 1
        return head + body + st.nl() + "}"
    if k == "expr":
        return render_expr(s[1], st) + semi
    if k == "iret":
        return render_expr(s[1], st)
    if k == "raise":
        return "raise" + st.sp() + render_expr(s[1], st) + semi
    if k == "if":
        out = "if" + st.sp() + render_expr(s[1], st) + st.sp() + _block(s[2], st)
        if s[3] is not None:
            els = s[3]
            if len(els) == 1 and not isinstance(els[0], str) and els[0][0] == "if" and st.elseif:
                out += st.sp() + "else" + st.sp() + render_stmt(els[0], st)
            else:
                out += st.sp() + "else" + st.sp() + _block(els, st)
        return out
    if k == "while":
        return "while" + st.sp() + render_expr(s[1], st) + st.sp() + _block(s[2], st)
    if k == "for":
        return "for" + st.sp() + s[1] + st.sp() + "in" + st.sp() + render_expr(s[2], st) + st.sp() + _block(s[3], st)
    if k == "return":
        if s[1] is None:
            return "return" + semi
        return "return" + st.sp() + render_expr(s[1], st) + semi
    if k == "try":
        out = "try" + st.sp() + _block(s[1], st)
        for x, c, body in s[2]:
            out += st.sp() + "catch" + st.sp() + x + ((st.osp() + ":" + st.sp() + c) if c else "") + st.sp() + _block(body, st)
        return out
    raise ValueError("bad stmt %r" % (s,))


LAYOUTS = [("min", "compact"), ("full", "compact"), ("rand", "wide"), ("min", "wide"), ("min", "dense"), ("rand", "compact"),
           ("full", "wide")]


def to_laythe(program, rng, parens=None, space=None, **kw):
    """Laythe source for `program`.  `parens`/`space` default to a random choice from LAYOUTS."""
    if parens is None or space is None:
        p, s = rng.choice(LAYOUTS)
        parens = parens or p
        space = space or s
    st = Style(rng, parens=parens, space=space, **kw)
    out = "".join(render_stmt(s, st) + st.nl() for s in program)
    return out if out.endswith("\n") else out + "\n"


# ---------------------------------------------------------------------------------------------
# running both sides

DRV_LAYREF = os.path.join(common.LEAN, ".lake", "build", "bin", "drv_layref")


def _big_stack():
    try:
        resource.setrlimit(resource.RLIMIT_STACK, (resource.RLIM_INFINITY, resource.RLIM_INFINITY))
    except (ValueError, OSError):
        try:
            resource.setrlimit(resource.RLIMIT_STACK, (1 << 30, 1 << 30))
        except (ValueError, OSError):
            pass


def _run_layref_shard(args):
    lines, fuel = args
    out = []
    i = 0
    while i < len(lines):
        chunk = lines[i:]
        p = subprocess.run([DRV_LAYREF, str(fuel)], input="".join(l + "\n" for l in chunk), stdout=subprocess.PIPE,
                           stderr=subprocess.PIPE, text=True, preexec_fn=_big_stack)
        got = []
        for l in p.stdout.split("\n"):
            if not l.strip():
                continue
            try:
                got.append(json.loads(l))
            except ValueError:
                break
        out.extend(got)
        i += len(got)
        if len(got) < len(chunk):
            out.append({"status": "driver-crash", "message": (p.stderr or "")[-300:], "stdout": ""})
            i += 1
    return out


def run_layref(programs, fuel=400000, jobs=None):
    """Evaluate programs (ASTs) with the Lean reference interpreter.  Returns one dict per program:
    {"status": "ok" | "runtime-error:<Class>" | "fuel" | "unsupported" | "bad-input" | "driver-crash", "message", "ticks", "stdout"}."""
    import concurrent.futures
    lines = [p if isinstance(p, str) else to_sexp(p) for p in programs]
    if not lines:
        return []
    jobs = jobs or common.NCPU
    n = max(1, min(jobs, (len(lines) + 31) // 32))
    shards = [lines[k::n] for k in range(n)]
    res = [None] * len(lines)
    with concurrent.futures.ThreadPoolExecutor(max_workers=n) as ex:
        outs = list(ex.map(_run_layref_shard, [(s, fuel) for s in shards]))
    for k, o in enumerate(outs):
        for j, r in enumerate(o):
            res[k + j * n] = r
    return res


def run_impl(sources, workdir, steps=2000000, extra=(), **kw):
    """Write each source text to workdir/pN.lay and run it on the real VM through `vharness runbatch`."""
    os.makedirs(workdir, exist_ok=True)
    reqs = []
    for i, src in enumerate(sources):
        path = os.path.join(workdir, "p%d.lay" % i)
        with open(path, "w") as f:
            f.write(src)
        reqs.append(" ".join(["--steps", str(steps)] + list(extra) + [path]))
    return common.run_batch(reqs, **kw)


IMPL_STEPS_ASSUMED = 2000000

_MASKS = [
    (re.compile(r"0x[0-9a-fA-F]+"), "ADDR"),
    (re.compile(r"<Closure ADDR>"), "<Fun ADDR>"),
    (re.compile(r"metadata: \d+"), "metadata: N"),
]


def mask(text):
    for pat, rep in _MASKS:
        text = pat.sub(rep, text)
    return text


def impl_outcome(rec):
    """Canonical (status, message, stdout) of a harness record, comparable with a LayRef outcome."""
    status = rec.get("status", "?")
    out = mask(rec.get("stdout", ""))
    if status == "Ok:0":
        return ("ok", "", out)
    if status.startswith("RuntimeError"):
        lines = [l for l in rec.get("stderr", "").split("\n") if l.strip()]
        last = lines[-1] if lines else ""
        cls, _, msg = last.partition(": ")
        return ("runtime-error:" + cls, mask(msg), out)
    if status == "STEPLIMIT":
        return ("fuel", "", out)
    return (status, rec.get("stderr", "")[-400:], out)


def spec_outcome(rec):
    return (rec["status"], mask(rec.get("message", "")) if rec["status"].startswith("runtime-error") else rec.get("message", ""),
            mask(rec.get("stdout", "")))


def compare(spec_rec, impl_rec):
    """None if the implementation's observable behaviour equals the Spec's, else a short description.
    Programs the Spec cannot judge (fuel/unsupported) return the string 'inconclusive:…'."""
    s = spec_outcome(spec_rec)
    i = impl_outcome(impl_rec)
    if s[0] in ("fuel", "unsupported", "bad-input", "driver-crash"):
        return "inconclusive:%s %s" % (s[0], s[1])
    if i[0] == "fuel":
        # the Spec finished: with a small number of interpreter steps the VM's step limit (>= 40x that) cannot be the cause
        if spec_rec.get("ticks", 1 << 60) * 40 < IMPL_STEPS_ASSUMED:
            return "status: spec %s after %d steps, the implementation ran into its step limit" % (s[0], spec_rec.get("ticks", -1))
        return "inconclusive:impl-steplimit"
    if s[0] != i[0]:
        return "status: spec %s (%s) vs impl %s (%s)" % (s[0], s[1], i[0], i[1][:200])
    if s[2] != i[2]:
        return "stdout differs"
    if s[0].startswith("runtime-error") and s[1] != i[1]:
        return "error message: spec %r vs impl %r" % (s[1], i[1])
    return None
