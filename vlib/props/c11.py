"""C11 — built-in collections, strings and iterators behave as their mathematical models.  DESIGN.md §5 C11.

One *case* = one receiver (list / tuple / string / map / iterator program) and <= 20 operations on it.
The same case is rendered (i) as one line for the Lean driver `drv_coll` (`model`: the branch-for-branch
model of Model/Collections*.lean, `spec`: the plain List/finite-map functions of `Coll.Spec`) and (ii) as a
Laythe program for the real implementation (every operation runs inside a `try` — in a zero-argument lambda
called from it, or, for cases marked `direct`, inline in the `try` of the module-level frame that drives the
native itself —, the result or `err <Class>` is printed, then the receiver).  Two judgements per case:
implementation-vs-Spec (Lean `spec` engine; for iterator programs the Python-generator monitor `spec_iter`)
and model-vs-implementation (the tie).

corpus/C11 runs first on every run: `{"case": ...}` files are cases (optionally with `"gc"`, a forced
collection schedule), `{"program": "x.lay", "good_stdout": ...}` files are whole programs with their expected
output — among them the witnesses of the repaired findings D40, D41, D42, D43, D44, D45 and of the
iterator-parameter repair (546c031), kept as regression inputs.  No finding of C11 is open."""
import itertools
import json
import os
import random
import shutil
import tempfile

from .. import common

PROP = "C11"
LEVEL = "proof"
DRV = os.path.join(common.LEAN, ".lake", "build", "bin", "drv_coll")

# ---------------------------------------------------------------------------------------------
# values and arguments: (token for the driver, Laythe text)

P53 = 2 ** 53
P63 = 2 ** 63
P64 = 2 ** 64


def tok_str(s):
    return "s:" + ".".join("%x" % ord(c) for c in s)


def tok_val(v):
    if v is None:
        return "nil"
    if v is True:
        return "true"
    if v is False:
        return "false"
    if isinstance(v, int):
        return str(v)
    return tok_str(v)


def lay_val(v):
    if v is None:
        return "nil"
    if v is True:
        return "true"
    if v is False:
        return "false"
    if isinstance(v, int):
        return str(v)
    return '"%s"' % v


# arguments: token -> Laythe text; tokens that are values (nil/true/s:..) are non-numbers
SPECIAL_ARGS = {
    "f:0:0": "0.5", "f:1:0": "-0.5", "f:0:1": "1.5", "f:1:1": "-1.5", "f:0:2": "2.5",
    "nan": "(0/0)", "inf": "(1/0)", "-inf": "(-1/0)",
}
BIG_ARGS = [P53, -P53, P63, -P63, P64, -P64]
NONNUM_ARGS = ["nil", "true", tok_str("a")]
INT_ARGS = list(range(-7, 8))
ALL_NUM_ARGS = [str(i) for i in INT_ARGS] + list(SPECIAL_ARGS) + [str(b) for b in BIG_ARGS]
ALL_ARGS = ALL_NUM_ARGS + NONNUM_ARGS
REDUCED_ARGS = ["-6", "-5", "-4", "-3", "-1", "0", "1", "3", "4", "5", "f:0:0", "f:1:0", "nan", "inf", "-inf", str(P53), str(P64), str(-P64)]


def untok_val(t):
    if t == "nil":
        return None
    if t == "true":
        return True
    if t == "false":
        return False
    if t.startswith("s:"):
        return "".join(chr(int(h, 16)) for h in t[2:].split(".") if h)
    return int(t)


def lay_arg(t):
    if t in SPECIAL_ARGS:
        return SPECIAL_ARGS[t]
    return lay_val(untok_val(t))


def is_fractional_arg(t):
    return t.startswith("f:") or t == "nan"


# ---------------------------------------------------------------------------------------------
# callbacks: name -> Laythe text (the Lean twin is `cb1` / `cb2` in Driver/CollMain.lean)

CALLBACKS = {
    "id": "fn id(x) { return x; }",
    "inc": "fn inc(x) { return x + 1; }",
    "dbl": "fn dbl(x) { return x * 2; }",
    "gt1": "fn gt1(x) { return x > 1; }",
    "lt3": "fn lt3(x) { return x < 3; }",
    "ne2": "fn ne2(x) { return x != 2; }",
    "nilcb": "fn nilcb(x) { return nil; }",
    "logid": "fn logid(x) { log.push(x); return x; }",
    "loginc": "fn loginc(x) { log.push(x); return x + 1; }",
    "loggt1": "fn loggt1(x) { log.push(x); return x > 1; }",
    "logtrue": "fn logtrue(x) { log.push(x); return true; }",
    "logfalse": "fn logfalse(x) { log.push(x); return false; }",
    "raise2": "fn raise2(x) { log.push(x); if x == 2 { raise Error(\"boom\"); } return x; }",
    "raise2t": "fn raise2t(x) { log.push(x); if x == 2 { raise Error(\"boom\"); } return true; }",
    "nbpush": "fn nbpush(x) { nb.push(x); nb.push(x); return x; }",
    "nbpusht": "fn nbpusht(x) { nb.push(x); nb.push(x); return true; }",
    "nblen": "fn nblen(x) { return nb.len(); }",
    "nbidx": "fn nbidx(x) { return nb[x]; }",
    "add": "fn add(a, x) { return a + x; }",
    "logadd": "fn logadd(a, x) { log.push(x); return a + x; }",
    "lastr": "fn lastr(a, x) { return x; }",
    "pair": "fn pair(a, x) { log.push(x); return (a, x); }",
    "raise2r": "fn raise2r(a, x) { log.push(x); if x == 2 { raise Error(\"boom\"); } return a; }",
}
# comparators of `sort`: name -> Laythe expression (the Lean twin is `cmpOf` in Driver/CollMain.lean)
COMPARATORS = {
    "sub": "|a, b| a - b",
    "rsub": "cmprsub",
    "half": "|a, b| (a - b) / 2",
    "nil": "|a, b| nil",
    "nan": "cmpnan",
    "raise": "cmpraise",
    "bad2": "cmpbad2",
}
COMPARATOR_FNS = ("fn cmprsub(a, b) { return b - a; }\n"
                  "fn cmpnan(a, b) { return 0/0; }\n"
                  "fn cmpraise(a, b) { raise Error(\"boom\"); }\n"
                  "fn cmpbad2(a, b) { if a == 2 || b == 2 { raise Error(\"boom\"); } return a - b; }\n")
# values that are not iterators, for parameters declared `Enumerator`: token -> Laythe text
NON_ITERS = {"v:nil": "nil", "v:true": "true", "v:3": "3", "v:str": "\"a\"", "v:list": "[1, 2]", "v:map": "{\"a\": 1}",
             "v:tuple": "(1, 2)", "v:cls": "List", "v:fn": "id"}

CB_NUM2NUM = ["inc", "dbl", "loginc"]
CB_NUMPRED = ["gt1", "lt3", "loggt1"]
CB_ANY = ["id", "logid", "raise2", "nbpush", "nblen"]
CB_ANYPRED = ["ne2", "nilcb", "logtrue", "logfalse", "raise2t", "nbpusht"]
CB_EFFECT = {"logid", "loginc", "loggt1", "logtrue", "logfalse", "raise2", "raise2t", "nbpush", "nbpusht", "nblen",
             "nbidx", "logadd", "pair", "raise2r"}

PRELUDE = ("let r = nil; let ok = true; let f = nil; let saved = nil; let savedtxt = nil;\n"
           "let l = nil; let t = nil; let s = nil; let m = nil;\n"
           "let log = []; let nb = [0];\n"
           + "".join("let it%d = nil; " % i for i in range(8)) + "\n"
           + "\n".join(CALLBACKS.values()) + "\n" + COMPARATOR_FNS)

RUN_OP = ("ok = true; try { r = f(); } catch e: Error { ok = false; print(\"err \" + e.cls().name()); } "
          "if ok { print(r); }\n")
# `direct` cases: the operation runs inline in the try, so the handler lives in the frame that drives the
# native (in scope since 3c7f4d3: the native returns the error and its caller's handler takes it)
RUN_OP_DIRECT = ("ok = true; try { %s } catch e: Error { ok = false; print(\"err \" + e.cls().name()); } "
                 "if ok { print(r); }\n")


FRESH_LIST_OPS = ("slice", "sort", "rev")
FRESH_POKE = ("if ok && r != nil && r.cls().name() == \"List\" { r.push(777); saved = r; savedtxt = \"${r}\"; }\n")
FRESH_WATCH = ("if saved != nil && \"${saved}\" != savedtxt { print(\"ALIASED: an earlier result changed with the receiver\"); saved = nil; }\n")

# ---------------------------------------------------------------------------------------------
# rendering a case as a Laythe program

def lay_list(vals, open_="[", close="]"):
    if open_ == "(" and len(vals) == 1:
        return "(%s,)" % lay_val(vals[0])
    return open_ + ", ".join(lay_val(v) for v in vals) + close


def parse_vals(t):
    return [] if t == "-" else [untok_val(x) for x in t.split(",")]


def op_body(kind, op):
    """Laythe statement(s) forming the body of the lambda for one op token list."""
    w = op.split()
    o = w[0]
    if kind == "list":
        x = "l"
    elif kind == "tuple":
        x = "t"
    elif kind == "str":
        x = "s"
    elif kind == "map":
        x = "m"
    if kind in ("list", "tuple", "str"):
        if o == "get":
            return "return %s[%s];" % (x, lay_arg(w[1]))
        if o == "set":
            return "return %s[%s] = %s;" % (x, lay_arg(w[1]), lay_arg(w[2]))
        if o == "push":
            return "return l.push(%s);" % ", ".join(lay_arg(a) for a in w[1:])
        if o in ("pop", "clear", "len", "rev"):
            return "return %s.%s();" % (x, o)
        if o == "insert":
            return "return l.insert(%s, %s);" % (lay_arg(w[1]), lay_arg(w[2]))
        if o == "remove":
            return "return l.remove(%s);" % lay_arg(w[1])
        if o in ("has", "index"):
            return "return %s.%s(%s);" % (x, o, lay_arg(w[1]))
        if o == "slice":
            return "return %s.slice(%s);" % (x, ", ".join(lay_arg(a) for a in w[1:]))
        if o == "sort":
            return "return l.sort(%s);" % COMPARATORS[w[1] if len(w) > 1 else "sub"]
        if o == "iterlist":
            if kind == "list":
                return "l = l.iter().list(); return \"ok\";"
            return "return t.iter().list();"
        if o == "slicelist":
            return "l = l.slice(); return \"ok\";"
        if o == "split":
            return "return s.split(%s).list();" % lay_arg(w[1])
        if o == "chars":
            return "return s.iter().list();"
    if kind == "map":
        if o in ("set", "insert"):
            return "return m.%s(%s, %s);" % (o, lay_arg(w[1]), lay_arg(w[2]))
        if o == "iset":
            return "return m[%s] = %s;" % (lay_arg(w[1]), lay_arg(w[2]))
        if o in ("get", "has", "remove"):
            return "return m.%s(%s);" % (o, lay_arg(w[1]))
        if o == "iget":
            return "return m[%s];" % lay_arg(w[1])
        if o == "len":
            return "return m.len();"
    if kind == "iter":
        if o == "new":
            k, src = w[1], w[2]
            if src == "list":
                e = lay_list(parse_vals(w[3])) + ".iter()"
            elif src == "tuple":
                e = lay_list(parse_vals(w[3]), "(", ")") + ".iter()"
            elif src == "chars":
                e = lay_arg(w[3]) + ".iter()"
            elif src == "split":
                e = "%s.split(%s)" % (lay_arg(w[3]), lay_arg(w[4]))
            elif src == "times":
                e = "(%s).times()" % lay_arg(w[3])
            elif src == "until":
                e = "(%s).until(%s)" % (lay_arg(w[3]), ", ".join(lay_arg(a) for a in w[4:]))
            return "it%s = %s; return \"ok\";" % (k, e)
        if o == "ad":
            k, a = w[1], w[2]
            if a in ("map", "filter"):
                e = "it%s.%s(%s)" % (k, a, w[3])
            elif a in ("take", "skip"):
                e = "it%s.%s(%s)" % (k, a, lay_arg(w[3]))
            else:
                e = "it%s.%s(%s)" % (k, a, ", ".join(NON_ITERS[j] if j.startswith("v:") else "it" + j for j in w[3:]))
            return "it%s = %s; return \"ok\";" % (k, e)
        if o == "bc":
            return "return %s.collect(%s);" % ({"list": "List", "tuple": "Tuple"}[w[1]], NON_ITERS[w[2]])
        if o == "next":
            return "return it%s.next();" % w[1]
        if o == "cur":
            return "return it%s.current();" % w[1]
        if o == "t":
            k, t = w[1], w[2]
            if t in ("list", "first", "last", "len"):
                return "return it%s.%s();" % (k, t)
            if t == "intolist":
                return "return it%s.into(List.collect);" % k
            if t == "intotuple":
                return "return it%s.into(Tuple.collect);" % k
            if t in ("each", "all", "any"):
                return "return it%s.%s(%s);" % (k, t, w[3])
            if t == "reduce":
                return "return it%s.reduce(%s, %s);" % (k, lay_arg(w[3]), w[4])
    raise ValueError("cannot render %s op %r" % (kind, op))


def header(case):
    k = case["kind"]
    if k == "list" or k == "tuple":
        return "%s %s" % (k, ",".join(tok_val(v) for v in case["init"]) or "-")
    if k == "str":
        return "str %s" % tok_str(case["init"])
    if k == "map":
        kv = ",".join("%s=%s" % (tok_val(a), tok_val(b)) for a, b in case["init"]) or "-"
        return "map %s keys %s" % (kv, ",".join(tok_val(x) for x in case["keys"]))
    return "iter"


def case_line(case):
    return " ; ".join([header(case)] + case["ops"])


def lines_per_op(kind):
    return {"list": 2, "tuple": 1, "str": 1, "map": 3, "iter": 3}[kind]


def render(case):
    k = case["kind"]
    out = [PRELUDE]
    if k == "list":
        out.append("l = %s;\n" % lay_list(case["init"]))
        after = "print(l);\n"
    elif k == "tuple":
        out.append("t = %s;\n" % lay_list(case["init"], "(", ")"))
        after = ""
    elif k == "str":
        out.append("s = %s;\n" % lay_val(case["init"]))
        after = ""
    elif k == "map":
        out.append("m = {%s};\n" % ", ".join("%s: %s" % (lay_val(a), lay_val(b)) for a, b in case["init"]))
        after = "print(m.len()); print([%s]);\n" % ", ".join("m.get(%s)" % lay_val(x) for x in case["keys"])
    else:
        after = "print(log); print(nb);\n"
    for op in case["ops"]:
        if case.get("direct"):
            out.append(RUN_OP_DIRECT % op_body(k, op).replace("return ", "r = "))
        else:
            out.append("f = || { %s };\n" % op_body(k, op))
            out.append(RUN_OP)
        if k == "list":
            # freshness: a list answered by an operation is a new object.  Writing to it must not show in the receiver
            # (printed next), and later operations on the receiver must not show in it (an extra line would be printed)
            if op.split()[0] in FRESH_LIST_OPS:
                out.append(FRESH_POKE)
            out.append(FRESH_WATCH)
        out.append(after)
    return "".join(out)


# ---------------------------------------------------------------------------------------------
# running

def run_driver(mode, cases):
    rc, out, err = common.run_lines([DRV, mode], [case_line(c) for c in cases], timeout=1200)
    res = [o.split("\t") for o in out]
    while len(res) < len(cases):
        res.append(["<driver-missing rc=%s %s>" % (rc, (err or "")[-200:])])
    return res


def run_impl(cases, gc=None, keep_dir=None):
    """Returns list of (status, lines)."""
    d = keep_dir or tempfile.mkdtemp(prefix="c11_", dir="/tmp")
    try:
        reqs = []
        for i, c in enumerate(cases):
            p = os.path.join(d, "c%06d.lay" % i)
            with open(p, "w") as f:
                f.write(render(c))
            g = c.get("gc") or gc
            reqs.append((("--gc %s " % g) if g else "") + p)
        res = common.run_batch(reqs, timeout=900)
        out = []
        for r in res:
            if r is None:
                out.append(("CRASH:missing", []))
                continue
            so = r.get("stdout", "")
            lines = so.split("\n")
            if lines and lines[-1] == "":
                lines = lines[:-1]
            out.append((r.get("status", "?"), lines))
        return out
    finally:
        if not keep_dir:
            shutil.rmtree(d, ignore_errors=True)


# ---------------------------------------------------------------------------------------------
# the Spec of iterator programs: Python's own lazy generators

class SpecErr(Exception):
    def __init__(self, cls):
        self.cls = cls


def is_num(x):
    return isinstance(x, int) and not isinstance(x, bool)


def seq(a, b):
    """Laythe `==` on atoms."""
    return type(a) is type(b) and a == b and not isinstance(a, (tuple, list))


def truthy(v):
    return not (v is None or v is False)


def show_in(v):
    if isinstance(v, str):
        return "'%s'" % v
    return show_top(v)


def show_top(v):
    if v is None:
        return "nil"
    if v is True:
        return "true"
    if v is False:
        return "false"
    if isinstance(v, int):
        return str(v)
    if isinstance(v, str):
        return v
    if isinstance(v, tuple):
        return "(" + ", ".join(show_in(x) for x in v) + ")"
    return "[" + ", ".join(show_in(x) for x in v) + "]"


def spec_callbacks(world):
    def num(x):
        if not is_num(x):
            raise SpecErr("RuntimeError")
        return x

    def log(x):
        world["log"].append(x)

    def boom(x):
        if seq(x, 2):
            raise SpecErr("Error")

    def nbpush(x):
        world["nb"] += [x, x]

    def nbidx(x):
        n = len(world["nb"])
        i = num(x)
        if not (-n <= i < n):
            raise SpecErr("IndexError")
        return world["nb"][i]

    return {
        "id": lambda x: x, "inc": lambda x: num(x) + 1, "dbl": lambda x: num(x) * 2,
        "gt1": lambda x: num(x) > 1, "lt3": lambda x: num(x) < 3, "ne2": lambda x: not seq(x, 2),
        "nilcb": lambda x: None,
        "logid": lambda x: (log(x), x)[1], "loginc": lambda x: (log(x), num(x) + 1)[1],
        "loggt1": lambda x: (log(x), num(x) > 1)[1], "logtrue": lambda x: (log(x), True)[1],
        "logfalse": lambda x: (log(x), False)[1],
        "raise2": lambda x: (log(x), boom(x), x)[2], "raise2t": lambda x: (log(x), boom(x), True)[2],
        "nbpush": lambda x: (nbpush(x), x)[1], "nbpusht": lambda x: (nbpush(x), True)[1],
        "nblen": lambda x: len(world["nb"]), "nbidx": nbidx,
        "add": lambda a, x: num(a) + num(x),
        "logadd": lambda a, x: (log(x), num(a) + num(x))[1],
        "lastr": lambda a, x: x, "pair": lambda a, x: (log(x), (a, x))[1],
        "raise2r": lambda a, x: (log(x), boom(x), a)[2],
    }


def num_arg(t):
    """-> ('int', i) | ('bad',) fractional/NaN/inf | ('other',)"""
    if t in SPECIAL_ARGS:
        return ("bad",)
    try:
        return ("int", int(t))
    except ValueError:
        return ("other",)


def spec_iter(ops):
    """Expected (result, log, nb) per op from Python's lazy iterators; None where the mathematical reading
    says nothing (current before/after the stream, an iterator after an error, after `len`)."""
    world = {"log": [], "nb": [0]}
    cbs = spec_callbacks(world)
    V = {}
    out = []
    dead = False

    class Var:
        def __init__(self, it):
            self.it = it
            self.cur = None
            self.curok = False
            self.poison = False   # a callback raised while it was driven, or `len` ran
            self.ended = False    # it has reported its end: a finite stream says nothing about what comes after
            self.effect = False   # a callback stage is part of it

    def pull(v):
        try:
            return True, next(v.it)
        except StopIteration:
            v.ended = True
            return False, None
        except SpecErr:
            v.poison = True
            raise

    def drain(v):
        while True:
            ok_, x = pull(v)
            if not ok_:
                return
            yield x

    for op in ops:
        w = op.split()
        res = None
        judged = not dead
        lenonly = False
        try:
            if w[0] == "new":
                k, src = w[1], w[2]
                if src in ("list", "tuple"):
                    V[k] = Var(iter(parse_vals(w[3])))
                elif src == "chars":
                    V[k] = Var(iter(list(untok_val(w[3]))))
                elif src == "split":
                    s_, sep = untok_val(w[3]), untok_val(w[4])
                    if sep == "":
                        judged = False      # no mathematical reading of splitting on ""
                        V[k] = Var(iter([""] + list(s_) + [""]))
                    else:
                        V[k] = Var(iter(s_.split(sep)))
                elif src == "times":
                    a = num_arg(w[3])
                    if a[0] != "int" or a[1] < 0:
                        raise SpecErr("ValueError")
                    V[k] = Var(iter(range(a[1])))
                elif src == "until":
                    hi = num_arg(w[4])
                    st = num_arg(w[5]) if len(w) > 5 else ("int", 1)
                    if hi[0] == "other" or st[0] == "other":
                        raise SpecErr("RuntimeError")
                    if st[0] == "bad" or hi[0] == "bad":
                        judged = False
                    elif st[1] <= 0:
                        raise SpecErr("ValueError")
                    else:
                        V[k] = Var(iter(range(int(w[3]), hi[1], st[1])))
                res = "ok"
            elif w[0] == "ad":
                v = V[w[1]]
                a = w[2]
                if a == "map":
                    f = cbs[w[3]]
                    v.it = map(f, v.it)
                    v.effect = True
                elif a == "filter":
                    f = cbs[w[3]]
                    v.it = filter(lambda x, f=f: truthy(f(x)), v.it)
                    v.effect = True
                elif a == "take":
                    n = num_arg(w[3])
                    if n[0] == "other":
                        raise SpecErr("RuntimeError")
                    if n[0] == "bad":
                        raise SpecErr("ValueError")
                    v.it = itertools.islice(v.it, max(0, min(n[1], 10 ** 9)))
                elif a == "skip":
                    n = num_arg(w[3])
                    if n[0] == "other":
                        raise SpecErr("RuntimeError")
                    if n[0] == "bad" or n[1] < 0:
                        raise SpecErr("ValueError")
                    # lazy like every adaptor: nothing is pulled (no callback below runs) before the result is advanced
                    v.it = itertools.islice(v.it, min(n[1], 10 ** 9), None)
                elif a in ("zip", "chain"):
                    if any(j.startswith("v:") for j in w[3:]):
                        for j in w[3:]:
                            if not j.startswith("v:"):
                                V[j]
                        # a parameter declared as an iterator: the call is rejected, nothing is consumed
                        raise SpecErr("RuntimeError")
                    others = [V.pop(j) for j in w[3:]]
                    allv = [v] + others
                    its = [x.it for x in allv]
                    v.it = zip(*its) if a == "zip" else itertools.chain(*its)
                    v.poison = any(x.poison for x in allv)
                    v.ended = any(x.ended for x in allv)
                    v.effect = any(x.effect for x in allv)
                v.curok = False
                res = "ok"
            elif w[0] == "bc":
                raise SpecErr("RuntimeError")
            elif w[0] == "next":
                v = V[w[1]]
                if v.poison or v.ended:
                    judged = False
                    dead = True     # the world after driving an iterator in an unspecified state is unspecified
                ok_, x = pull(v)
                if ok_:
                    v.cur = x
                    v.curok = True
                    res = "true"
                else:
                    v.curok = False
                    res = "false"
            elif w[0] == "cur":
                v = V[w[1]]
                if not v.curok or v.poison:
                    judged = False
                res = show_top(v.cur)
            elif w[0] == "t":
                v = V[w[1]]
                t = w[2]
                if v.poison or v.ended:
                    judged = False
                    dead = True
                v.curok = False
                if t in ("list", "intolist", "intotuple"):
                    xs = list(drain(v))
                    res = show_top(tuple(xs) if t == "intotuple" else xs)
                elif t == "each":
                    for x in drain(v):
                        cbs[w[3]](x)
                    res = "nil"
                elif t == "reduce":
                    acc = untok_val(w[3])
                    for x in drain(v):
                        acc = cbs[w[4]](acc, x)
                    res = show_top(acc)
                elif t in ("all", "any"):
                    stop_on = (t == "any")
                    ans = not stop_on
                    for x in drain(v):
                        if truthy(cbs[w[3]](x)) == stop_on:
                            ans = stop_on
                            break
                    res = show_top(ans)
                elif t == "first":
                    ok_, x = pull(v)
                    res = show_top(x if ok_ else None)
                elif t == "last":
                    last = None
                    for x in drain(v):
                        last = x
                    res = show_top(last)
                elif t == "len":
                    # the number of elements still to come, also on an iterator that was already advanced
                    v.poison = True     # whether `len` consumes is not part of the mathematical reading
                    if v.effect:
                        # the *number* is specified (callbacks decide it under filter); whether `len` runs the
                        # callbacks of a map stage is not: judge the number only, and nothing after it
                        dead = True
                        try:
                            res = str(sum(1 for _ in drain(v)))
                            lenonly = judged
                        except SpecErr:
                            pass
                        judged = False
                    else:
                        res = str(sum(1 for _ in drain(v)))
        except SpecErr as e:
            res = "err " + e.cls
        except KeyError:
            res = None
            judged = False
        if judged and res is not None:
            out.append((res, show_top(world["log"]), show_top(world["nb"])))
        elif lenonly and res is not None:
            out.append((res, None, None))
        else:
            out.append(None)
    return out


# ---------------------------------------------------------------------------------------------
# generators

VALS_MIXED = [None, True, False, 0, 1, 2, 3, -1, 7, "a", "b", "é", "", "aé\U0001F600"]
VALS_INT = list(range(-3, 10))
STRINGS = ["", "a", "é", "a\U0001F600", "aé\U0001F600", "\U0001F600éaß", "a,b,,c", "héllo wörld",
           "abcabc", "aaa", "éé"]
SEPS = [",", "b", "é", "aa", "bc", "\U0001F600", "", "x", "a,", "ß"]


def rnd_arg(rng, n=None):
    r = rng.random()
    if r < 0.70:
        if n is not None and rng.random() < 0.6:
            return str(rng.choice([0, n - 1, n, -n, -n - 1, n + 1, -1, 1]))
        return str(rng.choice(INT_ARGS))
    if r < 0.86:
        return rng.choice(list(SPECIAL_ARGS))
    if r < 0.95:
        return str(rng.choice(BIG_ARGS))
    return rng.choice(NONNUM_ARGS)


def gen_list_case(rng, maxops):
    intonly = rng.random() < 0.4
    vals = VALS_INT if intonly else VALS_MIXED
    n0 = rng.choice([0, 0, 1, 2, 3, 4, 4, 5, 8])
    init = [rng.choice(vals) for _ in range(n0)]
    ops = []
    n = n0   # rough length estimate, to aim indices at the boundary
    for _ in range(rng.randint(1, maxops)):
        r = rng.random()
        v = tok_val(rng.choice(vals))
        if r < 0.12:
            ops.append("get " + rnd_arg(rng, n))
        elif r < 0.22:
            ops.append("set %s %s" % (rnd_arg(rng, n), v))
        elif r < 0.36:
            k = rng.choice([1, 1, 1, 2, 3, 5, 0])
            ops.append("push" + "".join(" " + tok_val(rng.choice(vals)) for _ in range(k)))
            n += k
        elif r < 0.42:
            ops.append("pop")
            n = max(0, n - 1)
        elif r < 0.56:
            ops.append("insert %s %s" % (rnd_arg(rng, n), v))
            n += 1
        elif r < 0.68:
            ops.append("remove " + rnd_arg(rng, n))
            n = max(0, n - 1)
        elif r < 0.70:
            ops.append("clear")
            n = 0
        elif r < 0.74:
            ops.append("len")
        elif r < 0.78:
            ops.append("has " + v)
        elif r < 0.82:
            ops.append("index " + v)
        elif r < 0.92:
            k = rng.choice([0, 1, 1, 2, 2, 2])
            ops.append("slice" + "".join(" " + rnd_arg(rng, n) for _ in range(k)))
        elif r < 0.94:
            ops.append("rev")
        elif r < 0.96:
            if intonly:
                ops.append("sort " + rng.choice(["sub", "sub", "rsub", "half", "bad2", "nil", "nan", "raise"]))
            else:
                ops.append("sort " + rng.choice(["sub", "rsub", "nil", "nan", "raise"]))
        elif r < 0.98:
            ops.append("iterlist")
        else:
            ops.append("slicelist")
    if rng.random() < 0.12:
        # the list `Iter.list` pre-sizes from the size hint (capacity = length, 0 for an empty list), then growth
        ops.insert(rng.randint(0, min(2, len(ops))), "iterlist")
    return {"kind": "list", "init": init, "ops": ops}


def gen_tuple_case(rng, maxops):
    n = rng.choice([0, 1, 2, 3, 4, 6])
    init = [rng.choice(VALS_MIXED) for _ in range(n)]
    ops = []
    for _ in range(rng.randint(1, maxops)):
        r = rng.random()
        v = tok_val(rng.choice(VALS_MIXED))
        if r < 0.35:
            ops.append("get " + rnd_arg(rng, n))
        elif r < 0.75:
            k = rng.choice([0, 1, 2, 2])
            ops.append("slice" + "".join(" " + rnd_arg(rng, n) for _ in range(k)))
        elif r < 0.82:
            ops.append("has " + v)
        elif r < 0.90:
            ops.append("index " + v)
        elif r < 0.95:
            ops.append("len")
        else:
            ops.append("iterlist")
    return {"kind": "tuple", "init": init, "ops": ops}


def gen_str_case(rng, maxops):
    s = rng.choice(STRINGS)
    n = len(s)
    ops = []
    for _ in range(rng.randint(1, maxops)):
        r = rng.random()
        if r < 0.3:
            ops.append("get " + rnd_arg(rng, n))
        elif r < 0.65:
            k = rng.choice([0, 1, 2, 2])
            ops.append("slice" + "".join(" " + rnd_arg(rng, n) for _ in range(k)))
        elif r < 0.72:
            ops.append("len")
        elif r < 0.82:
            ops.append("has " + (tok_str(rng.choice(SEPS)) if rng.random() < 0.9 else rng.choice(["1", "nil"])))
        elif r < 0.95:
            ops.append("split " + (tok_str(rng.choice(SEPS)) if rng.random() < 0.95 else "1"))
        else:
            ops.append("chars")
    return {"kind": "str", "init": s, "ops": ops}


KEYS = [None, True, False, 0, 1, 2, -1, "a", "b", "", "é"]


def gen_map_case(rng, maxops):
    keys = rng.sample(KEYS, rng.randint(3, 7))
    init = []
    for k in rng.sample(keys, rng.randint(0, min(3, len(keys)))):
        init.append((k, rng.choice(VALS_MIXED[:10])))
    ops = []
    for _ in range(rng.randint(1, maxops)):
        k = tok_val(rng.choice(keys))
        v = tok_val(rng.choice(VALS_MIXED[:10]))
        r = rng.random()
        if r < 0.15:
            ops.append("set %s %s" % (k, v))
        elif r < 0.28:
            ops.append("iset %s %s" % (k, v))
        elif r < 0.40:
            ops.append("insert %s %s" % (k, v))
        elif r < 0.52:
            ops.append("get " + k)
        elif r < 0.64:
            ops.append("iget " + k)
        elif r < 0.74:
            ops.append("has " + k)
        elif r < 0.94:
            ops.append("remove " + k)
        else:
            ops.append("len")
    return {"kind": "map", "init": init, "keys": keys, "ops": ops}


def gen_iter_case(rng, maxops):
    """A program over iterator variables it0..it7.  Each variable is used linearly (an iterator handed to
    zip/chain is never touched again): the model has no aliasing between iterators."""
    ops = []
    live = {}     # k -> type: 'num' | 'str' | 'any'
    nxt = [0]

    def new_source():
        if nxt[0] >= 8:
            return None
        k = nxt[0]
        nxt[0] += 1
        r = rng.random()
        if r < 0.40:
            n = rng.choice([0, 1, 2, 3, 3, 4, 5, 6])
            vs = [rng.choice([0, 1, 2, 3, 4, 5]) for _ in range(n)]
            ops.append("new %d %s %s" % (k, rng.choice(["list", "list", "tuple"]), ",".join(map(str, vs)) or "-"))
            live[k] = "num"
        elif r < 0.50:
            n = rng.choice([0, 1, 3, 4])
            vs = [rng.choice(VALS_MIXED) for _ in range(n)]
            ops.append("new %d list %s" % (k, ",".join(tok_val(v) for v in vs) or "-"))
            live[k] = "any"
        elif r < 0.60:
            ops.append("new %d chars %s" % (k, tok_str(rng.choice(STRINGS[:6]))))
            live[k] = "str"
        elif r < 0.70:
            ops.append("new %d split %s %s" % (k, tok_str(rng.choice(STRINGS)), tok_str(rng.choice(SEPS))))
            live[k] = "str"
        elif r < 0.85:
            a = rng.choice(["0", "1", "2", "3", "4", "5", "3", "4", "-1", "f:0:2", "nan", "inf"])
            ops.append("new %d times %s" % (k, a))
            if a.isdigit():
                live[k] = "num"
        else:
            lo = rng.choice([0, 1, 2, -2])
            hi = rng.choice(["0", "3", "4", "5", "7", "-3", "nil"])
            if rng.random() < 0.5:
                ops.append("new %d until %d %s" % (k, lo, hi))
                if hi != "nil":
                    live[k] = "num"
            else:
                st = rng.choice(["1", "2", "3", "0", "-1", "nil"])
                ops.append("new %d until %d %s %s" % (k, lo, hi, st))
                if hi != "nil" and st in ("1", "2", "3"):
                    live[k] = "num"
        return k

    new_source()
    budget = rng.randint(2, maxops)
    while len(ops) < budget:
        if not live:
            if new_source() is None:
                break
            continue
        k = rng.choice(list(live))
        ty = live[k]
        if rng.random() < 0.10:
            # the two repaired findings, aimed at: `len` of an iterator that was already advanced (D41), and `skip` over
            # a stage with an effectful callback, the log being printed before the result is advanced (D44)
            if rng.random() < 0.5:
                ops.extend(["next %d" % k] * rng.choice([1, 1, 2, 3]))
                if rng.random() < 0.4:
                    ops.append("ad %d %s" % (k, rng.choice(["take 1", "take 2", "take 5", "skip 1", "skip 2", "map id"])))
                    if rng.random() < 0.3:
                        ops.append("next %d" % k)
                ops.append("t %d len" % k)
                if rng.random() < 0.6:
                    ops.append("t %d %s" % (k, rng.choice(["list", "intolist", "len", "last"])))
                if rng.random() < 0.5:
                    del live[k]
            else:
                if rng.random() < 0.3:
                    ops.append("next %d" % k)
                ops.append("ad %d %s" % (k, rng.choice(["map logid", "map raise2", "map nbpush", "filter logtrue", "filter raise2t",
                                                         "filter logfalse"] + (["map loginc", "filter loggt1"] if ty == "num" else []))))
                ops.append("ad %d skip %s" % (k, rng.choice(["1", "1", "2", "3", "5"])))
                ops.append(rng.choice(["cur %d", "next %d", "t %d first", "t %d list", "t %d len", "ad %d take 1"]) % k)
                if rng.random() < 0.5:
                    ops.append("t %d list" % k)
            continue
        r = rng.random()
        if r < 0.10:
            new_source()
        elif r < 0.115:
            ops.append("bc %s %s" % (rng.choice(["list", "tuple"]), rng.choice(list(NON_ITERS))))
        elif r < 0.24:
            wrong = rng.random() < 0.04
            if ty == "num" or wrong:
                f = rng.choice(CB_NUM2NUM + CB_ANY + ["nbidx"])
            else:
                f = rng.choice(CB_ANY)
            ops.append("ad %d map %s" % (k, f))
            if f in ("nbidx", "nblen") and ty != "num":
                live[k] = "any"
            elif f == "nbidx":
                live[k] = "any"
            elif f == "nblen":
                live[k] = "num"
        elif r < 0.36:
            wrong = rng.random() < 0.04
            if ty == "num" or wrong:
                f = rng.choice(CB_NUMPRED + CB_ANYPRED)
            else:
                f = rng.choice(CB_ANYPRED)
            ops.append("ad %d filter %s" % (k, f))
        elif r < 0.46:
            ops.append("ad %d take %s" % (k, rng.choice(["0", "1", "2", "2", "3", "5", "-1", "f:0:0", "nan", "inf", str(P64), "nil"])))
        elif r < 0.55:
            ops.append("ad %d skip %s" % (k, rng.choice(["0", "1", "1", "2", "3", "5", "-1", "f:0:0", "nan", "inf", str(P64), "nil"])))
        elif r < 0.62:
            others = [j for j in live if j != k]
            m = rng.choice([0, 1, 1, 1, 2])
            js = rng.sample(others, min(m, len(others)))
            which = rng.choice(["zip", "chain"])
            if rng.random() < 0.15:
                # a value that is not an iterator among the arguments: rejected, nothing consumed
                args = ["%d" % j for j in js]
                args.insert(rng.randint(0, len(args)), rng.choice(list(NON_ITERS)))
                ops.append("ad %d %s %s" % (k, which, " ".join(args)))
                continue
            ops.append("ad %d %s%s" % (k, which, "".join(" %d" % j for j in js)))
            tys = {live[j] for j in js} | {ty}
            for j in js:
                del live[j]
            live[k] = "any" if which == "zip" else (ty if len(tys) == 1 else "any")
        elif r < 0.74:
            ops.append("next %d" % k)
            if rng.random() < 0.8:
                ops.append("cur %d" % k)
        elif r < 0.77:
            ops.append("cur %d" % k)
        else:
            t = rng.random()
            if t < 0.30:
                ops.append("t %d %s" % (k, rng.choice(["list", "list", "list", "intolist", "intotuple"])))
            elif t < 0.40:
                ops.append("t %d each %s" % (k, rng.choice(CB_ANY + CB_ANYPRED + (CB_NUM2NUM if ty == "num" else []))))
            elif t < 0.52:
                if ty == "num":
                    ops.append("t %d reduce %s %s" % (k, rng.choice(["0", "10"]), rng.choice(["add", "logadd", "lastr", "pair", "raise2r"])))
                else:
                    ops.append("t %d reduce %s %s" % (k, rng.choice(["0", "nil"]), rng.choice(["lastr", "pair", "raise2r"])))
            elif t < 0.64:
                ops.append("t %d %s %s" % (k, rng.choice(["all", "any"]),
                                           rng.choice(CB_ANYPRED + (CB_NUMPRED if ty == "num" else []))))
            elif t < 0.74:
                ops.append("t %d first" % k)
            elif t < 0.84:
                ops.append("t %d last" % k)
            else:
                ops.append("t %d len" % k)
            if rng.random() < 0.5:
                del live[k]
    return {"kind": "iter", "ops": ops[:maxops + 2]}


def exhaustive_cases(full):
    """Boundary indices, exhaustively, for receivers of length 0-4."""
    cases = []
    args = ALL_ARGS
    second = ALL_ARGS if full else REDUCED_ARGS
    strs = ["", "é", "a\U0001F600", "aé\U0001F600", "\U0001F600éaß"]

    def chunks(ops, n=20):
        for i in range(0, len(ops), n):
            yield ops[i:i + n]

    for n in range(5):
        init = [10 * (i + 1) for i in range(n)]
        ro = ["get " + a for a in args] + ["slice " + a for a in args] + \
             ["slice %s %s" % (a, b) for a in args for b in second]
        for ch in chunks(ro):
            cases.append({"kind": "list", "init": init, "ops": ch})
            cases.append({"kind": "tuple", "init": init, "ops": ch})
        for a in args:
            for op in ("set %s 99", "insert %s 99", "remove %s"):
                cases.append({"kind": "list", "init": init, "ops": [op % a, "len", "push 5", "pop"]})
        s = strs[n]
        for ch in chunks(ro):
            cases.append({"kind": "str", "init": s, "ops": ch})
    # growth of the pre-sized lists of Iter.list (capacity = size hint = length; 0 for the empty list)
    for n in range(4):
        init = [10 * (i + 1) for i in range(n)]
        for first in (["push 1"], ["insert 0 1"], ["insert %d 1" % n], ["push 1 2 3 4 5"], ["pop", "push 1"],
                      ["remove 0", "push 1"], ["clear", "push 1", "push 2"]):
            cases.append({"kind": "list", "init": init,
                          "ops": ["iterlist"] + first + ["push 7", "insert 1 8", "push 9 9 9", "len", "pop"]})
    # sort: every comparator on lengths 0-3 (and with a non-number among the elements)
    for cmp_ in COMPARATORS:
        for init in ([], [3], [3, 1], [2, 1], [3, 1, 2], [5, 3, 4, 1], [3, "a"], [1, None, 2]):
            if cmp_ == "bad2" and 2 in init and any(not is_num(x) for x in init):
                continue
            cases.append({"kind": "list", "init": init, "ops": ["sort " + cmp_, "len"]})
    # parameters declared as iterators: every kind of non-iterator, in every position
    for v in NON_ITERS:
        for which in ("zip", "chain"):
            for eargs in ([v], ["1", v], [v, "1"]):
                cases.append({"kind": "iter", "ops": ["new 0 list 1,2", "new 1 list 3,4", "ad 0 %s %s" % (which, " ".join(eargs)),
                                                      "t 0 list", "t 1 list"]})
        cases.append({"kind": "iter", "ops": ["bc list " + v, "bc tuple " + v]})
    # take / skip / times / until over the whole argument universe
    for a in args:
        for n in (0, 3):
            vs = ",".join(str(i + 1) for i in range(n)) or "-"
            cases.append({"kind": "iter", "ops": ["new 0 list " + vs, "ad 0 take " + a, "t 0 list"]})
            cases.append({"kind": "iter", "ops": ["new 0 list " + vs, "ad 0 skip " + a, "t 0 list"]})
            cases.append({"kind": "iter", "ops": ["new 0 list " + vs, "ad 0 map loginc", "ad 0 take " + a, "t 0 list"]})
    # `len` is what is left (D41): every source, bare and under every adaptor, advanced 0-4 times before / after the
    # adaptor was put on (4 = past the end), then `len` and what a traversal still yields
    sources = ["list 1,2,3", "tuple 1,2,3", "times 3", "chars " + tok_str("abc"), "until 0 3", "list -",
               "split %s %s" % (tok_str("a,b,c"), tok_str(","))]
    wraps = [[], ["ad 0 take 2"], ["ad 0 take 5"], ["ad 0 skip 1"], ["ad 0 skip 5"], ["ad 0 map id"], ["ad 0 filter ne2"],
             ["ad 0 skip 1", "ad 0 take 1"], ["ad 0 take 2", "ad 0 skip 1"],
             ["new 1 list 7,8", "ad 0 chain 1"], ["new 1 times 2", "ad 0 zip 1"], ["new 1 list 7,8", "new 2 times 2", "ad 0 chain 1 2"]]
    for src in sources:
        for wrap in wraps:
            for j in (0, 1, 2, 4):
                cases.append({"kind": "iter", "ops": ["new 0 " + src] + wrap + ["next 0"] * j + ["t 0 len", "t 0 list"]})
                if wrap and j:
                    cases.append({"kind": "iter", "ops": ["new 0 " + src] + ["next 0"] * j + wrap + ["t 0 len", "t 0 list"]})
        # the iterator is the second member of a chain / zip
        for j in (1, 2):
            for which in ("chain", "zip"):
                cases.append({"kind": "iter", "ops": ["new 0 " + src, "new 1 list 7,8"] + ["next 0"] * j +
                              ["ad 1 %s 0" % which, "next 1", "t 1 len", "t 1 list"]})
    # `skip` is lazy (D44): a stage with an effectful callback, `skip n` on it, and the log printed before anything is
    # pulled; then the result is advanced in different ways
    for cb in ("map logid", "map loginc", "filter loggt1", "filter logtrue", "filter logfalse", "map raise2", "filter raise2t",
               "map nbpush"):
        for n in ("0", "1", "2", "3", "5"):
            for tail in (["t 0 list"], ["cur 0", "next 0", "cur 0", "t 0 list"], ["t 0 len"], ["ad 0 take 1", "t 0 list"],
                         ["t 0 first", "t 0 list"], ["ad 0 skip 1", "next 0", "t 0 list"]):
                cases.append({"kind": "iter", "ops": ["new 0 list 1,2,3,4", "ad 0 " + cb, "ad 0 skip " + n] + tail})
            cases.append({"kind": "iter", "ops": ["new 0 list 1,2,3,4", "ad 0 " + cb, "next 0", "ad 0 skip " + n, "cur 0", "next 0",
                                                  "cur 0", "t 0 list"]})
    for a in [x for x in ALL_NUM_ARGS if x not in (str(P53), str(P63), str(P64), "7", "6")]:
        good = a.isdigit()
        cases.append({"kind": "iter", "ops": ["new 0 times " + a] + (["t 0 list"] if good else [])})
    for hi in ["-1", "0", "1", "4", "nil"]:
        for st in ["1", "2", "5", "0", "-1", "nil"]:
            good = hi != "nil" and st in ("1", "2", "5")
            cases.append({"kind": "iter", "ops": ["new 0 until 1 %s %s" % (hi, st)] + (["t 0 list"] if good else [])})
    return cases


# ---------------------------------------------------------------------------------------------
# judging

def first_diff(a, b):
    for i in range(max(len(a), len(b))):
        x = a[i] if i < len(a) else "<missing>"
        y = b[i] if i < len(b) else "<missing>"
        if x != y:
            return i
    return None


def spec_lines(case, spec_out):
    """Per output line the Spec's expectation or None (unjudged)."""
    k = case["kind"]
    per = lines_per_op(k)
    n = len(case["ops"])
    if k == "iter":
        exp = spec_iter(case["ops"])
        out = []
        for e in exp:
            out += list(e) if e is not None else [None] * per
        return out, sum(1 for e in exp if e is None or e[1] is None)
    out = list(spec_out) + [None] * (per * n - len(spec_out))
    out = out[:per * n]
    skipped = 0
    for i, op in enumerate(case["ops"]):
        base = i * per
        if base >= len(spec_out) or spec_out[base] in ("bad-op", "bad-case", "no-spec"):
            for j in range(per):
                out[base + j] = None
            skipped += 1
    return out, skipped


def model_ok(model_out):
    # "UB" = the model wrote outside an allocation: excluded by C11_list_no_write_outside, so never expected
    return not any(x in ("bad-op", "bad-case", "bad-var", "no-spec", "UB") or x.startswith("<driver") for x in model_out)


def judge_case(case, model_out, spec_out, status, impl):
    """-> (spec_failure or None, tie_failure or None, ops_unjudged_by_spec)"""
    per = lines_per_op(case["kind"])
    exp, skipped = spec_lines(case, spec_out)
    spec_fail = None
    if status != "Ok:0":
        spec_fail = {"what": "the run ended with status %s" % status, "op_index": len(impl) // per}
    else:
        for i, e in enumerate(exp):
            if e is None:
                continue
            got = impl[i] if i < len(impl) else "<missing>"
            if got != e:
                spec_fail = {"what": "operation %d (%s): the Spec says %r, the implementation printed %r (output line %d)" % (
                    i // per, case["ops"][i // per], e, got, i), "op_index": i // per}
                break
    tie_fail = None
    d = first_diff(model_out, impl)
    if status != "Ok:0" or d is not None:
        tie_fail = {"line": d, "op_index": (d // per) if d is not None else None, "status": status}
    return spec_fail, tie_fail, skipped


def one_case_fails(case, want):
    """Re-run a single case; want = 'spec' | 'tie' | 'any'."""
    mo = run_driver("model", [case])[0]
    if not model_ok(mo):
        return False
    so = run_driver("spec", [case])[0] if case["kind"] != "iter" else []
    st, impl = run_impl([case])[0]
    sf, tf, _ = judge_case(case, mo, so, st, impl)
    if want == "spec":
        return sf is not None
    if want == "tie":
        return tf is not None
    return sf is not None or tf is not None


def shrink_case(case, want):
    cur = dict(case)
    # the shortest failing prefix first (memory-safety failures are not monotone under single deletions)
    for n in range(1, len(cur["ops"])):
        cand = dict(cur)
        cand["ops"] = cur["ops"][:n]
        try:
            if one_case_fails(cand, want):
                cur = cand
                break
        except Exception:
            pass
    changed = True
    while changed:
        changed = False
        i = 0
        while i < len(cur["ops"]) and len(cur["ops"]) > 1:
            cand = dict(cur)
            cand["ops"] = cur["ops"][:i] + cur["ops"][i + 1:]
            try:
                bad = one_case_fails(cand, want)
            except Exception:
                bad = False
            if bad:
                cur = cand
                changed = True
            else:
                i += 1
        for key in ("init",):
            if cur["kind"] in ("list", "tuple") and len(cur.get("init", [])) > 0:
                cand = dict(cur)
                cand["init"] = cur["init"][:-1]
                try:
                    if one_case_fails(cand, want):
                        cur = cand
                        changed = True
                except Exception:
                    pass
    return cur


def payload_for(case, kind, what, seed, extra=None):
    mo = run_driver("model", [case])[0]
    so = run_driver("spec", [case])[0] if case["kind"] != "iter" else \
        [None if e is None else list(e) for e in spec_iter(case["ops"])]
    st, impl = run_impl([case])[0]
    p = {"engine": "coll", "kind": kind, "what": what, "seed": seed, "case": case, "case_line": case_line(case),
         "program": render(case), "model": mo, "spec": so, "impl_status": st, "impl": impl,
         "replay": "./check C11 --replay <this file>"}
    if extra:
        p.update(extra)
    return p


def check_cases(ctx, label, cases, gc=None, spec_only=False):
    """Run one stream.  Returns (ok, first_spec_failure_case, first_tie_failure_case)."""
    if not cases:
        return True, None, None
    mo = run_driver("model", cases)
    non_iter = [c for c in cases if c["kind"] != "iter"]
    so_map = {}
    if non_iter:
        so = run_driver("spec", non_iter)
        for c, o in zip(non_iter, so):
            so_map[id(c)] = o
    impl = run_impl(cases, gc=gc)
    stats = {"cases": len(cases), "ops": 0, "errors_raised": 0, "ops_unjudged_by_spec": 0, "status_not_ok": 0}
    kinds = {}
    first_spec, first_tie = None, None
    for c, m, (st, lines) in zip(cases, mo, impl):
        stats["ops"] += len(c["ops"])
        kinds[c["kind"]] = kinds.get(c["kind"], 0) + 1
        nerr = sum(1 for x in lines if x.startswith("err "))
        stats["errors_raised"] += nerr
        if st != "Ok:0":
            stats["status_not_ok"] += 1
        if not model_ok(m):
            if first_tie is None:
                first_tie = (c, {"line": None, "op_index": None, "status": "driver rejected the case: %r" % m[-1:]})
            continue
        sf, tf, skipped = judge_case(c, m, so_map.get(id(c), []), st, lines)
        stats["ops_unjudged_by_spec"] += skipped
        ctx.count_case(case_line(c), nontrivial=(nerr > 0 or c["kind"] == "iter" or len(c["ops"]) > 2))
        if sf and first_spec is None:
            first_spec = (c, sf)
        if tf and not spec_only and first_tie is None:
            first_tie = (c, tf)
    stats.update({"kind_" + k: v for k, v in kinds.items()})
    ctx.stream_stat(label, **stats)
    ctx.cov["traces_validated_against_impl"] += len(cases)
    return (first_spec is None and first_tie is None), first_spec, first_tie


def report(ctx, label, first_spec, first_tie, searcher, gc=None):
    if gc:
        # the failing case carries the collection schedule of its stream: shrinking and replay use it too
        if first_spec:
            first_spec = (dict(first_spec[0], gc=first_spec[0].get("gc") or gc), first_spec[1])
        if first_tie:
            first_tie = (dict(first_tie[0], gc=first_tie[0].get("gc") or gc), first_tie[1])
        for which, want in ((first_spec, "spec"), (first_tie, "tie")):
            # a coin schedule depends on every allocation before the failure: prefer the deterministic
            # collect-at-every-allocation schedule for shrinking when the case fails under it as well
            if which and which[0]["gc"] != "every:1":
                try:
                    if one_case_fails(dict(which[0], gc="every:1"), want):
                        which[0]["gc"] = "every:1"
                except Exception:
                    pass
    if first_spec:
        c, sf = first_spec
        small = shrink_case(c, "spec")
        ctx.cov["impl_vs_spec_failures"] += 1
        _, sf2, _ = rejudge(small)
        ctx.violation(label + "_spec", payload_for(small, "implementation-vs-spec", (sf2 or sf)["what"], ctx.seed))
        return
    if first_tie:
        c, tf = first_tie
        ctx.cov["model_vs_impl_disagreements"] += 1
        small = shrink_case(c, "tie")
        found = searcher(ctx)
        if found:
            ctx.violation(label + "_spec", found)
        else:
            ctx.violation(label + "_tie", payload_for(
                small, "model-vs-implementation", "model and implementation print different lines (first at %s)" % tf,
                ctx.seed, {"broken": "correspondence stream %s (Model/Collections*.lean vs laythe_lib primitives)" % label}),
                no_input=True)


def rejudge(case):
    mo = run_driver("model", [case])[0]
    so = run_driver("spec", [case])[0] if case["kind"] != "iter" else []
    st, impl = run_impl([case])[0]
    sf, tf, sk = judge_case(case, mo, so, st, impl)
    return mo, sf, tf


def random_cases(rng, nlist, ntuple, nstr, nmap, niter, maxops=20):
    cs = []
    cs += [gen_list_case(rng, maxops) for _ in range(nlist)]
    cs += [gen_tuple_case(rng, maxops) for _ in range(ntuple)]
    cs += [gen_str_case(rng, maxops) for _ in range(nstr)]
    cs += [gen_map_case(rng, maxops) for _ in range(nmap)]
    cs += [gen_iter_case(rng, maxops) for _ in range(niter)]
    for c in cs:
        if rng.random() < 0.3:
            c["direct"] = True
    return cs


def search(ctx, scale=10):
    """Bigger, Spec-judged only: a concrete input on which the implementation breaks the property."""
    rng = random.Random(ctx.seed * 7907 + 3)
    cases = exhaustive_cases(full=False) + random_cases(rng, 600 * scale, 150 * scale, 250 * scale, 200 * scale, 800 * scale)
    ok, fs, _ = check_cases(ctx, "search", cases, spec_only=True)
    if fs:
        c, sf = fs
        small = shrink_case(c, "spec")
        _, sf2, _ = rejudge(small)
        p = payload_for(small, "implementation-vs-spec", (sf2 or sf)["what"], ctx.seed)
        p["found_by"] = "search"
        return p
    return None


# ---------------------------------------------------------------------------------------------
# hash-map iterators: the order of their elements depends on addresses, so they are not part of the case language
# (and of the Lean model); how *many* elements are left does not, and `len` / the size hint must say exactly that
# (finding D41 covered `MapIterator::size_hint` too).  One case = a map with `n` entries, its iterator, and
# operations on it; the Spec is a counter.

MAPITER_KEYS = ["1", "2", "3", "\"a\"", "\"b\"", "true", "nil", "\"é\"", "7", "-1"]


def gen_mapiter_case(rng):
    n = rng.choice([0, 1, 2, 3, 3, 4, 5, 6, 8])
    ops = []
    for _ in range(rng.randint(1, 10)):
        r = rng.random()
        if r < 0.35:
            ops.append("next")
        elif r < 0.65:
            ops.append("len")
        elif r < 0.73:
            ops.append("take %d" % rng.choice([0, 1, 2, 3, 9]))
        elif r < 0.81:
            ops.append("skip %d" % rng.choice([0, 1, 2, 3, 9]))
        elif r < 0.87:
            ops.append("chain %d" % rng.choice([0, 1, 2]))
        elif r < 0.93:
            ops.append("zip %d" % rng.choice([0, 1, 2, 5, 9]))
        else:
            ops.append("listlen")
    ops.append("len")
    return {"entries": n, "ops": ops}


def render_mapiter(case):
    out = ["let m = {%s};\nlet it = m.iter();\n" % ", ".join("%s: %d" % (k, i) for i, k in enumerate(MAPITER_KEYS[:case["entries"]]))]
    for op in case["ops"]:
        w = op.split()
        if w[0] == "next":
            out.append("print(it.next());\n")
        elif w[0] == "len":
            out.append("print(it.len());\n")
        elif w[0] == "listlen":
            out.append("print(it.list().len());\n")
        elif w[0] in ("take", "skip"):
            out.append("it = it.%s(%s);\n" % (w[0], w[1]))
        elif w[0] == "chain":
            out.append("it = it.chain([%s].iter());\n" % ", ".join("0" for _ in range(int(w[1]))))
        elif w[0] == "zip":
            out.append("it = it.zip(%s.times());\n" % w[1])
    return "".join(out)


def spec_mapiter(case):
    """The expected output: a stream of `left` elements, whatever they are."""
    left = case["entries"]
    out = []
    for op in case["ops"]:
        w = op.split()
        if w[0] == "next":
            out.append("true" if left > 0 else "false")
            left = max(0, left - 1)
        elif w[0] == "len":
            out.append(str(left))
        elif w[0] == "listlen":
            out.append(str(left))
            left = 0
        elif w[0] == "take":
            left = min(left, int(w[1]))
        elif w[0] == "skip":
            left = max(0, left - int(w[1]))
        elif w[0] == "chain":
            left += int(w[1])
        elif w[0] == "zip":
            left = min(left, int(w[1]))
    return "".join(x + "\n" for x in out)


def run_mapiter(cases):
    d = tempfile.mkdtemp(prefix="c11m_", dir="/tmp")
    try:
        reqs = []
        for i, c in enumerate(cases):
            p = os.path.join(d, "m%06d.lay" % i)
            with open(p, "w") as f:
                f.write(render_mapiter(c))
            reqs.append(p)
        res = common.run_batch(reqs, timeout=600)
        return [((r.get("status", "?"), r.get("stdout", "")) if r else ("CRASH:missing", "")) for r in res]
    finally:
        shutil.rmtree(d, ignore_errors=True)


def mapiter_fails(case):
    st, so = run_mapiter([case])[0]
    return not (st == "Ok:0" and so == spec_mapiter(case))


def check_mapiter(ctx, rng, n):
    fixed = [{"entries": e, "ops": ["next"] * j + wrap + ["len", "listlen", "len"]}
             for e in (0, 1, 3) for j in (0, 1, 2, 4)
             for wrap in ([], ["take 2"], ["skip 1"], ["skip 1", "next"], ["chain 2"], ["zip 2"], ["take 2", "next"])]
    cases = fixed + [gen_mapiter_case(rng) for _ in range(n)]
    bad = None
    nlen = 0
    for c, (st, so) in zip(cases, run_mapiter(cases)):
        ctx.count_case("mapiter %d %s" % (c["entries"], ";".join(c["ops"])))
        nlen += sum(1 for o in c["ops"] if o in ("len", "listlen"))
        if bad is None and not (st == "Ok:0" and so == spec_mapiter(c)):
            bad = c
    ctx.cov["traces_validated_against_impl"] += len(cases)
    ctx.stream_stat("map_iter_len", cases=len(cases), len_answers_judged=nlen, failing=0 if bad is None else 1)
    if bad is None:
        return True
    # shrink: the shortest failing prefix, then single deletions, then fewer entries
    cur = bad
    for k in range(1, len(cur["ops"])):
        cand = dict(cur, ops=cur["ops"][:k])
        if mapiter_fails(cand):
            cur = cand
            break
    changed = True
    while changed:
        changed = False
        for i in range(len(cur["ops"])):
            cand = dict(cur, ops=cur["ops"][:i] + cur["ops"][i + 1:])
            if cand["ops"] and mapiter_fails(cand):
                cur, changed = cand, True
                break
        if not changed and cur["entries"] > 0:
            cand = dict(cur, entries=cur["entries"] - 1)
            if mapiter_fails(cand):
                cur, changed = cand, True
    st, so = run_mapiter([cur])[0]
    ctx.cov["impl_vs_spec_failures"] += 1
    ctx.violation("map_iter_len_spec", {
        "engine": "coll", "kind": "implementation-vs-spec", "seed": ctx.seed, "mapiter_case": cur,
        "what": "an iterator over a hash map with %d entries, after %s: the Spec (a counter of the elements that are left) "
                "expects the output %r, the implementation ended with %s and printed %r" % (
                    cur["entries"], "; ".join(cur["ops"]), spec_mapiter(cur), st, so),
        "program": render_mapiter(cur), "good_stdout": spec_mapiter(cur), "impl_status": st, "impl_stdout": so,
        "replay": "./check C11 --replay <this file>"})
    return False


# ---------------------------------------------------------------------------------------------
# known findings

def replay_findings(ctx):
    for rec in common.load_findings(PROP):
        wdir = os.path.join(common.VERIF, os.path.dirname(rec["witness"]))
        meta_p = os.path.join(wdir, "witness.json")
        if not os.path.exists(meta_p):
            continue
        meta = json.load(open(meta_p))
        prog = os.path.join(wdir, meta["program"])
        res = common.run_batch([(("--gc %s " % meta["gc"]) if meta.get("gc") else "") + prog], timeout=120)[0]
        st = res.get("status", "?") if res else "CRASH:missing"
        so = res.get("stdout", "") if res else ""
        still = not (st == "Ok:0" and so == meta["good_stdout"])
        ctx.stream_stat("known_findings", **{rec["id"]: "still-fails" if still else "no-longer-fails"})
        if still:
            ctx.known(rec["id"], rec["what"])


# ---------------------------------------------------------------------------------------------

def load_corpus():
    """-> (cases, programs): `{"case": ...}` files and `{"program": "x.lay", "good_stdout": ...}` files."""
    d = os.path.join(common.VERIF, "corpus", PROP)
    cases, programs = [], []
    if os.environ.get("C11_NO_CORPUS"):
        return cases, programs      # testing the check itself: do the generated streams alone find a defect?
    if os.path.isdir(d):
        for f in sorted(os.listdir(d)):
            if not f.endswith(".json"):
                continue
            r = json.load(open(os.path.join(d, f)))
            if "program" in r:
                r["_file"] = os.path.join("corpus", PROP, f)
                programs.append(r)
            else:
                c = r["case"]
                if r.get("gc"):
                    c = dict(c, gc=r["gc"])
                cases.append(c)
    return cases, programs


def run_program(meta):
    """One corpus program (a past finding's witness) -> (failed, status, stdout)."""
    prog = os.path.join(common.VERIF, "corpus", PROP, meta["program"])
    res = common.run_batch([(("--gc %s " % meta["gc"]) if meta.get("gc") else "") + prog], timeout=120)[0]
    st = res.get("status", "?") if res else "CRASH:missing"
    so = res.get("stdout", "") if res else ""
    return not (st == "Ok:0" and so == meta["good_stdout"]), st, so


def check_programs(ctx, programs):
    """The regression programs: each must end normally with exactly its expected output."""
    n_bad = 0
    for meta in programs:
        bad, st, so = run_program(meta)
        ctx.cov["traces_validated_against_impl"] += 1
        ctx.count_case("program " + meta["program"] + " " + str(meta.get("gc")))
        if bad and not n_bad:
            prog = os.path.join(common.VERIF, "corpus", PROP, meta["program"])
            ctx.cov["impl_vs_spec_failures"] += 1
            ctx.violation("corpus_program_spec", {
                "engine": "coll", "kind": "implementation-vs-spec", "seed": ctx.seed,
                "what": "regression program %s (%s): expected status Ok:0 and the output below, the implementation "
                        "ended with %s and printed %r" % (meta["program"], meta.get("what", ""), st, so),
                "program_file": os.path.join("corpus", PROP, meta["program"]), "program": open(prog).read(),
                "gc": meta.get("gc"), "good_stdout": meta["good_stdout"], "impl_status": st, "impl_stdout": so,
                "corpus_entry": meta["_file"], "replay": "./check C11 --replay <this file>"})
        n_bad += bad
    ctx.stream_stat("corpus_programs", programs=len(programs), failing=n_bad)
    return n_bad == 0


def run(ctx):
    proved = ctx.prove("LaytheVerif.Props.C11", extra_targets=("drv_coll",))
    ok_c, out_c = common.cargo_build(bin="vharness")
    if not ok_c:
        ctx.violation("harness_build", {"kind": "harness-build-failed", "broken": "cargo build of /verif/harness against /repo",
                                        "output": out_c[-3000:]}, no_input=True)
        return
    ok_l, out_l = (True, "") if os.path.exists(DRV) else common.lake_build(["drv_coll"])
    if not os.path.exists(DRV):
        ctx.violation("driver_build", {"kind": "driver-build-failed", "broken": "lake build drv_coll", "output": out_l[-3000:]},
                      no_input=True)
        return
    ctx.cov["rule"] = ("one case = one receiver (list/tuple/string/map/iterator program) and <= 20 operations; boundary "
                       "indices (0, len-1, len, -len, -len-1, +-0.5, +-1.5, NaN, +-inf, +-2^53, +-2^63, +-2^64, non-numbers) "
                       "exhaustively for lengths 0-4 on get/set/insert/remove/slice/take/skip/times/until; growth of "
                       "pre-sized lists from capacity 0-3; every sort comparator (consistent, fractional, non-number, NaN, "
                       "raising) on lengths 0-4; every kind of non-iterator argument to zip/chain/List.collect/"
                       "Tuple.collect; multi-byte strings; callbacks that log, raise, or grow a neighbouring list; `len` of every "
                       "source bare and under every adaptor after 0-4 `next`s; `skip` over every effectful callback stage with "
                       "the log printed before the result is advanced; hash-map iterators by the number of elements left; "
                       "operations run in a lambda under a try or (30%) inline in the try of the driving frame; "
                       "non-trivial = an error was raised, or an iterator program, or more than two operations; "
                       "distinct by the case text")
    corpus, programs = load_corpus()
    if not proved:
        what, detail = ctx.broken
        # the regression programs first: the shortest concrete input when a repaired defect is back
        if not check_programs(ctx, programs):
            replay_findings(ctx)
            return      # one root cause, one VIOLATION line
        if not check_mapiter(ctx, random.Random(ctx.seed * 7907 + 5), ctx.n(600, 3000)):
            replay_findings(ctx)
            return      # one root cause, one VIOLATION line
        found = search(ctx, scale=ctx.n(4, 10))
        if found:
            found["broken_obligation"] = what
            ctx.violation("spec", found)
            replay_findings(ctx)
            return      # one root cause, one VIOLATION line
        else:
            ctx.violation("proof", {"kind": "proof-obligation-failed", "broken": what, "detail": detail}, no_input=True)
    replay_findings(ctx)
    if proved and not check_programs(ctx, programs):
        return
    rng = random.Random(ctx.seed * 1000003 + 11)
    streams = []
    if corpus:
        streams.append(("corpus", corpus, None))
    streams.append(("boundary", exhaustive_cases(full=not ctx.quick()), None))
    q = ctx.n(2, 40)
    streams.append(("random", random_cases(rng, 4000 * q, 1000 * q, 1500 * q, 1500 * q, 6000 * q), None))
    gc_cases = random_cases(rng, 600 * q, 0, 200 * q, 200 * q, 1200 * q)
    streams.append(("random_gc", gc_cases, "coin:1/3:%d" % ctx.seed))
    streams.append(("random_gc_every", gc_cases[::3], "every:1"))
    for label, cases, gc in streams:
        if label == "random" and not check_mapiter(ctx, rng, ctx.n(300, 3000)):
            return
        ok, fs, ft = check_cases(ctx, label, cases, gc=gc)
        if label == "random" and cases:
            for kind in ("list", "iter", "str"):
                c = next((x for x in cases if x["kind"] == kind and len(x["ops"]) >= 4), None)
                if c:
                    ctx.sample({"case": case_line(c)[:400], "impl": run_impl([c])[0][1][:12]})
        if not ok:
            report(ctx, label, fs, ft, search, gc=gc)
            return
    ctx.assumptions += [
        "the models (Model/Collections.lean, Model/CollectionsIter.lean) are hand-written from the Rust text; agreement is checked on the streams, not proved",
        "numbers are modelled as integers plus fractional/NaN/infinity flags; only integer-valued numbers are printed",
        "iterators are used linearly (an iterator given to zip/chain/an adaptor is not used again): the model has no aliasing between iterators",
        "map iteration order, NaN and -0 keys are not compared (D8)",
        "each operation runs under a module-level try, either in a zero-argument lambda called from it or (30% of the random cases) inline, so that the handler is in the frame that drives the native; nested handlers and handlers inside callbacks are C04's business",
        "sort comparators are pure functions of their two arguments whose failures all have one class per case (which failing comparison comes first is the sorting algorithm's choice)",
        "the Spec of iterator programs is the Python-generator monitor spec_iter (Python's own lazy map/filter/islice/zip/chain)",
        "iterators over hash maps are outside the case language and the Lean model (their order depends on addresses); only how many elements they have left (len, next, list().len() alone and under take/skip/chain/zip) is judged, by a counter (stream map_iter_len)",
    ]


def replay(path):
    r = json.load(open(path))
    common.cargo_build(bin="vharness")
    if "case" not in r and "program_file" in r:
        meta = {"program": os.path.basename(r["program_file"]), "good_stdout": r["good_stdout"], "gc": r.get("gc")}
        bad, st, so = run_program(meta)
        print("program :", r["program_file"], "gc", r.get("gc"))
        print("expected: Ok:0", repr(r["good_stdout"]))
        print("impl    :", st, repr(so))
        return 1 if bad else 0
    if "mapiter_case" in r:
        case = r["mapiter_case"]
        st, so = run_mapiter([case])[0]
        print("map with", case["entries"], "entries, its iterator:", "; ".join(case["ops"]))
        print("expected: Ok:0", repr(spec_mapiter(case)))
        print("impl    :", st, repr(so))
        return 1 if not (st == "Ok:0" and so == spec_mapiter(case)) else 0
    case = r["case"]
    common.lake_build(["drv_coll"])
    mo, sf, tf = rejudge(case)
    st, impl = run_impl([case])[0]
    print("case :", case_line(case), ("gc " + case["gc"]) if case.get("gc") else "", "direct" if case.get("direct") else "")
    print("model:", mo)
    print("impl :", st, impl)
    print("implementation-vs-spec:", sf)
    print("model-vs-implementation:", tf)
    return 1 if (sf or tf) else 0
