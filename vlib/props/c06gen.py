"""C06 directed generator: every row of the compiler's `stack_effect` table in positions where a wrong row is observable.

`apply_stack_effects` (peephole.rs) is a *linear* pass: a wrong row shifts the simulated depth of everything that follows it
on the same straight line (until a label entered only by jumps recorded before the instruction resets the count).  What the
pass produces from the count is (1) the depth every later `PushHandler` records and (2) `max_slots`.  So a row is exercised
only by a function in which the instruction is FOLLOWED, in the same function and the same or a nested block, by
  * a try/catch                    - the recorded handler depth is wrong in either direction (the verified verifier demands
                                     recorded depth = live depth);
  * the function's depth peak      - an under-estimate (repeated: capacity has one slot of slack) lowers max_slots below the
                                     true peak: over-capacity;
  * a join / a loop back edge / a return - the verifier's own clauses on the emitted code (depths agree at joins, exactly the
                                     frame at the back edge, one value at the return).
`gen_programs` produces rich control flow but its class bodies never call `super.m(args)`, never use static methods, fields
through `self.f op= e`, local classes, imports/exports, captured parameters ... and a handler after such an instruction in
the same function was a matter of luck.  Here every *variant of the regenerated instruction set* (`driver verify !variants`)
has one or more source snippets that make the compiler emit it (`SNIPPETS`), each function body is a sequence of segments
`snippet{1..3}; observer`, the variant of a segment is drawn UNIFORMLY over the variants (not by their natural frequency), and
a `focus` list (the rows that differ between the regenerated table and the model, `driver verify !effectdiff`) is drawn with
probability 0.75 when given.  Programs terminate, and every function and method is called from the script inside a try/catch,
so the probe stream executes them.

Nothing here knows a particular defect: the snippets are indexed by instruction name, the observers are the same for all."""
import random


class Fn:
    """What a function body under construction may use."""

    def __init__(self, kind, params=(), has_self=False, fields=(), supers=(), cls_super=False, caps=(), top=False):
        self.kind = kind                    # script | fn | method | init | static | lambda
        self.nums = list(params)            # numeric locals readable/assignable here
        self.caps = list(caps)              # numeric variables of enclosing functions (become captures when used)
        self.has_self = has_self
        self.fields = list(fields)          # numeric fields of self
        self.supers = list(supers)          # (name, arity) reachable through `super.`
        self.cls_super = cls_super          # the class has an explicit superclass
        self.top = top                      # statements are module level (declarations are module symbols)
        self.long_done = False
        self.scopes = [[]]

    def child(self, params=(), kind="lambda"):
        f = Fn(kind, params, self.has_self and kind == "lambda", self.fields if kind == "lambda" else (),
               self.supers if kind == "lambda" else (), self.cls_super if kind == "lambda" else False,
               caps=[] if self.top else self.nums + self.caps)
        return f


RARE_CONTEXT = ["Import", "ImportSym", "Export", "DeclareModSym", "GetSuper", "SuperInvoke", "GetProp", "SetProp", "Dup"]
HELPERS = [("h0", 0), ("h1", 1), ("h2", 2), ("h3", 3)]
BASE_METHODS = [("m0", 0), ("m1", 1), ("m2", 2), ("m3", 3)]


class DGen:
    def __init__(self, rng, focus=None, variants=None):
        self.r = rng
        self.focus = [v for v in (focus or []) if v in SNIPPETS]
        self.variants = [v for v in (variants or sorted(SNIPPETS)) if v in SNIPPETS]
        self.out = []
        self.ind = 0
        self.uid = 0
        self.depth = 0
        self.fnest = 0              # nesting of function bodies under construction
        self.calls = []             # script-level calls that run every function
        self.base = None            # name of the base class
        self.derived = []           # names of subclasses
        self.want = []              # variants asked for (bookkeeping for the caller)

    # -- plumbing ----------------------------------------------------------------------------
    def fresh(self, p="v"):
        self.uid += 1
        return "%s%d" % (p, self.uid)

    def emit(self, s):
        self.out.append("  " * self.ind + s)

    def N(self, fn):
        """numeric atom"""
        r = self.r.random()
        if fn.nums and r < 0.5:
            return self.r.choice(fn.nums)
        if fn.caps and r < 0.65:
            return self.r.choice(fn.caps)
        if fn.has_self and fn.fields and r < 0.75:
            return "self.%s" % self.r.choice(fn.fields)
        return str(self.r.randint(0, 9))

    def C(self, fn):
        return "%s %s %s" % (self.N(fn), self.r.choice(["<", ">", "<=", ">=", "==", "!="]), self.N(fn))

    def let(self, fn, expr, num=True, name=None):
        v = name or self.fresh()
        self.emit("let %s = %s;" % (v, expr))
        if num:
            fn.nums.append(v)
            fn.scopes[-1].append(v)
        return v

    def open(self, fn, head):
        self.emit(head + " {")
        self.ind += 1
        self.depth += 1
        fn.scopes.append([])

    def close(self, fn, tail="}"):
        for v in fn.scopes.pop():
            if v in fn.nums:
                fn.nums.remove(v)
        self.ind -= 1
        self.depth -= 1
        self.emit(tail)

    def roomy(self):
        """nested functions / classes with segment bodies only while the nesting and the program stay small (a focus
        on a variant whose snippet nests would otherwise recurse without end)"""
        return self.fnest < 2 and len(self.out) < 400

    # -- observers ---------------------------------------------------------------------------
    def else_(self, fn, tail="} else {"):
        self.close(fn, tail)
        self.ind += 1
        self.depth += 1
        fn.scopes.append([])

    def obs_handler(self, fn):
        """a try whose handler catches, a local declared and read after it (read one slot off when the depth is wrong)"""
        k = self.r.random()
        self.open(fn, "try")
        if self.r.random() < 0.5:
            self.let(fn, self.N(fn))
        if self.depth < 4 and self.r.random() < 0.12:
            self.obs_handler(fn)        # a handler inside the protected region
        if k < 0.45:
            self.emit('raise Error("r%d");' % self.r.randint(0, 9))
        elif k < 0.65:
            self.emit("%s + nil;" % self.N(fn))
        elif k < 0.8:
            self.emit("thrower(%s);" % self.N(fn))
        else:
            self.emit("print(%s);" % self.N(fn))
        clauses = self.r.choice([[], [], [], ["IndexError"], ["TypeError"], ["IndexError", "TypeError"]]) + ["Error"]
        for n, cls in enumerate(clauses):
            e = self.fresh("e")
            if n == 0:
                self.else_(fn, "} catch %s: %s {" % (e, cls))
            else:
                self.else_(fn, "} catch %s: %s {" % (e, cls))
            self.emit("print(%s.message);" % e)
            if self.r.random() < 0.3:
                self.let(fn, self.N(fn))
            if self.depth < 4 and self.r.random() < 0.2:
                # a handler inside a catch clause: its depth is counted from the label the clause is entered through
                if self.r.random() < 0.5:
                    self.snippet(fn)
                self.obs_handler(fn)
        self.close(fn)
        a = self.let(fn, self.N(fn))
        self.emit("print(%s);" % a)

    def obs_peak(self, fn):
        """an expression deeper than anything a snippet builds"""
        n = self.r.randint(6, 10)
        if self.r.random() < 0.5:
            self.emit("print([%s, [%s]]);" % (", ".join(self.N(fn) for _ in range(n)), ", ".join(self.N(fn) for _ in range(4))))
        else:
            self.emit("print(h3(%s, %s, h3(%s, %s, h3(%s, %s, h2(%s, %s)))));" % tuple(self.N(fn) for _ in range(8)))

    def obs_return(self, fn):
        if fn.kind in ("script", "init"):
            self.emit("if %s { print(%s); }" % (self.C(fn), self.N(fn)))
        else:
            self.emit("if %s { return %s; }" % (self.C(fn), self.N(fn)))

    def observer(self, fn):
        k = self.r.random()
        if k < 0.62:
            self.obs_handler(fn)
        elif k < 0.82:
            self.obs_peak(fn)
            if self.r.random() < 0.4:
                self.obs_handler(fn)
        else:
            self.obs_return(fn)
            if self.r.random() < 0.5:
                self.obs_handler(fn)

    # -- segments ----------------------------------------------------------------------------
    def applicable(self, fn, v):
        return [s for s in SNIPPETS.get(v, []) if s[0](self, fn)]

    def pick_variant(self, fn):
        pool = None
        if self.focus and self.r.random() < 0.75:
            pool = [v for v in self.focus if self.applicable(fn, v)]
        if not pool and self.r.random() < 0.3:
            # variants that only some contexts can produce get their share where they are possible: module level
            # (imports, exports, module symbols), methods of a subclass (`super.`), methods (fields through self)
            here = [v for v in RARE_CONTEXT if v in self.variants and self.applicable(fn, v)]
            if fn.top and self.depth <= 1:
                pool = [v for v in here if v in ("Import", "ImportSym", "Export", "DeclareModSym")]
            elif fn.supers and fn.has_self:
                pool = [v for v in here if v in ("GetSuper", "SuperInvoke")]
            elif fn.has_self:
                pool = [v for v in here if v in ("GetProp", "SetProp", "Dup")]
        if not pool:
            pool = [v for v in self.variants if self.applicable(fn, v)]
        return self.r.choice(pool)

    def snippet(self, fn, v=None):
        v = v or self.pick_variant(fn)
        ss = self.applicable(fn, v)
        if not ss:
            return None
        self.r.choice(ss)[1](self, fn)
        return v

    def segment(self, fn, v=None):
        """snippet{1..3}; observer   - possibly inside a branch or a loop body (the observer stays on the same line)"""
        v = v or self.pick_variant(fn)
        shape = self.r.random()
        nested = self.depth < 3
        if shape < 0.12 and nested:
            self.open(fn, "if %s" % self.C(fn))
            self.snippet(fn, v)
            if self.r.random() < 0.5:
                self.observer(fn)
            if self.r.random() < 0.5:
                self.else_(fn)
                self.snippet(fn)
            self.close(fn)
            self.observer(fn)
        elif shape < 0.22 and nested:
            i = self.let(fn, "0", name=self.fresh("i"))
            self.open(fn, "while %s < %d" % (i, self.r.randint(1, 3)))
            self.emit("%s = %s + 1;" % (i, i))
            self.snippet(fn, v)
            k = self.r.random()
            if k < 0.3:
                self.emit("if %s { continue; }" % self.C(fn))
            elif k < 0.5:
                self.emit("if %s { break; }" % self.C(fn))
            self.observer(fn)
            self.close(fn)
        else:
            for _ in range(self.r.choice([1, 1, 1, 2, 2, 3])):
                self.snippet(fn, v)
            self.observer(fn)
        self.want.append(v)

    def body(self, fn, nseg=None):
        nseg = nseg if nseg is not None else self.r.randint(1, 2)
        for _ in range(nseg):
            self.segment(fn)

    # -- functions, classes ------------------------------------------------------------------
    def params(self, ar):
        return [self.fresh("a") for _ in range(ar)]

    def fun(self, outer, name=None, ar=None, kind="fn", fnobj=None, nseg=None, call=True):
        """a function declaration whose body is a sequence of segments; returns (name, arity)"""
        name = name or self.fresh("f")
        ar = self.r.randint(0, 3) if ar is None else ar
        ps = self.params(ar)
        fn = fnobj or (outer.child(ps, "fn") if outer else Fn("fn", ps))
        fn.nums = list(ps) + [v for v in fn.nums if v not in ps]
        head = {"fn": "fn %s(%s)", "method": "%s(%s)", "init": "%s(%s)", "static": "static %s(%s)"}[fn.kind if fn.kind != "lambda" else "fn"]
        self.emit((head % (name, ", ".join(ps))) + " {")
        self.ind += 1
        save = self.depth
        self.depth = 1
        if fn.kind == "init":
            if fn.cls_super:
                self.emit("super.init(%s);" % (ps[0] if ps else "0"))
            for f in fn.fields:
                self.emit("self.%s = %s;" % (f, ps[0] if ps and self.r.random() < 0.5 else self.r.randint(0, 9)))
        self.fnest += 1
        self.body(fn, nseg)
        self.fnest -= 1
        if fn.kind != "init":
            self.emit("return %s;" % self.N(fn))
        self.depth = save
        self.ind -= 1
        self.emit("}")
        return name, ar

    def simple_class(self, name, parent=None):
        """the base of the hierarchy: plain methods that never call back into `self` methods (no recursion through overrides)"""
        fields = ["f0", "f1"]
        self.emit("class %s%s {" % (name, " : " + parent if parent else ""))
        self.ind += 1
        fn = Fn("init", has_self=True, fields=fields, cls_super=bool(parent))
        self.fun(None, "init", 1, fnobj=fn, nseg=self.r.randint(0, 1))
        for m, ar in BASE_METHODS:
            fn = Fn("method", has_self=True, fields=fields, cls_super=bool(parent))
            self.fun(None, m, ar, fnobj=fn, nseg=self.r.choice([0, 0, 1, 1, 2]))
        fn = Fn("static")
        self.fun(None, "s1", 1, fnobj=fn, nseg=self.r.randint(0, 1))
        self.ind -= 1
        self.emit("}")
        return fields

    def sub_class(self, name, parent, fields, supers):
        """a subclass: every method body is a segment sequence with `super.` in reach"""
        own = [self.fresh("g")]
        self.emit("class %s : %s {" % (name, parent))
        self.ind += 1
        fn = Fn("init", has_self=True, fields=own, supers=[s for s in supers if s[0] != "init"], cls_super=True)
        self.fun(None, "init", 1, fnobj=fn, nseg=self.r.randint(0, 2))
        allf = fields + own
        names = []
        for m, ar in self.r.sample(BASE_METHODS, self.r.randint(1, 3)) + [(self.fresh("n"), self.r.randint(0, 2))]:
            fn = Fn("method", has_self=True, fields=allf, supers=supers, cls_super=True)
            self.fun(None, m, ar, fnobj=fn, nseg=self.r.randint(1, 2))
            names.append((m, ar))
        statics = []
        if self.r.random() < 0.5:
            fn = Fn("static")
            statics.append(self.fun(None, self.fresh("s"), 1, fnobj=fn, nseg=1)[0])
        self.ind -= 1
        self.emit("}")
        return allf, names, statics

    def call_guarded(self, expr):
        e = self.fresh("e")
        self.emit("try { print(%s); } catch %s: Error { print(%s.message); }" % (expr, e, e))

    def program(self):
        r = self.r
        top = Fn("script", top=True)
        self.top = top
        self.emit("fn h0() { return 1; }")
        self.emit("fn h1(a) { return a; }")
        self.emit("fn h2(a, b) { return a; }")
        self.emit("fn h3(a, b, c) { return c; }")
        self.emit('fn thrower(a) { raise Error("t"); }')
        self.let(top, str(r.randint(0, 9)), name=self.fresh("g"))
        self.depth = 1
        # module-level segments before the classes (imports, exports, module symbols, then a handler)
        self.body(top, r.randint(0, 2))
        # while the base class is being written nothing may instantiate or extend it (its methods would recurse)
        base = self.fresh("B")
        fields = self.simple_class(base)
        self.base = base
        supers = list(BASE_METHODS)
        parent, pf = self.base, fields
        calls = [("%s(1).%s(%s)" % (self.base, m, ", ".join("2" for _ in range(ar)))) for m, ar in BASE_METHODS]
        calls.append("%s.s1(3)" % base)
        for _ in range(r.randint(1, 2)):
            d = self.fresh("D")
            dpf, names, statics = self.sub_class(d, parent, pf, supers)
            self.derived.append(d)
            for m, ar in names:
                calls.append("%s(1).%s(%s)" % (d, m, ", ".join(str(r.randint(0, 5)) for _ in range(ar))))
            for m in statics:
                calls.append("%s.%s(4)" % (d, m))
            if r.random() < 0.6:
                parent, pf = d, dpf
                supers = list(dict.fromkeys(supers + [n for n in names]))
        self.body(top, r.randint(0, 1))
        for _ in range(r.randint(1, 2)):
            name, ar = self.fun(None, fnobj=None)
            calls.append("%s(%s)" % (name, ", ".join(str(r.randint(0, 5)) for _ in range(ar))))
        self.body(top, r.randint(1, 2))
        for c in calls:
            self.call_guarded(c)
        return "\n".join(self.out) + "\n"


# -- snippets: variant -> [(applicable(g, fn), emit(g, fn))] ----------------------------------------
SNIPPETS = {}


def snip(*variants, when=None):
    def deco(f):
        for v in variants:
            SNIPPETS.setdefault(v, []).append((when or (lambda g, fn: True), f))
        return f
    return deco


def in_sub_method(g, fn):
    return bool(fn.supers) and fn.has_self


def in_method(g, fn):
    return fn.has_self and bool(fn.fields)


def at_top(g, fn):
    return fn.top and g.depth <= 1


def not_top(g, fn):
    return not fn.top


@snip("Negate")
def _(g, fn):
    g.let(fn, "-%s" % g.N(fn))


@snip("Add", "Subtract", "Multiply", "Divide", "Constant", "GetLocal", "Drop", "DropN", "Return", "Label")
def _(g, fn):
    g.let(fn, "%s %s %s" % (g.N(fn), g.r.choice(["+", "-", "*", "/"]), g.N(fn)))


@snip("Add", "Subtract", "Multiply", "Divide", "SetLocal", "SetModSym", "SetBox", "SetCapture")
def _(g, fn):
    # loop counters (i<n>) are read-only: the loops stay bounded
    vs = [v for v in (fn.nums or fn.caps) if not v.startswith("i")]
    if not vs:
        vs = [g.let(fn, g.N(fn))]
    v = g.r.choice(vs)
    if g.r.random() < 0.5:
        g.emit("%s = %s;" % (v, g.N(fn)))
    else:
        g.emit("%s %s= %s;" % (v, g.r.choice(["+", "-", "*", "/"]), g.N(fn)))


@snip("Not")
def _(g, fn):
    g.let(fn, "!(%s)" % g.C(fn), num=False)


@snip("And", "Or", "Label")
def _(g, fn):
    g.let(fn, "(%s) %s (%s)" % (g.C(fn), g.r.choice(["&&", "||"]), g.C(fn)), num=False)


@snip("Equal", "NotEqual", "Greater", "GreaterEqual", "Less", "LessEqual")
def _(g, fn):
    g.let(fn, g.C(fn), num=False)


@snip("Nil", "True", "False")
def _(g, fn):
    g.let(fn, g.r.choice(["nil", "true", "false"]), num=False)


@snip("ConstantLong", when=lambda g, fn: not fn.long_done)
def _(g, fn):
    # more than 256 distinct constants in this function: every later constant of the function is a ConstantLong
    fn.long_done = True
    base = g.r.randint(1, 9)
    for k in range(9):
        g.let(fn, "[%s]" % ", ".join("%d.%03d" % (base, k * 30 + j) for j in range(30)), num=False)
    g.let(fn, "%d.5" % (base + 20))


@snip("List", "Tuple", "Map")
def _(g, fn):
    n = g.r.randint(0, 4)
    k = g.r.randrange(3)
    if k == 0:
        g.let(fn, "[%s]" % ", ".join(g.N(fn) for _ in range(n)), num=False)
    elif k == 1:
        g.let(fn, "(%s)" % ", ".join(g.N(fn) for _ in range(max(n, 2))), num=False)
    else:
        g.let(fn, "{%s}" % ", ".join('"k%d": %s' % (j, g.N(fn)) for j in range(n)), num=False)


@snip("Launch")
def _(g, fn):
    name, ar = g.r.choice(HELPERS)
    g.emit("launch %s(%s);" % (name, ", ".join(g.N(fn) for _ in range(ar))))


@snip("Channel")
def _(g, fn):
    g.let(fn, "chan()", num=False)


@snip("BufferedChannel", "Send", "Receive")
def _(g, fn):
    c = g.let(fn, "chan(%d)" % g.r.randint(1, 3), num=False, name=g.fresh("c"))
    g.emit("%s <- %s;" % (c, g.N(fn)))
    if g.r.random() < 0.7:
        g.let(fn, "<- %s" % c)


@snip("Interpolate", "Invoke", "InvokeSlot")
def _(g, fn):
    g.let(fn, '"a${%s}b%s"' % (g.N(fn), "${%s}c" % g.N(fn) if g.r.random() < 0.5 else ""), num=False)


@snip("IterNext", "IterCurrent", "Loop", "JumpIfFalse")
def _(g, fn):
    if g.depth >= 4:
        g.let(fn, "[1].len()")
        return
    x = g.fresh("x")
    g.open(fn, "for %s in %s" % (x, g.r.choice(["[1, 2]", "2.times()", "[%s]" % g.N(fn)])))
    fn.nums.append(x)
    fn.scopes[-1].append(x)
    g.snippet(fn)
    if g.r.random() < 0.7:
        g.observer(fn)
    g.close(fn)


@snip("Loop", "JumpIfFalse", "Jump")
def _(g, fn):
    if g.depth >= 4:
        g.emit("if %s { print(1); } else { print(2); }" % g.C(fn))
        return
    i = g.let(fn, "0", name=g.fresh("i"))
    g.open(fn, "while %s < 2" % i)
    g.emit("%s = %s + 1;" % (i, i))
    g.snippet(fn)
    if g.r.random() < 0.7:
        g.observer(fn)
    g.close(fn)


@snip("JumpIfFalse", "Jump", "Label")
def _(g, fn):
    if g.r.random() < 0.5:
        g.let(fn, "%s ? %s : %s" % (g.C(fn), g.N(fn), g.N(fn)))
    else:
        g.emit("if %s { print(%s); } else { print(%s); }" % (g.C(fn), g.N(fn), g.N(fn)))


@snip("Dup", "Invoke", "InvokeSlot")
def _(g, fn):
    l = g.let(fn, "[%s, %s]" % (g.N(fn), g.N(fn)), num=False, name=g.fresh("l"))
    k = g.r.random()
    if k < 0.4:
        g.emit("%s[0] %s= %s;" % (l, g.r.choice(["+", "-", "*"]), g.N(fn)))
    elif k < 0.6:
        g.emit("%s[1] = %s;" % (l, g.N(fn)))
    elif k < 0.8:
        g.let(fn, "%s[0]" % l)
    else:
        g.let(fn, "%s.len()" % l)


@snip("Dup", "GetProp", "SetProp", "GetPropByName", "SetPropByName", "PropertySlot", when=in_method)
def _(g, fn):
    # in a class without explicit superclass these are GetProp/SetProp (known field slots), otherwise the ByName forms
    f = g.r.choice(fn.fields)
    k = g.r.random()
    if k < 0.35:
        g.emit("self.%s %s= %s;" % (f, g.r.choice(["+", "-", "*"]), g.N(fn)))
    elif k < 0.55:
        g.emit("@%s = %s;" % (f, g.N(fn)))
    elif k < 0.75:
        g.let(fn, "@%s" % f)
    else:
        g.emit("self.%s = self.%s = %s;" % (f, g.r.choice(fn.fields), g.N(fn)))


@snip("GetPropByName", "SetPropByName", "PropertySlot", "Dup", "Invoke", "InvokeSlot", when=lambda g, fn: g.base is not None)
def _(g, fn):
    o = g.let(fn, "%s(%s)" % (g.base, g.N(fn)), num=False, name=g.fresh("o"))
    k = g.r.random()
    if k < 0.25:
        g.let(fn, "%s.f0" % o)
    elif k < 0.5:
        g.emit("%s.f1 = %s;" % (o, g.N(fn)))
    elif k < 0.7:
        g.emit("%s.f0 %s= %s;" % (o, g.r.choice(["+", "-"]), g.N(fn)))
    elif k < 0.85:
        g.let(fn, "%s.m0()" % o)
    else:
        m, ar = g.r.choice(BASE_METHODS[1:])
        g.let(fn, "%s.%s(%s)" % (o, m, ", ".join(g.N(fn) for _ in range(ar))))


@snip("Import", when=at_top)
def _(g, fn):
    m = g.fresh("mod")
    g.emit("import std.math as %s;" % m)
    g.let(fn, "%s.abs(%s)" % (m, g.N(fn)))


@snip("ImportSym", when=at_top)
def _(g, fn):
    a = g.fresh("abs")
    if g.r.random() < 0.5:
        g.emit("import std.math:{abs as %s};" % a)
    else:
        g.emit("import std.math:{abs as %s, max as %s};" % (a, g.fresh("max")))
    g.let(fn, "%s(%s)" % (a, g.N(fn)))


@snip("Export", when=at_top)
def _(g, fn):
    k = g.r.random()
    if k < 0.6:
        v = g.fresh("x")
        g.emit("export let %s = %s;" % (v, g.N(fn)))
        fn.nums.append(v)
    else:
        g.emit("export fn %s(a) { return a; }" % g.fresh("xf"))


@snip("DeclareModSym", "SetModSym", "GetModSym", "LoadGlobal", when=at_top)
def _(g, fn):
    v = g.let(fn, g.N(fn))
    g.emit("%s = %s + %s;" % (v, v, g.N(fn)))


@snip("GetModSym", "Call", "ArgumentDelimiter")
def _(g, fn):
    name, ar = g.r.choice(HELPERS)
    g.let(fn, "%s(%s)" % (name, ", ".join(g.N(fn) for _ in range(ar))))


@snip("Box", "GetBox", "Closure", "CaptureIndex", "GetCapture")
def _(g, fn):
    # a captured parameter: `Box slot` at the entry of the inner function, then its segments
    name = g.fresh("bx")
    ps = g.params(g.r.randint(1, 3))
    inner = fn.child(ps, "fn")
    inner.nums = list(ps)
    g.emit("fn %s(%s) {" % (name, ", ".join(ps)))
    g.ind += 1
    save = g.depth
    g.depth = 2
    g.fnest += 1
    cap = g.r.choice(ps)
    f = g.fresh("k")
    g.emit("let %s = || %s + 1;" % (f, cap))
    g.observer(inner)
    if g.r.random() < 0.5:
        g.emit("%s = %s;" % (cap, g.N(inner)))
    if g.roomy():
        g.segment(inner)
    g.emit("return %s() + %s;" % (f, cap))
    g.fnest -= 1
    g.depth = save
    g.ind -= 1
    g.emit("}")
    g.let(fn, "%s(%s)" % (name, ", ".join(g.N(fn) for _ in ps)))


@snip("EmptyBox", "FillBox", "GetBox", "SetBox", "Closure", "CaptureIndex", when=not_top)
def _(g, fn):
    v = g.let(fn, g.N(fn))
    f = g.fresh("k")
    g.emit("let %s = || %s;" % (f, v))
    k = g.r.random()
    if k < 0.4:
        g.emit("%s = %s;" % (v, g.N(fn)))
    elif k < 0.7:
        g.emit("%s += %s();" % (v, f))
    else:
        g.let(fn, "%s + %s()" % (v, f))


@snip("GetCapture", "SetCapture", "Closure", "CaptureIndex", "GetBox", "SetBox", "EmptyBox", "FillBox", when=not_top)
def _(g, fn):
    # a closure whose own body is a segment sequence: the captured variables are atoms there
    if g.depth >= 3 or not g.roomy():
        v = g.let(fn, g.N(fn))
        g.emit("let %s = || { %s = %s + 1; return %s; };" % (g.fresh("k"), v, v, v))
        return
    v = g.let(fn, g.N(fn))
    f = g.fresh("k")
    ps = g.params(g.r.randint(0, 2))
    inner = fn.child(ps, "lambda")
    inner.caps = [v] + [c for c in inner.caps if c != v][:2]
    inner.nums = list(ps)
    g.emit("let %s = |%s| {" % (f, ", ".join(ps)))
    g.ind += 1
    save = g.depth
    g.depth += 1
    if g.r.random() < 0.6:
        g.emit("%s = %s + 1;" % (v, v))
    else:
        g.let(inner, "%s * 2" % v)
    g.fnest += 1
    g.observer(inner)
    if g.r.random() < 0.5 and g.roomy():
        g.segment(inner)
    g.fnest -= 1
    g.emit("return %s;" % g.N(inner))
    g.depth = save
    g.ind -= 1
    g.emit("};")
    g.let(fn, "%s(%s)" % (f, ", ".join(g.N(fn) for _ in ps)))


@snip("GetSuper", when=in_sub_method)
def _(g, fn):
    # with arguments the bound method survives the peephole pass (GetSuper + Call); without, it is fused (SuperInvoke)
    ms = [s for s in fn.supers if s[1] >= 1] or fn.supers
    m, ar = g.r.choice(ms)
    k = g.r.random()
    if k < 0.75 and ar >= 1:
        g.let(fn, "super.%s(%s)" % (m, ", ".join(g.N(fn) for _ in range(ar))))
    elif k < 0.9:
        b = g.let(fn, "super.%s" % m, num=False, name=g.fresh("b"))
        g.let(fn, "%s(%s)" % (b, ", ".join(g.N(fn) for _ in range(ar))))
    else:
        g.emit("print(h2(super.%s(%s), %s));" % (m, ", ".join(g.N(fn) for _ in range(ar)), g.N(fn)))


@snip("SuperInvoke", when=in_sub_method)
def _(g, fn):
    ms = [s for s in fn.supers if s[1] == 0]
    if not ms:
        g.let(fn, "super.m0()")
        return
    g.let(fn, "super.%s()" % g.r.choice(ms)[0])


@snip("Class", "Inherit", "Method", "Field", "StaticMethod", "Closure")
def _(g, fn):
    # a class declared where the segment stands (module level or local): Class, Inherit, Closure+Method per method,
    # Field per field recorded in init, StaticMethod
    if g.depth >= 3 or not g.roomy():
        c = g.fresh("L")
        g.emit("class %s { init(a) { self.q = a; } mm(a) { return a; } static ss(a) { return a; } }" % c)
        g.let(fn, "%s.ss(%s)" % (c, g.N(fn)))
        return
    c = g.fresh("L")
    parent = g.base if g.base and g.r.random() < 0.6 else None
    g.emit("class %s%s {" % (c, " : " + parent if parent else ""))
    g.ind += 1
    save = g.depth
    g.depth = 3
    nf = g.r.randint(0, 3)
    fields = ["q%d" % j for j in range(nf)]
    g.emit("init(a) {")
    g.ind += 1
    if parent:
        g.emit("super.init(a);")
    for f in fields:
        g.emit("self.%s = a;" % f)
    g.ind -= 1
    g.emit("}")
    mname = g.fresh("mm")
    mfn = Fn("method", has_self=True, fields=fields + (["f0"] if parent else []), supers=list(BASE_METHODS) if parent else [],
             cls_super=bool(parent))
    g.fun(None, mname, 1, fnobj=mfn, nseg=g.r.randint(0, 1))
    has_static = g.r.random() < 0.7
    if has_static:
        g.emit("static ss(a, b) { return a; }")
        if g.r.random() < 0.4:
            g.emit("static st() { return 3; }")
    g.depth = save
    g.ind -= 1
    g.emit("}")
    if has_static and g.r.random() < 0.5:
        g.let(fn, "%s.ss(%s, %s)" % (c, g.N(fn), g.N(fn)))
    else:
        g.let(fn, "%s(%s).%s(%s)" % (c, g.N(fn), mname, g.N(fn)))


@snip("PushHandler", "CheckHandler", "GetError", "FinishUnwind", "ContinueUnwind", "PopHandler", "Raise", "Jump", "Label")
def _(g, fn):
    g.obs_handler(fn)


@snip("PopHandler", "Return", when=lambda g, fn: fn.kind not in ("script", "init"))
def _(g, fn):
    # leaving the frame from inside a try: PopHandler before the Return
    e = g.fresh("e")
    g.emit("try { if %s { return %s; } print(%s); } catch %s: Error { print(%s.message); }" % (g.C(fn), g.N(fn), g.N(fn), e, e))


def variants_with_snippets():
    return sorted(SNIPPETS)


def gen_program(seed, focus=None, variants=None):
    g = DGen(random.Random(seed), focus, variants)
    return g.program(), g.want


if __name__ == "__main__":
    import sys
    src, want = gen_program(int(sys.argv[1]) if len(sys.argv) > 1 else 1, sys.argv[2:] or None)
    print(src)
