"""C19, the fiber half of a session: channels, worker functions, `launch`, sends and receives spread
over prompt entries (helpers of vlib/props/c19.py).

A statement that has to do with fibers carries a key "fib" (JSON: survives the corpus / replay files):
  {"chan": [name, cap|None]}                         let NAME = chan(cap);  /  chan();
  {"pf": [name, a, b]}                               fn NAME(p) { return p * a + b; }       (pure)
  {"acccls": name} / {"acc": [name, class]}          the accumulator class / one instance (n = 0)
  {"wfn": [name, kinds, ops]}                        a worker function: kinds[i] in "i" (channel it receives
                                                     from) / "o" (channel it sends on) / "a" (its accumulator);
                                                     ops: ["r", param, var] | ["s", param, expr]
  {"main": [op, ..]}                                 what the script does: ["L", wfn, [actual names]] launch,
                                                     ["s", chan, value] send, ["r", chan] receive-and-print
expr:  ["k", n] | ["lin", var, a, b] (var * a + b) | ["pf", fn, var] | ["pfk", fn, n] | ["add", param, expr]
       (c.add(expr): the running sum) | ["plus", e1, e2]

Schedule independence.  Every session is a Kahn process network: every channel has ONE sending and
ONE receiving process (the scripts of all entries together count as one process — in the
concatenated module they are one fiber), receives and sends block, no `close`, workers print nothing
and share no mutable state (an accumulator instance belongs to one fiber; functions they call are
pure).  What the scripts receive is therefore the same under every schedule: `plan` computes it with
a run-everything-to-quiescence evaluation (the Spec for the values), and the implementation must
print exactly that at the prompt and as one module — although the two runs schedule differently (a
new main fiber per entry, no parent bias towards the scripts of earlier entries).
"""
import copy

RLINE = "r "      # a script's receive prints `r <value>`


class Kahn:
    """the abstract network, evaluated with maximal progress after every operation of the script"""

    def __init__(self):
        self.ch = {}          # name -> {"cap", "q", "idx", "snd", "rcv"}
        self.order = []       # channel names in creation order
        self.pf = {}          # pure function -> (a, b)
        self.acccls = set()
        self.acc = {}         # accumulator instance -> {"n", "owner"}
        self.wf = {}          # worker function -> (kinds, ops)
        self.inst = []        # launched fibers
        self.out = []         # what the scripts received, in order
        self.src = []         # for every received value: index of the fiber that sent it

    # -- definitions ---------------------------------------------------------------------
    def define(self, fib):
        if "chan" in fib:
            name, cap = fib["chan"]
            self.ch[name] = {"cap": cap, "q": [], "idx": len(self.order), "snd": None, "rcv": None}
            self.order.append(name)
        elif "pf" in fib:
            name, a, b = fib["pf"]
            self.pf[name] = (a, b)
        elif "acccls" in fib:
            self.acccls.add(fib["acccls"])
        elif "acc" in fib:
            name, cls = fib["acc"]
            if cls not in self.acccls:
                return False
            self.acc[name] = {"n": 0, "owner": None}
        elif "wfn" in fib:
            name, kinds, ops = fib["wfn"]
            for op in ops:
                if not self.expr_ok(op[2]) if op[0] == "s" else False:
                    return False
            self.wf[name] = (kinds, ops)
        return True

    def expr_ok(self, e):
        if e[0] in ("pf", "pfk"):
            return e[1] in self.pf
        if e[0] == "add":
            return self.expr_ok(e[2])
        if e[0] == "plus":
            return self.expr_ok(e[1]) and self.expr_ok(e[2])
        return True

    # -- evaluation ----------------------------------------------------------------------
    def value(self, f, e):
        k = e[0]
        if k == "k":
            return e[1]
        if k == "lin":
            return f["vars"][e[1]] * e[2] + e[3]
        if k == "pf":
            a, b = self.pf[e[1]]
            return f["vars"][e[2]] * a + b
        if k == "pfk":
            a, b = self.pf[e[1]]
            return e[2] * a + b
        if k == "add":
            acc = self.acc[f["env"][e[1]]]
            acc["n"] += self.value(f, e[2])
            return acc["n"]
        if k == "plus":
            return self.value(f, e[1]) + self.value(f, e[2])
        raise ValueError(e)

    def room(self, c):
        return len(c["q"]) < (1 if c["cap"] is None else c["cap"])

    def step_fiber(self, i):
        f = self.inst[i]
        if f["ack"] is not None:
            if self.ch[f["ack"]]["q"]:
                return False
            f["ack"] = None
            return True
        if f["pc"] >= len(f["ops"]):
            return False
        op = f["ops"][f["pc"]]
        c = self.ch[f["env"][op[1]]]
        if op[0] == "r":
            if not c["q"]:
                return False
            v, _ = c["q"].pop(0)
            f["vars"][op[2]] = v
            f["resolved"].append(["r", op[1]])
        else:
            if not self.room(c):
                return False
            v = self.value(f, op[2])
            c["q"].append((v, i))
            f["resolved"].append(["s", op[1], v])
            if c["cap"] is None:
                f["ack"] = f["env"][op[1]]
        f["pc"] += 1
        return True

    def settle(self):
        progress = True
        while progress:
            progress = False
            for i in range(len(self.inst)):
                while self.step_fiber(i):
                    progress = True

    def claim(self, name, role, who):
        c = self.ch[name]
        if c[role] is None:
            c[role] = who
        return c[role] == who

    def main_op(self, op):
        """one channel / fiber operation of a script; False if it is ill-formed or would never complete"""
        if op[0] == "L":
            fn, actuals = op[1], op[2]
            if fn not in self.wf:
                return False
            kinds, ops = self.wf[fn]
            if len(kinds) != len(actuals):
                return False
            me = len(self.inst)
            seen = set()
            for k, a in zip(kinds, actuals):
                if a in seen:
                    return False
                seen.add(a)
                if k == "a":
                    if a not in self.acc or self.acc[a]["owner"] is not None:
                        return False
                elif a not in self.ch or self.ch[a]["rcv" if k == "i" else "snd"] is not None:
                    return False
            for k, a in zip(kinds, actuals):
                if k == "a":
                    self.acc[a]["owner"] = me
                else:
                    self.claim(a, "rcv" if k == "i" else "snd", me)
            self.inst.append({"fn": fn, "ops": ops, "pc": 0, "env": list(actuals), "kinds": kinds, "vars": {}, "ack": None,
                              "resolved": []})
            self.settle()
            return True
        if op[1] not in self.ch:
            return False
        c = self.ch[op[1]]
        if op[0] == "s":
            if not self.claim(op[1], "snd", "main"):
                return False
            self.settle()
            if not self.room(c):
                return False
            c["q"].append((op[2], "main"))
            self.settle()
            return not (c["cap"] is None and c["q"])        # a synchronous send returns once the value was taken
        if op[0] == "r":
            if not self.claim(op[1], "rcv", "main"):
                return False
            self.settle()
            if not c["q"]:
                return False
            v, who = c["q"].pop(0)
            self.out.append(v)
            self.src.append(who)
            self.settle()
            return True
        return False

    def pending(self):
        """fibers that have not finished"""
        return sum(1 for f in self.inst if f["pc"] < len(f["ops"]) or f["ack"] is not None)


def executed_statements(entry, entry_fail):
    f = entry_fail(entry)
    if f == "compile":
        return []
    return entry["stmts"] if f is None else entry["stmts"][:f[1]]


def plan(entries, entry_fail):
    """Evaluate the session as a Kahn network.  Returns None if some script operation is ill-formed or
    can never complete (the generator and the shrinker discard such sessions), else a dict:
      per_entry : per entry {"chans": [cap..], "launched": [fiber index..], "main": [model op..], "raises": bool,
                             "compiled": bool, "expect": [values received]}
      bodies    : per launched fiber the model's straight-line body (values resolved)
      expect    : every value the scripts receive, in order
      stats     : counters"""
    k = Kahn()
    per_entry = []
    stats = {"fibers_launched": 0, "script_receives": 0, "script_sends": 0, "receives_in_a_later_entry_than_the_launch": 0,
             "receives_after_a_runtime_error_entry_since_the_launch": 0, "receives_after_a_compile_error_entry_since_the_launch": 0,
             "entries_ending_with_unfinished_fibers": 0, "runtime_error_entries_with_unfinished_fibers": 0,
             "max_entries_between_launch_and_receive": 0, "channels": 0, "synchronous_channels": 0}
    launched_in = []
    for ei, e in enumerate(entries):
        f = entry_fail(e)
        rec = {"chans": [], "launched": [], "main": [], "raises": isinstance(f, tuple), "compiled": f != "compile", "expect": []}
        for st in executed_statements(e, entry_fail):
            fib = st.get("fib")
            if not fib:
                continue
            if "main" in fib:
                for op in fib["main"]:
                    n0 = len(k.out)
                    if not k.main_op(op):
                        return None
                    if op[0] == "L":
                        rec["launched"].append(len(k.inst) - 1)
                        launched_in.append(ei)
                        chan_args = [a for kd, a in zip(k.inst[-1]["kinds"], op[2]) if kd != "a"]
                        rec["main"].append("L %d %s" % (len(k.inst), " ".join(str(k.ch[a]["idx"]) for a in chan_args)))
                        stats["fibers_launched"] += 1
                    elif op[0] == "s":
                        rec["main"].append("s %d %d" % (k.ch[op[1]]["idx"], op[2]))
                        stats["script_sends"] += 1
                    else:
                        rec["main"].append("r %d" % k.ch[op[1]]["idx"])
                        rec["expect"] += k.out[n0:]
                        stats["script_receives"] += 1
                        who = k.src[-1]
                        if who != "main":
                            li = launched_in[who]
                            between = entries[li + 1:ei]
                            stats["receives_in_a_later_entry_than_the_launch"] += ei > li
                            stats["receives_after_a_runtime_error_entry_since_the_launch"] += (
                                any(isinstance(entry_fail(x), tuple) for x in between) or
                                (ei > li and isinstance(entry_fail(entries[li]), tuple)))
                            stats["receives_after_a_compile_error_entry_since_the_launch"] += any(
                                entry_fail(x) == "compile" for x in between)
                            stats["max_entries_between_launch_and_receive"] = max(stats["max_entries_between_launch_and_receive"], ei - li)
            else:
                if not k.define(fib):
                    return None
                if "chan" in fib:
                    rec["chans"].append(fib["chan"][1])
                    stats["channels"] += 1
                    stats["synchronous_channels"] += fib["chan"][1] is None
        if f != "compile" and k.pending():
            stats["entries_ending_with_unfinished_fibers"] += 1
            stats["runtime_error_entries_with_unfinished_fibers"] += isinstance(f, tuple)
        per_entry.append(rec)
    bodies = []
    for fb in k.inst:
        pos, n = {}, 0
        for i, kd in enumerate(fb["kinds"]):
            if kd != "a":
                pos[i] = n
                n += 1
        ops = ["%s %d%s" % (o[0], pos[o[1]], " %d" % o[2] if o[0] == "s" else "") for o in fb["resolved"]]
        for o in fb["ops"][len(fb["resolved"]):]:      # never reached under any schedule: the value is immaterial
            ops.append("r %d" % pos[o[1]] if o[0] == "r" else "s %d 0" % pos[o[1]])
        bodies.append(ops)
    return {"per_entry": per_entry, "bodies": bodies, "expect": list(k.out), "stats": stats, "fibers": len(k.inst)}


def has_fibers(entries):
    return any(st.get("fib") for e in entries for st in e["stmts"])


def model_fiber_lines(rec, bodies):
    """the driver lines of one entry's scheduler half"""
    ls = []
    if rec["chans"]:
        ls.append("fchans " + " ".join("s" if c is None else str(c) for c in rec["chans"]))
    for i in rec["launched"]:
        ls.append("fbody " + ",".join(bodies[i]))
    if rec["main"]:
        ls.append("fmain " + ",".join(rec["main"]))
    if rec["raises"]:
        ls.append("fraises 1")
    return ls


def file_mode_lines(pl):
    """the same operations as ONE script (the concatenated module): one entry of a fresh session"""
    ls = ["reset", "entry 1"]
    chans = [c for r in pl["per_entry"] for c in r["chans"]]
    if chans:
        ls.append("fchans " + " ".join("s" if c is None else str(c) for c in chans))
    for b in pl["bodies"]:
        ls.append("fbody " + ",".join(b))
    main = [o for r in pl["per_entry"] for o in r["main"]]
    if main:
        ls.append("fmain " + ",".join(main))
    ls += ["decls", "refs", "script", "calls", "end"]
    return ls


def parse_fib(line):
    """`..|fib=<end>;<events>;runq=N;parked=N;premature=N` -> dict or None"""
    i = line.find("|fib=")
    if i < 0:
        return None
    parts = line[i + 5:].split(";")
    if len(parts) < 5:
        return None
    ev = parts[1].split()
    return {"end": parts[0], "events": ev, "main": [x[3:] for x in ev if x.startswith("g0:")],
            "runq": int(parts[2].split("=")[1]), "parked": int(parts[3].split("=")[1]), "premature": int(parts[4].split("=")[1])}


# ---------------------------------------------------------------------------------------------
# text


def expr_text(e, params):
    k = e[0]
    if k == "k":
        return str(e[1])
    if k == "lin":
        return "%s * %d + %d" % (e[1], e[2], e[3])
    if k == "pf":
        return "%s(%s)" % (e[1], e[2])
    if k == "pfk":
        return "%s(%d)" % (e[1], e[2])
    if k == "add":
        return "%s.add(%s)" % (params[e[1]], expr_text(e[2], params))
    return "%s + %s" % (expr_text(e[1], params), expr_text(e[2], params))


def expr_ops(e):
    """(module names read, inline-cache sites) of an expression, in emission order"""
    k = e[0]
    if k in ("pf", "pfk"):
        return ["g:" + e[1]]
    if k == "add":
        return expr_ops(e[2]) + ["p"]       # c.add(v): the argument blocks the Invoke fusion — a property site
    if k == "plus":
        return expr_ops(e[1]) + expr_ops(e[2])
    return []


def expr_refs(e):
    return [o[2:] for o in expr_ops(e) if o.startswith("g:")]


def wfn_text(name, kinds, ops):
    params = ["p%d" % i if kd != "a" else "c%d" % i for i, kd in enumerate(kinds)]
    body = []
    for op in ops:
        if op[0] == "r":
            body.append("let %s = <- %s;" % (op[2], params[op[1]]))
        else:
            body.append("%s <- %s;" % (params[op[1]], expr_text(op[2], params)))
    return "fn %s(%s) { %s }" % (name, ", ".join(params), " ".join(body))


def snapshot(state):
    return copy.deepcopy(state)
