"""C15 — the front end is total: any text yields a program or diagnostics, never a crash.  DESIGN.md §5 C15.

Obligations (Lean): LaytheVerif.Props.C15 — scanner totality and span discipline, progress of the declaration loop
with `synchronize`, loop_depth balanced on every path / break and continue accepted only inside a loop of the same
function, the regenerated table of narrowing sites (guarded or saturating), the label limit, the order of the
scoping actions of for_/try_/catch in both passes, the resolver ⇒ compiler lookup contract (every program of the
scoping skeleton, no envelope).
Streams:
  corpus    past failures and the witnesses of repaired defects (corpus/C15/*.json: `input` or a `recipe`, optional
            `expect`: "program" | "diagnostics"), judged by the Spec first on every run
  contract  (tie C + Spec) scoping skeletons: Model/Contract.lean (resolver errors; a clean resolver run never leads to a
            compiler lookup panic) vs the real passes; a front-end crash on a skeleton program is a Spec failure
  scan      (tie A)  model token stream (drv_scanner) vs the real scanner observed through Parser::parse (vh_c15 scan)
  malformed (tie B / Spec) mutated inputs through `vharness runbatch` and the compile-only path; the Spec monitor is
            `judge()` below: terminate; program or >= 1 diagnostic with CompileError; nothing executed on diagnostics
  boundary  counts at the 8/16-bit limits: encoded exactly or reported
  nesting   bounded deep nesting (regression depth <= NEST_MAX, far below the measured host-stack limit)
  repl      an erroneous entry does not disturb earlier definitions
"""
import concurrent.futures
import json
import os
import random
import re
import resource
import shutil
import subprocess
import tempfile
import time

from .. import common
from . import c15_gen as G

PROP = "C15"
LEVEL = "proof"
STEPS = 200000
NEST_MAX = 200          # regression depth ("bounded nesting")
NEST_PROBE = 1000       # every nesting kind is also compiled once at this depth (host stack limit measured >= 1890)
DRV = os.path.join(common.LEAN, ".lake", "build", "bin", "drv_scanner")

SCANNER_MSGS = ["Unexpected character.", "Unterminated string.", "Unterminated scientific notation.",
                "Expected '{' unicode escape '\\u'", "Expected '}' after unicode escape sequence.",
                "Unicode escape sequence has a hexidecimal longer than length 6.", "Invalid unicode escape ",
                "Invalid hexadecimal unicode escape sequence ", "Invalid escape character '"]
ERR_PREFIX = {"unexpectedChar": SCANNER_MSGS[0], "unterminatedString": SCANNER_MSGS[1], "unterminatedSci": SCANNER_MSGS[2],
              "expectedBrace": SCANNER_MSGS[3], "expectedClose": SCANNER_MSGS[4], "tooLong": SCANNER_MSGS[5],
              "invalidUnicode": SCANNER_MSGS[6], "invalidHex": SCANNER_MSGS[7], "invalidEscape": SCANNER_MSGS[8]}

# Signatures of genuine front-end crashes of the pinned tree that are still OPEN (known_findings.jsonl carries the same
# ids, status "known", owner C15).  A crash is *known* iff message and source file match AND the input-side predicate
# holds: {"id", "msg": regex on the panic message, "file": regex on the panic location, "pred": lambda text, match: bool}.
# There is none at present: D21, D151, D152, D153, D154 (and the inexact encoding D155) are repaired in the repo; their
# witnesses are regression inputs in corpus/C15/ and every front-end crash is a violation.
KNOWN_SIGS = []


def known_signature(status, loc, text):
    """id of the known finding this front-end crash belongs to, or None."""
    if not status.startswith("PANIC:"):
        return None
    msg = status[len("PANIC:"):]
    for k in KNOWN_SIGS:
        m = re.match(k["msg"], msg)
        if m and re.search(k["file"], loc or "") and k["pred"](text, m):
            return k["id"]
    return None


# ---------------------------------------------------------------------------------------------
# running things


MEM_LIMIT = 2 << 30   # address-space cap per harness process: a looping front end that accumulates tokens must not eat the host
CASE_TIMEOUT = 20     # seconds without a new record = the current request hangs


def _limits():
    try:
        resource.setrlimit(resource.RLIMIT_AS, (MEM_LIMIT, MEM_LIMIT))
    except (ValueError, OSError):
        pass


def _shard(args):
    """like common._run_shard, plus: memory cap, a per-request watchdog (no output for CASE_TIMEOUT s), and the shard
    gives up after `max_hangs` hanging requests (the rest is reported as SKIPPED)."""
    harness, sub, reqs, case_timeout, max_hangs = args
    out = []
    i = 0
    hangs = 0
    while i < len(reqs):
        if hangs >= max_hangs:
            out.extend({"file": r.split()[-1], "status": "SKIPPED", "stdout": "", "stderr": ""} for r in reqs[i:])
            break
        chunk = reqs[i:]
        p = subprocess.Popen([harness, sub], stdin=subprocess.PIPE, stdout=subprocess.PIPE, stderr=subprocess.DEVNULL, text=True,
                             preexec_fn=_limits)
        import threading
        good = []
        state = {"last": time.time(), "done": False}

        def reader():
            for line in p.stdout:
                line = line.strip()
                if not line:
                    continue
                try:
                    good.append(json.loads(line))
                except ValueError:
                    break
                state["last"] = time.time()
            state["done"] = True

        def writer():
            try:
                p.stdin.write("".join(r + "\n" for r in chunk))
                p.stdin.close()
            except (BrokenPipeError, OSError):
                pass
        tr = threading.Thread(target=reader, daemon=True)
        tw = threading.Thread(target=writer, daemon=True)
        tr.start()
        tw.start()
        hung = False
        while not state["done"]:
            tr.join(0.2)
            if not state["done"] and time.time() - state["last"] > case_timeout:
                hung = True
                p.kill()
                break
        tr.join(5)
        try:
            rc = p.wait(timeout=10)
        except subprocess.TimeoutExpired:
            p.kill()
            rc = -9
        out.extend(good)
        i += len(good)
        if len(good) < len(chunk):
            out.append({"file": reqs[i].split()[-1], "status": "CRASH:%s" % ("timeout" if hung else rc), "stdout": "", "stderr": ""})
            hangs += hung
            i += 1
    return out


def batch(harness, sub, reqs, case_timeout=CASE_TIMEOUT, jobs=None, max_hangs=2):
    """crash-isolated, sharded execution of request lines; one record per request."""
    jobs = jobs or common.NCPU
    n = max(1, min(jobs, (len(reqs) + 7) // 8))
    shards = [reqs[k::n] for k in range(n)]
    res = [None] * len(reqs)
    with concurrent.futures.ThreadPoolExecutor(max_workers=n) as ex:
        outs = list(ex.map(_shard, [(harness, sub, s, case_timeout, max_hangs) for s in shards]))
    for k, o in enumerate(outs):
        for j, r in enumerate(o):
            res[k + j * n] = r
    return res


class Runner:
    def __init__(self, tmp):
        self.tmp = tmp
        self.n = 0

    def write(self, texts, sub="m"):
        d = os.path.join(self.tmp, sub)
        os.makedirs(d, exist_ok=True)
        files = []
        for t in texts:
            self.n += 1
            p = os.path.join(d, "c%07d.lay" % self.n)
            with open(p, "w", encoding="utf-8", newline="") as f:
                f.write(t)
            files.append(p)
        return files

    def compile_only(self, files, timeout=CASE_TIMEOUT):
        return batch(common.harness_path(bin="vh_c15"), "batch", ["--compile-only " + f for f in files], timeout)

    def full(self, files, timeout=CASE_TIMEOUT):
        # the judged path: `vharness runbatch`
        return batch(common.harness_path(), "runbatch", ["--steps %d %s" % (STEPS, f) for f in files], timeout)

    def full_loc(self, files, timeout=CASE_TIMEOUT):
        return batch(common.harness_path(bin="vh_c15"), "batch", ["--steps %d %s" % (STEPS, f) for f in files], timeout)

    def dump(self, files, timeout=CASE_TIMEOUT):
        """`vharness dump -` (compile only, not crash isolated): {file: (status, [fun records])}; resumes after a crash,
        gives up after two hanging files."""
        import threading
        out = {}
        todo = list(files)
        hangs = 0
        while todo and hangs < 2:
            p = subprocess.Popen([common.harness_path(), "dump", "-"], stdin=subprocess.PIPE, stdout=subprocess.PIPE,
                                 stderr=subprocess.DEVNULL, text=True, preexec_fn=_limits)
            state = {"last": time.time(), "done": False, "ended": 0}
            cur = {"funs": None}

            def reader():
                for line in p.stdout:
                    line = line.rstrip("\n")
                    if line.startswith("FILE "):
                        name = line.split(" ")[1]
                        st = line.split("status=", 1)[1] if "status=" in line else "unreadable"
                        cur["funs"] = []
                        out[name] = (st, cur["funs"])
                    elif line.startswith("FUN ") and cur["funs"] is not None:
                        cur["funs"].append(line)
                    elif line == "END":
                        state["ended"] += 1
                    state["last"] = time.time()
                state["done"] = True

            def writer():
                try:
                    p.stdin.write("".join(f + "\n" for f in todo))
                    p.stdin.close()
                except (BrokenPipeError, OSError):
                    pass
            tr = threading.Thread(target=reader, daemon=True)
            tw = threading.Thread(target=writer, daemon=True)
            tr.start()
            tw.start()
            hung = False
            while not state["done"]:
                tr.join(0.2)
                if not state["done"] and time.time() - state["last"] > timeout:
                    hung = True
                    p.kill()
                    break
            tr.join(5)
            try:
                p.wait(timeout=10)
            except subprocess.TimeoutExpired:
                p.kill()
            done = state["ended"]
            if done < len(todo):
                out[todo[done]] = ("CRASH:dump-timeout" if hung else "CRASH:dump", [])
                hangs += hung
                todo = todo[done + 1:]
            else:
                todo = []
        return out


def judge(text, co, full):
    """The Spec monitor.  Returns (verdict, detail): verdict in
    ok-diagnostics | ok-program | known:<id> | runtime-crash (not C15) | VIOLATION:<what>."""
    cs, fs = co["status"], full["status"]
    if cs == "SKIPPED" or fs == "SKIPPED":
        return "skipped", "the shard gave up after hanging requests"
    if cs.startswith(("PANIC", "CRASH")):
        if cs.startswith("CRASH:timeout"):
            return "VIOLATION:front-end-hang", "compile-only run did not terminate within the batch limit"
        kid = known_signature(cs, co.get("loc", ""), text)
        if kid:
            return "known:" + kid, cs
        if "allocation error" in cs or "memory allocation" in cs:
            return "VIOLATION:front-end-hang", "unbounded allocation stopped by the %d MiB cap of the harness process: %s" % (MEM_LIMIT >> 20, cs[:120])
        return "VIOLATION:front-end-crash", "%s @ %s" % (cs, co.get("loc", ""))
    if cs == "CompileError:1":
        if "error" not in co.get("stderr", ""):
            return "VIOLATION:compile-error-without-diagnostic", "status CompileError:1 but no diagnostic on stderr"
        if fs.startswith("CRASH:timeout"):
            return "VIOLATION:front-end-hang", "run did not terminate"
        if fs != "CompileError:1":
            return "VIOLATION:executed-despite-diagnostics", "compile-only reports diagnostics, the run ended with %s" % fs
        if full.get("stdout", "") != "":
            return "VIOLATION:executed-despite-diagnostics", "diagnostics reported but stdout is %r" % full.get("stdout", "")[:80]
        if "error" not in full.get("stderr", ""):
            return "VIOLATION:compile-error-without-diagnostic", "run: CompileError:1 with empty stderr"
        return "ok-diagnostics", ""
    if cs == "Ok:0":
        if re.search(r"^error", co.get("stderr", ""), flags=re.M):
            return "VIOLATION:diagnostics-without-compile-error-status", "diagnostics on stderr but the status is %s" % cs
        if fs.startswith("CRASH:timeout"):
            return "runtime-crash", "run did not terminate within the watchdog limit (compiled fine; step limit %d)" % STEPS
        if fs.startswith(("PANIC", "CRASH")):
            return "runtime-crash", fs[:100]
        if fs == "CompileError:1":
            # a module imported at run time may fail to compile; the main text itself compiled
            return "ok-program", "import-compile-error"
        # a mutated program may shadow `print` at module level: the marker statement then executes and raises
        # "Undefined variable print" (the language rule, reachable since the undefined sentinel compares equal) — it ran
        shadowed = "Undefined variable print" in full.get("stderr", "")
        if text.startswith(G.MARKER) and fs.split(":")[0] in ("Ok", "RuntimeError") and not shadowed and not full.get("stdout", "").startswith(G.MARK):
            return "VIOLATION:accepted-program-not-run", "compiled, status %s, but the marker was not printed" % fs
        return "ok-program", ""
    return "VIOLATION:unexpected-status", "compile-only status %s" % cs


# ---------------------------------------------------------------------------------------------
# shrinking


def ddmin(parts, fails, budget=250):
    n = 2
    evals = 0
    while len(parts) >= 2 and evals < budget:
        size = max(1, len(parts) // n)
        chunks = [parts[i:i + size] for i in range(0, len(parts), size)]
        reduced = False
        for i in range(len(chunks)):
            cand = [x for j, c in enumerate(chunks) if j != i for x in c]
            evals += 1
            if cand and fails("".join(cand)):
                parts = cand
                n = max(n - 1, 2)
                reduced = True
                break
            if evals >= budget:
                break
        if not reduced:
            if n >= len(parts):
                break
            n = min(len(parts), n * 2)
    return parts


def shrink_text(text, fails, budget=250):
    if len(text) > 200000:
        return text
    try:
        if not fails(text):
            return text
        toks = ddmin(G.TOK.findall(text), fails, budget)
        t = "".join(toks)
        if len(t) <= 400:
            t = "".join(ddmin(list(t), fails, budget=budget))
        return t
    except Exception:
        return text


def single(runner, text, compile_only):
    f = runner.write([text], "shrink")[0]
    r = (runner.compile_only([f]) if compile_only else runner.full_loc([f]))[0]
    return r


def verdict_of(runner, text, timeout=10):
    f = runner.write([text], "shrink")[0]
    co = runner.compile_only([f], timeout=timeout)[0]
    fu = co if co["status"].startswith("CRASH:timeout") else runner.full_loc([f], timeout=timeout)[0]
    return judge(text, co, fu)


# ---------------------------------------------------------------------------------------------
# tie A: scanner model vs the real scanner


def hexs(t):
    return t.encode("utf-8").hex()


def _unlimit_stack():
    try:
        resource.setrlimit(resource.RLIMIT_STACK, (resource.RLIM_INFINITY, resource.RLIM_INFINITY))
    except (ValueError, OSError):
        pass


def run_model_scan(texts):
    p = subprocess.run([DRV, "scan"], input="".join(hexs(t) + "\n" for t in texts), stdout=subprocess.PIPE, stderr=subprocess.PIPE,
                       text=True, timeout=1200, preexec_fn=_unlimit_stack)
    return p.stdout.split("\n")[:-1], p.returncode


def run_real_scan(texts):
    rc, out, err = common.run_lines([common.harness_path(bin="vh_c15"), "scan"], [hexs(t) for t in texts], timeout=1200)
    return out, rc


def parse_model_line(line):
    toks_s, l_s, a_s = line.split("|")
    toks = []
    for t in toks_s.split(";"):
        p = t.split(" ")
        toks.append((p[1], int(p[2]), int(p[3]), p[4] if len(p) > 4 else None))
    full = l_s[2:]
    alts = [full]
    for a in a_s[2:].split(";"):
        if a:
            alts.append(a.split("=", 1)[1])
    return toks, alts


def parse_real_line(line):
    st, d_s, l_s = line.split("|")
    ds = []
    for d in d_s.split(";"):
        if d:
            p = d.split(" ")
            ds.append((int(p[1]), int(p[2]), bytes.fromhex(p[3] if len(p) > 3 else "").decode("utf-8", "replace")))
    return st, ds, l_s[2:]


def scan_mismatch(text, mline, rline):
    """None if the real scanner's observable behaviour agrees with the model on this text, else a description."""
    if rline.startswith("PANIC"):
        p = rline.split(" ", 2)
        if known_signature("PANIC:" + (p[2] if len(p) > 2 else ""), p[1] if len(p) > 1 else "", text):
            return None  # a crash listed in KNOWN_SIGS (an open known finding): nothing to compare on this text
        return "real scanner/parser panicked: " + rline
    if mline in ("bad-hex", "bad-utf8") or not mline.startswith("T "):
        return "model driver: " + mline[:60]
    toks, alts = parse_model_line(mline)
    st, ds, lines = parse_real_line(rline)
    if lines not in alts:
        return "line-offset table differs: real %s model %s" % (lines[:80], alts[0][:80])
    starts = {t[1] for t in toks}
    ends = {t[2] for t in toks}
    errs = [(t[1], t[2], ERR_PREFIX[t[3]]) for t in toks if t[0] == "Error"]
    if errs and st != "err":
        return "model has an error token but the parse succeeded"
    pos = 0
    for (s, e, msg) in ds:
        if s > 2 ** 60:
            continue  # a diagnostic without a label
        if any(msg.startswith(m) for m in SCANNER_MSGS):
            # must be one of the model's error tokens, in order
            j = None
            for k in range(pos, len(errs)):
                if errs[k][0] == s and errs[k][1] == e and msg.startswith(errs[k][2]):
                    j = k
                    break
            if j is None:
                return "scanner diagnostic %r at %d..%d is not a model error token (model errors: %s)" % (msg, s, e, errs[:4])
            pos = j + 1
        elif s not in starts or e not in ends:
            return "diagnostic %r at %d..%d does not lie on model token boundaries" % (msg, s, e)
    if toks and toks[0][0] == "Error":
        if not ds or (ds[0][0], ds[0][1]) != (toks[0][1], toks[0][2]):
            return "first token is an error token in the model but the first diagnostic is elsewhere"
    return None


def let_probe(rng):
    """lexemes separated by `let`: `synchronize` stops before every `let`, so (almost) every lexeme gets its own
    diagnostic whose span is the span of a real token."""
    n = rng.randint(1, 12)
    out = []
    for _ in range(n):
        out.append(rng.choice(G.VOCAB))
    sep = rng.choice([" let ", " let ", "\nlet ", " ; let ", " fn ", " class "])
    return sep.join(out)


SCAN_EDGE = ["", " ", "\n", "//", "// c", "//\n//\n", "/", "/ /x", "/a/ b", "/\n/", "/*", "a/b", "a //c\nb", "\ufeff", "\u00e9", "a\u00e9b",
             "\"\u00e9\U0001F600\"", "'\\u{e9}'", "'\\u{+41}'", "'\\u{-41}'", "'\\u{}'", "'\\u{+}'", "'\\u{d800}'", "'\\u{10ffff}'",
             "'\\u{110000}'", "'\\u{1234567}'", "'\\u{12345678}'", "'\\u{12'", "'\\u{12\"", "\"\\u{12'}\"", "'\\u", "'\\u{", "'\\ux'",
             "'\\", "'\\\n'", "'a\\\nb' c\nd", "\"\\u{\n\n}\" x\ny", "'${", "'${'", "'${}'", "'${{}}'", "'${ {} }'", "'${\"${1}\"}'",
             "'a${1}b${2}c'", "\"${'${\"${1}\"}'}\"", "'${' '}'", "'${ } }'", "} } }", "{ { {", "'${ '}' }'", "'$'", "'$$${1}'", "'$ {'",
             "1.", "1.e", "1.5", "1.5.5", ".5", "1e5", "1E5", "1e+5", "1e-5", "1e+", "1e", "1e+-5", "1ex", "1.5e3.2", "007", "1_0",
             "x?", "x!", "x?!", "x!?", "if?", "let!", "_", "_1", "@", "@x", "@x?", "@1", "@@", "@\u00e9", "as", "asx", "brea", "breaks",
             "fn", "fnx", "f", "tr", "try", "tryy", "tru", "true", "typ", "type", "types", "trait", "in", "i", "ifx", "nil", "ni",
             "a&&b", "a&b", "a||b", "a|b", "<-", "<=", "<", "<--", "->", "-=", "--", "- >", "!=", "!", "==", "=", "===", "+=", "*=", "/=",
             "'\\\u00e9'", "'\\\U0001F600'", "'\\u{\u00e9}'", "'\\u{1\u00e9'", "'\\u\u00e9'", "'\u00e9\\", "'\\u{d800\u4e2d}'", "1\u00e9", "1e\u00e9",
             "1.\u00e9", "@\u4e2d", "x\u00e9?", "'${\u00e9}'", "'a${'\\\u00e9'}'", "/\u00e9/ x", "//\u00e9\n\u00e9", "\u00e9//x\n'\\\u4e2d",
             "#", "$", "`", "~", "^", "%", "\\", "\x00", "\x7f", "\u2028", "a\tb\rc\r\nd", "'a\nb\nc'", "'a\nb", "// a\n'b\nc", "\"a\\nb\""]


def stream_scan(ctx, texts, label="scan"):
    """returns None or a violation payload (already shrunk)."""
    if not texts:
        return None
    mo, rcm = run_model_scan(texts)
    ro, rcr = run_real_scan(texts)
    bad = None
    n_err = n_diag = 0
    for i, t in enumerate(texts):
        if i >= len(mo) or i >= len(ro):
            bad = (i, "missing output (model rc=%s, real rc=%s)" % (rcm, rcr))
            break
        m = scan_mismatch(t, mo[i], ro[i])
        if m:
            bad = (i, m)
            break
        n_err += mo[i].count(" Error ")
        n_diag += ro[i].count("D ")
        ctx.count_case(["scan", t], nontrivial=" Error " in mo[i] or len(t) > 0)
    ctx.stream_stat(label, inputs=len(texts), model_error_tokens=n_err, real_diagnostics=n_diag)
    ctx.cov["traces_validated_against_impl"] += len(texts)
    if bad is None:
        return None
    i, what = bad

    def fails(t):
        a, _ = run_model_scan([t])
        b, _ = run_real_scan([t])
        return bool(a and b and scan_mismatch(t, a[0], b[0]))
    small = shrink_text(texts[i], fails) if i < len(texts) else ""
    a, _ = run_model_scan([small])
    b, _ = run_real_scan([small])
    return {"engine": "scan", "kind": "model-vs-implementation", "what": what, "input": small, "input_hex": hexs(small),
            "model": a[0] if a else None, "impl": b[0] if b else None,
            "broken": "correspondence stream scan (Model/Scanner.lean vs scanner.rs observed through Parser::parse)"}


# ---------------------------------------------------------------------------------------------
# tie B / Spec: the malformed-input stream


def stream_malformed(ctx, runner, cases, label="malformed", dump_sample=0):
    """cases: list of (family, text).  Judges every case; returns list of violation payloads (first per kind, shrunk)."""
    texts = [c[1] for c in cases]
    files = runner.write(texts, label)
    co = runner.compile_only(files)
    live = [i for i, r in enumerate(co) if r["status"] not in ("SKIPPED",) and not r["status"].startswith("CRASH:timeout")]
    fu = [dict(r) for r in co]
    if len(live) == len(files) or not any(r["status"].startswith("CRASH:timeout") for r in co):
        for i, r in zip(live, runner.full([files[i] for i in live])):
            fu[i] = r
    verdicts = {}
    fams = {}
    first_bad = {}
    known_hits = {}
    rt = {}
    for i, (fam, t) in enumerate(cases):
        v, d = judge(t, co[i], fu[i])
        key = v.split(":")[0] if v.startswith("known") else v
        verdicts[v] = verdicts.get(v, 0) + 1
        if v == "skipped":
            continue
        fams[fam.split(":")[0]] = fams.get(fam.split(":")[0], 0) + 1
        ctx.count_case(["malformed", t], nontrivial=v != "ok-program" or fam != "valid")
        if v.startswith("VIOLATION") and v not in first_bad:
            first_bad[v] = (i, d)
        if v.startswith("known:"):
            known_hits[v[6:]] = known_hits.get(v[6:], 0) + 1
        if v == "runtime-crash":
            k = re.sub(r"\d+", "N", d)[:70]
            rt[k] = rt.get(k, 0) + 1
    ctx.stream_stat(label, inputs=len(cases), **{("verdict_" + k.replace(":", "_").replace("-", "_")): n for k, n in verdicts.items()})
    ctx.stream_stat(label + "_families", **fams)
    if rt:
        ctx.stream_stat(label + "_runtime_crashes_not_judged_C16", **{k: n for k, n in sorted(rt.items(), key=lambda kv: -kv[1])[:12]})
    ctx.cov["traces_validated_against_impl"] += len(cases)
    # compile-only path through `vharness dump -`: must agree with the batch compile-only verdicts
    out = []
    if dump_sample:
        idx = [i for i in range(min(dump_sample, len(files))) if not first_bad]
        dm = runner.dump([files[i] for i in idx]) if idx else {}
        disagree = 0
        for i in idx:
            st = dm.get(files[i], ("missing", []))[0]
            a = co[i]["status"].split(":")[0]
            b = st.split(":")[0]
            if a != b and not (a in ("PANIC", "CRASH") and b in ("PANIC", "CRASH")):
                disagree += 1
                if "VIOLATION:dump-disagrees" not in first_bad:
                    first_bad["VIOLATION:dump-disagrees"] = (i, "vharness dump: %s, batch compile-only: %s" % (st, co[i]["status"]))
        ctx.stream_stat(label, dump_checked=len(idx), dump_disagree=disagree)
    for v, (i, d) in first_bad.items():
        t = texts[i]
        if v == "VIOLATION:dump-disagrees":
            small = t
        elif v == "VIOLATION:front-end-hang":
            small = shrink_text(t, lambda x: verdict_of(runner, x, timeout=3)[0] == v, budget=40)
        else:
            small = shrink_text(t, lambda x: verdict_of(runner, x)[0] == v)
        f = runner.write([small], "shrink")[0]
        out.append({"engine": "frontend", "kind": "implementation-vs-spec", "what": v[len("VIOLATION:"):], "detail": d,
                    "input": small, "family": cases[i][0],
                    "compile_only": runner.compile_only([f], timeout=30)[0], "run": runner.full_loc([f], timeout=30)[0]})
        ctx.cov["impl_vs_spec_failures"] += 1
    return out, known_hits


# ---------------------------------------------------------------------------------------------
# boundary counts: encoded exactly or reported


def boundary_expect(name):
    """(function, what, value) the compile log must show if the program compiled."""
    m = re.fullmatch(r"([a-z_]+)_(\d+)", name)
    if not m:
        return None
    kind, n = m.group(1), int(m.group(2))
    if kind == "params":
        return ("f", "arity", n)
    if kind == "lambda_params":
        return ("f", "arity", n)
    if kind == "args":
        return ("g", "Call", n)
    if kind == "launch_args":
        return ("g", "Launch", n)
    if kind == "method_args":
        return ("g", "Call", n)
    if kind == "captures":
        return ("inner", "captures", n)
    if kind == "list_items":
        return ("f", "List", n)
    if kind == "map_items":
        return ("f", "Map", n)
    if kind == "tuple_items":
        return ("f", "Tuple", n)
    if kind == "interp_items":
        return ("f", "Interpolate", 2 * n + 1)
    if kind == "interp_segments":
        return ("f", "Interpolate", n + 2)
    if kind == "lines":
        # n newlines, then `print(1);` on line n + 1: encoded exactly, or saturated at the largest representable line
        return ("script", "line", min(n + 1, 65535))
    return None


def check_boundary(name, status, funs):
    """None or a description of an inexact encoding."""
    exp = boundary_expect(name)
    if exp is None or not status.startswith("Ok"):
        return None
    fn, what, val = exp
    rec = [l for l in funs if l.startswith('FUN name="%s" ' % fn)]
    if not rec:
        return "no compile record for function %s" % fn
    line = rec[0]
    if what == "arity":
        m = re.search(r"arity=Fixed\((\d+)\)", line)
        got = int(m.group(1)) if m else None
    elif what == "captures":
        m = re.search(r"captures=(\d+)", line)
        got = int(m.group(1)) if m else None
    elif what == "line":
        pre = line.split("|PRE ", 1)[1].split("|", 1)[0] if "|PRE " in line else ""
        vals = [int(x) for x in re.findall(r"(?:^|;)Call 1@(\d+)", pre)]
        got = vals[-1] if vals else None
        if got != val:
            return "line of the call on source line %d: recorded as %s, expected %d, no diagnostic" % (int(name.rsplit("_", 1)[1]) + 1, got, val)
    else:
        pre = line.split("|PRE ", 1)[1].split("|", 1)[0] if "|PRE " in line else ""
        vals = [int(x) for x in re.findall(r"(?:^|;)%s (\d+)@" % what, pre)]
        got = val if val in vals else (vals[-1] if vals else None)
    if got != val:
        return "%s of %s: %d items in the source, %s encoded, no diagnostic" % (what, fn, val, got)
    return None


def stream_boundary(ctx, runner, cases, label="boundary", watchdog=CASE_TIMEOUT):
    files = runner.write([c[1] for c in cases], label)
    co = runner.compile_only(files, timeout=watchdog)
    hung = any(r["status"].startswith("CRASH:timeout") or r["status"] == "SKIPPED" for r in co)
    runnable = [] if hung else [i for i, c in enumerate(cases) if not c[2]]
    fu = runner.full([files[i] for i in runnable], timeout=watchdog)
    fu_by = {i: fu[k] for k, i in enumerate(runnable)}
    want_dump = [] if hung else [files[i] for i, c in enumerate(cases) if boundary_expect(c[0]) is not None and len(c[1]) < 400000]
    dm = runner.dump(want_dump, timeout=watchdog)
    known_inexact = {f.get("boundary_case"): f["id"] for f in common.load_findings(PROP) if f.get("mode") == "dump" and f.get("status") == "known"}
    out = []
    known_hits = {}
    stats = {"ok": 0, "reported": 0, "known": 0, "runtime_crash_not_judged": 0}
    for i, (name, text, conly, _) in enumerate(cases):
        ctx.count_case(["boundary", name], nontrivial=True)
        full = fu_by.get(i) or dict(co[i])
        if conly and co[i]["status"] == "Ok:0":
            full = {"status": "Ok:0", "stdout": G.MARK, "stderr": ""}
        v, d = judge(text, co[i], full)
        if v == "skipped":
            continue
        st, funs = dm.get(files[i], ("missing", []))
        inexact = check_boundary(name, st, funs) if files[i] in dm else None
        if v.startswith("known:"):
            known_hits[v[6:]] = known_hits.get(v[6:], 0) + 1
            stats["known"] += 1
        elif inexact and name in known_inexact:
            known_hits[known_inexact[name]] = known_hits.get(known_inexact[name], 0) + 1
            stats["known"] += 1
        elif v.startswith("VIOLATION"):
            out.append({"engine": "frontend", "kind": "implementation-vs-spec", "what": v[10:], "detail": d, "case": name,
                        "input": text if len(text) < 4000 else text[:2000] + "…", "generator": "c15_gen.boundary_cases:" + name})
        elif inexact:
            out.append({"engine": "frontend", "kind": "implementation-vs-spec", "what": "count-not-encoded-exactly-and-not-reported",
                        "detail": inexact, "case": name, "input": text if len(text) < 4000 else text[:2000] + "…",
                        "generator": "c15_gen.boundary_cases:" + name})
        elif v == "runtime-crash":
            stats["runtime_crash_not_judged"] += 1
        elif v == "ok-diagnostics":
            stats["reported"] += 1
        else:
            stats["ok"] += 1
    ctx.stream_stat(label, cases=len(cases), **stats)
    ctx.cov["traces_validated_against_impl"] += len(cases)
    ctx.cov["impl_vs_spec_failures"] += len(out)
    return out, known_hits


# ---------------------------------------------------------------------------------------------
# REPL: the session continues with earlier definitions intact


def repl_run(runner, lines):
    d = os.path.join(runner.tmp, "repl")
    os.makedirs(d, exist_ok=True)
    runner.n += 1
    p = os.path.join(d, "s%07d.txt" % runner.n)
    with open(p, "w", encoding="utf-8") as f:
        f.write("".join(l + "\n" for l in lines))
    return p


def strip_prompts(s):
    return re.sub(r"0x[0-9a-fA-F]+", "0x", s.replace("laythe:> ", ""))


def repl_crashed(status):
    """the harness' scripted stdin panics with "Not enough test lines" when the script is exhausted: that is the
    normal end of a session; anything else that is a panic/crash ended the session early."""
    return status.startswith(("PANIC", "CRASH")) and status != "PANIC:Not enough test lines"


def stream_repl(ctx, runner, rng, n, label="repl"):
    # which "bad" entries really are compile errors without side effects on this build
    probes = [repl_run(runner, [b]) for b in G.REPL_BAD]
    rs = common.run_batch(["--repl --stdin-file %s repl" % p for p in probes], timeout=120)
    bad_ok = []
    dropped = 0
    for b, r in zip(G.REPL_BAD, rs):
        if not repl_crashed(r["status"]) and strip_prompts(r["stdout"]) == "" and "error" in r["stderr"]:
            bad_ok.append(b)
        else:
            dropped += 1
    saved = G.REPL_BAD
    sessions = []
    try:
        G.REPL_BAD = bad_ok or ["let = 3;"]
        for _ in range(n):
            sessions.append(G.repl_session(rng))
    finally:
        G.REPL_BAD = saved
    fa = [repl_run(runner, s[0]) for s in sessions]
    fb = [repl_run(runner, s[1]) for s in sessions]
    ra = common.run_batch(["--repl --stdin-file %s repl" % p for p in fa], timeout=300)
    rb = common.run_batch(["--repl --stdin-file %s repl" % p for p in fb], timeout=300)
    out = []
    nbad = 0
    exact = 0
    for (with_bad, without, k, expected), a, b in zip(sessions, ra, rb):
        ctx.count_case(["repl", with_bad], nontrivial=k > 0)
        nbad += k
        what = None
        if repl_crashed(a["status"]) and not repl_crashed(b["status"]):
            what = "the session with the erroneous entries ended with %s" % a["status"][:80]
        elif not repl_crashed(a["status"]) and strip_prompts(a["stdout"]) != strip_prompts(b["stdout"]):
            what = "output of the valid entries changed: %r vs %r" % (strip_prompts(a["stdout"])[:100], strip_prompts(b["stdout"])[:100])
        elif not repl_crashed(a["status"]) and a["stdout"].count("laythe:> ") != len(with_bad) + 1:
            what = "the session did not prompt once per entry (%d prompts for %d entries)" % (a["stdout"].count("laythe:> "), len(with_bad))
        elif k > 0 and not repl_crashed(a["status"]) and a["stderr"].count("error") < b["stderr"].count("error") + 1:
            what = "erroneous entries produced no diagnostic"
        elif expected is not None and not repl_crashed(a["status"]) and strip_prompts(a["stdout"]).split() != expected:
            what = "uses of earlier definitions printed %r, expected %r" % (strip_prompts(a["stdout"]).split()[:8], expected[:8])
        exact += expected is not None
        if what and not out:
            out.append({"engine": "repl", "kind": "implementation-vs-spec", "what": "repl-session-disturbed-by-erroneous-entry",
                        "detail": what, "input": "\n".join(with_bad), "lines_without_bad": without,
                        "with_bad": a, "without_bad": b})
    ctx.stream_stat(label, sessions=len(sessions), sessions_with_exact_expectation=exact, erroneous_entries=nbad, bad_templates_usable=len(bad_ok), bad_templates_dropped=dropped)
    ctx.cov["traces_validated_against_impl"] += len(sessions)
    ctx.cov["impl_vs_spec_failures"] += len(out)
    return out


# ---------------------------------------------------------------------------------------------
# tie C: the resolver => compiler contract model (Model/Contract.lean) vs the real resolver and compiler


def contract_mismatch(mline, rec, text):
    """None if the real front end behaves on the rendered program as the scoping model says."""
    m = dict(kv.split("=") for kv in mline.split()) if mline.startswith("errors=") else None
    if m is None:
        return "model driver: " + mline[:60]
    if m["unhoisted"] != "0":
        return "model: un-hoisted module declaration (generator bug)"
    if m.get("same") != "1":
        return "model: the two traversals differ in more than `define` events (contradicts C15_traversals_same_events)"
    st = rec["status"]
    ndiag = len(re.findall(r"^error", rec.get("stderr", ""), flags=re.M))
    if int(m["errors"]) > 0:
        if st != "CompileError:1" or ndiag != int(m["errors"]):
            return "model: resolver reports %s diagnostics; real: %s with %d diagnostics" % (m["errors"], st, ndiag)
        return None
    if m["ok"] == "0":
        return "model: resolver clean but the compiler model panics (contradicts C15_resolve_then_compile_total_ast)"
    if st != "Ok:0":
        return "model: resolver clean and compiler ok; real: %s %s" % (st[:80], rec.get("stderr", "")[:120])
    return None


def _skel_shapes(ser):
    """(a `for` whose iterable mentions the loop variable's name, a `catch` whose class is its variable's name) — the
    shapes that were outside the proved envelope until the resolver was repaired (D151/D31)."""
    toks = ser.split()
    for_self = catch_self = False
    i = 0
    while i < len(toks):
        if toks[i] == "c" and i + 3 < len(toks) and toks[i + 1] == toks[i + 3]:
            catch_self = True
        if toks[i] == "r" and i + 3 < len(toks) and toks[i + 3] == "[":
            # the iterable is the bracketed list that follows `r N ID`
            depth, j, name = 0, i + 3, toks[i + 1]
            while j < len(toks):
                if toks[j] == "[":
                    depth += 1
                elif toks[j] == "]":
                    depth -= 1
                    if depth == 0:
                        break
                elif toks[j] == "u" and j + 1 < len(toks) and toks[j + 1] == name:
                    for_self = True
                j += 1
        i += 1
    return for_self, catch_self


def stream_contract(ctx, runner, rng, n, label="contract"):
    """returns (spec_violations, tie_failure or None)."""
    cases = [G.gen_skeleton(rng) for _ in range(n)]
    p = subprocess.run([DRV, "contract"], input="".join(c[0] + "\n" for c in cases), stdout=subprocess.PIPE, stderr=subprocess.PIPE,
                       text=True, timeout=1200, preexec_fn=_unlimit_stack)
    mo = p.stdout.split("\n")[:-1]
    files = runner.write([c[1] for c in cases], label)
    co = runner.compile_only(files)
    stats = {"resolver_rejects": 0, "accepted": 0, "with_captures": 0, "for_iterable_mentions_item_name": 0,
             "catch_class_named_like_catch_var": 0, "those_accepted": 0, "front_end_crashes": 0}
    bad = None
    spec = []
    for i, (ser, src) in enumerate(cases):
        # the Spec first: a skeleton program is a text like any other — the front end must not crash on it
        st = co[i]["status"]
        if st.startswith(("PANIC", "CRASH")) and not known_signature(st, co[i].get("loc", ""), src):
            stats["front_end_crashes"] += 1
            if not spec:
                def crashes(t):
                    r = single(runner, t, True)
                    return r["status"].startswith(("PANIC", "CRASH"))
                small = shrink_text(src, crashes)
                r = single(runner, small, True)
                spec.append({"engine": "frontend", "kind": "implementation-vs-spec", "what": "front-end-crash",
                             "detail": "%s @ %s" % (r["status"], r.get("loc", "")), "input": small, "family": "contract-skeleton",
                             "skeleton": ser, "compile_only": r})
                ctx.cov["impl_vs_spec_failures"] += 1
            continue
        if i >= len(mo):
            bad = bad or (i, "missing model output (rc=%s)" % p.returncode)
            break
        mm = contract_mismatch(mo[i], co[i], src)
        if mm:
            bad = bad or (i, mm)
            continue
        m = dict(kv.split("=") for kv in mo[i].split())
        fs, cs = _skel_shapes(ser)
        acc = int(m["errors"]) == 0 and m["ok"] == "1"
        stats["resolver_rejects"] += int(m["errors"]) > 0
        stats["accepted"] += acc
        stats["for_iterable_mentions_item_name"] += fs
        stats["catch_class_named_like_catch_var"] += cs
        stats["those_accepted"] += acc and (fs or cs)
        stats["with_captures"] += int(m["captured"]) > 0
        ctx.count_case(["contract", ser], nontrivial=len(ser) > 8)
    ctx.stream_stat(label, programs=len(cases), **stats)
    ctx.cov["traces_validated_against_impl"] += len(cases)
    if bad is None:
        return spec, None
    i, what = bad
    return spec, {"engine": "contract", "kind": "model-vs-implementation", "what": what, "input": cases[i][1], "skeleton": cases[i][0],
                  "model": mo[i] if i < len(mo) else None, "impl": co[i],
                  "broken": "correspondence stream contract (Model/Contract.lean vs resolver.rs + compiler/mod.rs lookups)"}


# ---------------------------------------------------------------------------------------------
# known findings


def from_recipe(r):
    return r.get("prefix", "") + r["unit"] * r["count"] + r.get("suffix", "")


def materialise(witness_path):
    """a witness is a `.lay` file, or a `.json` recipe {"prefix","unit","count","suffix"} for the large ones."""
    p = os.path.join(common.VERIF, witness_path)
    if p.endswith(".json"):
        return from_recipe(json.load(open(p)))
    return open(p, encoding="utf-8").read()


def entry_text(r):
    """text of a corpus entry / violation payload: `input`, or a `recipe` for the large ones."""
    if "recipe" in r:
        return from_recipe(r["recipe"])
    return r.get("input", "")


def load_corpus():
    """[(file name, text, expect or None, record)] of corpus/C15."""
    cdir = os.path.join(common.VERIF, "corpus", PROP)
    out = []
    if os.path.isdir(cdir):
        for f in sorted(os.listdir(cdir)):
            if not f.endswith(".json"):
                continue
            r = json.load(open(os.path.join(cdir, f)))
            if "input" in r or "recipe" in r:
                out.append((f, entry_text(r), r.get("expect"), r))
    return out


def outcome_of(status):
    return {"Ok:0": "program", "CompileError:1": "diagnostics"}.get(status, status)


def stream_corpus(ctx, runner, entries):
    """past failures and witnesses of repaired defects: the Spec monitor on each, then the recorded expectation
    (`expect`: the front end answers with a program / with diagnostics)."""
    v, _ = stream_malformed(ctx, runner, [("corpus", t) for _, t, _, _ in entries], "corpus")
    if v:
        for x in v:
            x["family"] = "corpus"
        return v
    exp = [e for e in entries if e[2]]
    co = runner.compile_only(runner.write([e[1] for e in exp], "corpus_expect"), timeout=180)
    out = []
    for (name, text, want, rec), r in zip(exp, co):
        got = outcome_of(r["status"])
        if got != want and not out:
            pl = {"engine": "frontend", "kind": "implementation-vs-spec", "what": "regression-input-changed-result", "case": name,
                  "detail": "corpus/C15/%s: expected %s, the front end answers %s @ %s" % (name, want, r["status"], r.get("loc", "")),
                  "expect": want, "corpus": name, "why": rec.get("why", ""), "compile_only": {k: (v[:600] if isinstance(v, str) else v) for k, v in r.items()}}
            if "recipe" in rec:
                pl["recipe"] = rec["recipe"]
                pl["input"] = text[:300] + "…"
            else:
                pl["input"] = text
            out.append(pl)
            ctx.cov["impl_vs_spec_failures"] += 1
    ctx.stream_stat("corpus", with_expectation=len(exp), expectation_met=len(exp) - len(out))
    return out


def replay_known(ctx, runner):
    still = {}
    for f in common.load_findings(PROP):
        if not f.get("witness") or f.get("status") != "known":
            continue
        ws = f["witness"] if isinstance(f["witness"], list) else [f["witness"]]
        fails = False
        for w in ws:
            try:
                text = materialise(w)
            except OSError:
                continue
            if f.get("mode") == "dump":
                file = runner.write([text], "known")[0]
                st, funs = runner.dump([file]).get(file, ("missing", []))
                name = f.get("boundary_case", "")
                if check_boundary(name, st, funs):
                    fails = True
                continue
            r = single(runner, text, True)
            kid = known_signature(r["status"], r.get("loc", ""), text)
            if kid == f["id"]:
                fails = True
        still[f["id"]] = fails
        if fails:
            ctx.known(f["id"], f.get("what", ""))
    ctx.cov["known_findings_status"] = {k: ("still failing" if v else "no longer failing") for k, v in still.items()}
    return still


# ---------------------------------------------------------------------------------------------
# the check


# the 16-bit boundary cases of the quick tier (and of `search`)
QUICK_BIG = re.compile(r"constants_6553[67]|list_items_6553[45]|map_items_6553[56]|interp_segments_6553[345]|module_symbols_6553[56]|"
                       r"jump_65k|lines_6553[456]|lines_70000|labels_6553[56]|ifelse_3276[78]")


def build_inputs(ctx, rng, n, corpus, progs):
    return [G.gen_case(rng, corpus, progs, NEST_MAX) for _ in range(n)]


SCAN_CONTEXTS = ["%s", "%s;", "print(%s);", "let z = %s;", "let z = %s; print(z);", "fn f() { return %s; }\nprint(f());",
                 "print(\"${%s}\");", "print([%s]);", "if %s { }", "print(1 + %s);", "print(%s + 1);"]


def targeted_search(ctx, runner, text):
    """after a scanner-tie failure on `text`: the substrings of that text (it is already shrunk) put into expression and
    statement contexts of otherwise valid programs, judged by the Spec — a lexeme the real scanner mis-classifies reaches
    the parser and the compiler there."""
    if len(text) <= 24:
        subs = {text[i:j] for i in range(len(text)) for j in range(i + 1, len(text) + 1)}
    else:
        toks = G.TOK.findall(text)
        subs = {"".join(toks[i:j]) for i in range(len(toks)) for j in range(i + 1, min(len(toks), i + 6) + 1)}
    subs = sorted(subs, key=lambda x: (len(x), x))[:400]
    cases = [("scan-context", G.MARKER + c % sub) for sub in subs for c in SCAN_CONTEXTS]
    found, _ = stream_malformed(ctx, runner, cases, "search_scan_context")
    for f in found:
        f["found_by"] = "search (contexts around the text on which scanner model and scanner disagree)"
    return found


def search(ctx, runner, rng, corpus, progs, budget):
    """bigger, Spec-judged hunt for a concrete failing input (used when a proof obligation or a tie is broken)."""
    found = []
    b, _ = stream_boundary(ctx, runner, G.boundary_cases(), "search_boundary")
    found += b
    if not found:
        b, _ = stream_boundary(ctx, runner, [c for c in G.big_boundary_cases() if QUICK_BIG.search(c[0])], "search_boundary16", watchdog=180)
        found += b
    if not found:
        for k in range(0, budget, 20000):
            v, _ = stream_malformed(ctx, runner, build_inputs(ctx, rng, min(20000, budget - k), corpus, progs), "search_malformed")
            found += v
            if found:
                break
    if not found:
        found += stream_repl(ctx, runner, rng, 300, "search_repl")
    for f in found:
        f["found_by"] = "search"
    return found


def run(ctx):
    t0 = time.time()
    proved = ctx.prove("LaytheVerif.Props.C15", extra_targets=("drv_scanner",))
    for b in ("vharness", "vh_c15"):
        ok_c, out_c = common.cargo_build(bin=b)
        if not ok_c:
            ctx.violation("harness_build", {"kind": "harness-build-failed", "broken": "cargo build --bin %s of /verif/harness against /repo" % b,
                                            "output": out_c[-3000:]}, no_input=True)
            return
    ctx.cov["rule"] = ("source texts: token/byte mutations, truncations, unbalanced delimiters, reserved words as identifiers, unterminated "
                       "strings/interpolations, long tokens, statement splices, identifier renames, context wraps of the 6xx fixture programs and of "
                       "generated programs; token soup; nesting depth <= %d; counts at 253..257 and 65533..65537; REPL sessions; distinct by text; "
                       "non-trivial = not an unmutated accepted program" % NEST_MAX)
    tmp = tempfile.mkdtemp(prefix="c15_")
    try:
        _run(ctx, tmp, proved)
    finally:
        shutil.rmtree(tmp, ignore_errors=True)
    ctx.cov["wall_streams_s"] = round(time.time() - t0, 1)


def _run(ctx, tmp, proved):
    runner = Runner(tmp)
    stage = ctx.cov.setdefault("stage_s", {})
    clock = {"t": time.time()}

    def lap(name):
        now = time.time()
        stage[name] = round(stage.get(name, 0) + now - clock["t"], 1)
        clock["t"] = now
    rng = random.Random(ctx.seed * 1000003 + 15)
    corpus = G.fixture_corpus(common.REPO)
    pg = G.ProgGen(rng)
    progs = [pg.program() for _ in range(ctx.n(300, 3000))]
    progs += G.TYPED_SEEDS * max(1, len(progs) // (8 * len(G.TYPED_SEEDS)))   # ~1/9 of the own seeds use the type syntax
    ctx.stream_stat("corpus", fixtures=len(corpus), generated_programs=len(progs))

    seen = {}

    def report(vs):
        for v in vs:
            v["seed"] = ctx.seed
            name = re.sub(r"[^a-z0-9]+", "_", (v.get("what", "x") + "_" + v.get("case", "")).lower()).strip("_")[:60]
            seen[name] = seen.get(name, 0) + 1
            ctx.violation(name if seen[name] == 1 else "%s_%d" % (name, seen[name]), v)
        return bool(vs)

    entries = load_corpus()
    pre = [("corpus", e[1]) for e in entries]

    if not proved:
        what, detail = ctx.broken
        found = stream_corpus(ctx, runner, entries) if entries else []
        for f in found:
            f["found_by"] = "corpus"
        found = found or search(ctx, runner, rng, corpus, progs, ctx.n(50000, 300000))
        if found:
            for f in found:
                f["broken_obligation"] = what
            report(found[:3])
        else:
            ctx.violation("proof", {"kind": "proof-obligation-failed", "broken": what, "detail": detail}, no_input=True)
        return

    # 0. past failures and the witnesses of repaired defects first
    if entries:
        if report(stream_corpus(ctx, runner, entries)):
            return

    lap("setup")
    # 1. known findings of the pinned tree
    replay_known(ctx, runner)
    lap("known")

    # 2. tie A: scanner
    scan_texts = list(SCAN_EDGE) + [t for _, t in pre if len(t) < 30000] + [t for _, t in corpus]
    scan_texts += [let_probe(rng) for _ in range(ctx.n(1500, 60000))]
    sample = build_inputs(ctx, rng, ctx.n(1500, 60000), corpus, progs)
    scan_texts += [t for _, t in sample if len(t) < 30000]
    v = stream_scan(ctx, scan_texts)
    if v:
        ctx.cov["model_vs_impl_disagreements"] += 1
        found = targeted_search(ctx, runner, v.get("input", "")) or search(ctx, runner, rng, corpus, progs, ctx.n(50000, 300000))
        if found:
            for f in found:
                f["tie_failure"] = {k: v[k] for k in ("what", "input", "model", "impl", "broken") if k in v}
            report(found[:3])
        else:
            ctx.violation("scan_tie", v, no_input=True)
        return
    lap("scan")
    k0 = len(SCAN_EDGE) + len([1 for _, t in pre if len(t) < 30000]) + 3
    ctx.sample({"scan_input": scan_texts[k0][:120], "model": run_model_scan([scan_texts[k0]])[0][0][:200]})

    # 2b. tie C: resolver => compiler contract
    sv, v = stream_contract(ctx, runner, rng, ctx.n(3000, 60000))
    lap("contract")
    if report(sv):
        return
    if v:
        ctx.cov["model_vs_impl_disagreements"] += 1
        found = search(ctx, runner, rng, corpus, progs, ctx.n(50000, 300000))
        if found:
            report(found[:3])
        else:
            ctx.violation("contract_tie", v, no_input=True)
        return

    # 3. tie B / Spec: malformed inputs
    total = ctx.n(24000, 300000)
    hits = {}
    done = 0
    while done < total:
        k = min(25000, total - done)
        v, kh = stream_malformed(ctx, runner, build_inputs(ctx, rng, k, corpus, progs), "malformed", dump_sample=ctx.n(1500, 5000) if done == 0 else 0)
        for a, b in kh.items():
            hits[a] = hits.get(a, 0) + b
        if report(v):
            return
        done += k
    ctx.cov["known_signature_hits_in_stream"] = hits
    lap("malformed")

    # 4. boundary counts (8-bit limits always; 16-bit limits are large texts: a subset in the quick tier)
    cases = G.boundary_cases()
    big = G.big_boundary_cases()
    if ctx.quick():
        big = [c for c in big if QUICK_BIG.search(c[0])]
    v, kh = stream_boundary(ctx, runner, cases)
    if report(v):
        return
    v, kh = stream_boundary(ctx, runner, big, "boundary16", watchdog=180)
    if report(v):
        return

    lap("boundary")
    # 5. bounded nesting: every kind at the regression depth and once at the probe depth (compile only)
    nest = [("nest:%s:%d" % (k, d), G.MARKER + G.nesting(k, d)) for k in G.NEST_KINDS for d in (50, 100, NEST_MAX)]
    v, _ = stream_malformed(ctx, runner, nest, "nesting")
    if report(v):
        return
    probe = [G.nesting(k, NEST_PROBE) for k in G.NEST_KINDS]
    pf = runner.write(probe, "nestprobe")
    pr = runner.compile_only(pf, timeout=60)
    over = [k for k, r in zip(G.NEST_KINDS, pr) if r["status"].startswith("CRASH")]
    ctx.cov["nesting"] = {"regression_max_depth": NEST_MAX, "probe_depth": NEST_PROBE, "host_stack_overflow_at_probe_depth": over,
                          "first_overflow_depth_debug_build_measured_by_bisection_2026_09_26": {
                              "class_method": 1890, "fn": 3060, "try": 3790, "if": 4289, "binary": 4889, "while": 4983, "lambda": 5508,
                              "block": 7266, "map": 7266, "list": 7690, "paren": 7807, "interp": 8305, "unary": 13076, "ternary": 13083,
                              "call/index/dot chains": ">= 20000"}}
    if not ctx.quick() and not over:
        # thorough: re-measure where the host stack gives out (the property says "bounded nesting": this is the bound)
        limits = {}
        for d in (1500, 2000, 3000, 4000, 6000, 8000, 16000):
            kinds = [k for k in G.NEST_KINDS if k not in limits]
            rs = runner.compile_only(runner.write([G.nesting(k, d) for k in kinds], "nestlimit"), timeout=120)
            for k, r in zip(kinds, rs):
                if r["status"].startswith("CRASH"):
                    limits[k] = d
        ctx.cov["nesting"]["overflow_between_previous_step_and_depth"] = limits
    if over:
        report([{"engine": "frontend", "kind": "implementation-vs-spec", "what": "native-stack-overflow-on-bounded-nesting",
                 "detail": "depth %d of %s overflows the host stack" % (NEST_PROBE, over), "input": G.nesting(over[0], NEST_PROBE)[:300] + "…",
                 "generator": "c15_gen.nesting(%r, %d)" % (over[0], NEST_PROBE)}])
        return

    lap("nesting")
    # 6. REPL
    v = stream_repl(ctx, runner, rng, ctx.n(300, 6000))
    lap("repl")
    if report(v):
        return
    ctx.sample({"malformed_input": sample[0][1][:200], "family": sample[0][0]})
    ctx.assumptions += [
        "the parser's ~2300 lines are not modelled: their totality is sampled by the malformed-input stream, not proved (only the progress of the declaration loop with synchronize is proved, over token kinds, for an arbitrary grammar oracle)",
        "the scanner is private to laythe_vm: tie A observes it through Parser::parse (spans and messages of diagnostics, line-offset table), not token by token",
        "C15_resolve_then_compile_total is proved over scoping-event sequences and, at AST level, for every program of the scoping skeleton let/fn/lambda/block/for/catch in the two real traversal orders (no envelope); classes (self/super), imports/exports and the REPL fallbacks are not in the skeleton; that the real passes perform these events is checked by the contract stream (model vs real resolver+compiler on generated programs) and, for the order of the actions of for_/try_/catch, by the regenerated table Gen.scopeOrder, not proved",
        "Model/LoopDepth.lean abstracts the parser to the call tree of the functions that touch loop_depth (loop_, function, lambda, break_/continue_, decl with synchronize); it is tied to parser.rs / compiler/mod.rs by regenerated tables only (every mention of loop_depth and loop_attributes, the save/restore shapes, the only error-catching function); the grammar fact `gram` (break/continue are statements; expressions contain statements only inside function literals) is an assumption; the malformed stream searches for crashes at these sites",
        "narrowing site handler_slots ((slots + params) as u16 in apply_stack_effects, marked TODO in the source) has no guard in the text; it is listed as unguarded and argued unreachable (locals <= 256, parameters <= 255)",
        "runtime crashes of accepted programs are C16's subject: counted, not judged here",
        "nesting is bounded by %d in the regression stream; the debug harness overflows the host stack first at depth ~1890 (class-in-method nesting)" % NEST_MAX,
    ]


def replay(path):
    r = json.load(open(path))
    for b in ("vharness", "vh_c15"):
        common.cargo_build(bin=b)
    tmp = tempfile.mkdtemp(prefix="c15r_")
    try:
        runner = Runner(tmp)
        if r.get("engine") == "scan":
            common.lake_build(["drv_scanner"])
            t = r["input"]
            a, _ = run_model_scan([t])
            b, _ = run_real_scan([t])
            m = scan_mismatch(t, a[0], b[0]) if a and b else "no output"
            print("model:", a[0] if a else None)
            print("impl :", b[0] if b else None)
            print("mismatch:", m)
            return 1 if m else 0
        if r.get("engine") == "contract":
            common.lake_build(["drv_scanner"])
            p = subprocess.run([DRV, "contract"], input=r["skeleton"] + "\n", stdout=subprocess.PIPE, text=True, timeout=120)
            rec = single(runner, r["input"], True)
            m = contract_mismatch(p.stdout.strip(), rec, r["input"])
            print("model:", p.stdout.strip())
            print("impl :", rec["status"], rec.get("stderr", "")[:300])
            print("mismatch:", m)
            return 1 if m else 0
        if r.get("engine") == "repl":
            fa = repl_run(runner, r["input"].split("\n"))
            fb = repl_run(runner, r["lines_without_bad"])
            ra, rb = common.run_batch(["--repl --stdin-file %s repl" % fa, "--repl --stdin-file %s repl" % fb])
            print(json.dumps(ra)[:600])
            print(json.dumps(rb)[:600])
            bad = repl_crashed(ra["status"]) or strip_prompts(ra["stdout"]) != strip_prompts(rb["stdout"])
            return 1 if bad else 0
        if r.get("generator", "").startswith("c15_gen.boundary_cases:"):
            name = r["generator"].split(":", 1)[1]
            case = [c for c in G.boundary_cases() + G.big_boundary_cases() if c[0] == name]
            if case:
                class _C:
                    cov = {"traces_validated_against_impl": 0, "impl_vs_spec_failures": 0}

                    def count_case(self, *a, **k):
                        pass

                    def stream_stat(self, *a, **k):
                        pass
                v, _ = stream_boundary(_C(), runner, case)
                print(json.dumps(v)[:800])
                return 1 if v else 0
        t = entry_text(r)
        v, d = verdict_of(runner, t, timeout=180 if len(t) > 100000 else 10)
        print("input:", t[:400])
        print("verdict:", v, d)
        if r.get("expect") and not v.startswith("VIOLATION"):
            got = outcome_of(single(runner, t, True)["status"])
            print("expected:", r["expect"], "got:", got)
            return 1 if got != r["expect"] else 0
        return 1 if v.startswith("VIOLATION") else 0
    finally:
        shutil.rmtree(tmp, ignore_errors=True)
