"""C07 — channels: FIFO, exactly once, within capacity.  DESIGN.md §5 C07."""
import json
import random

from .. import common

PROP = "C07"
LEVEL = "proof"


def gen_seq(rng, maxlen):
    """One operation sequence on a fresh queue; values are unique and increasing."""
    ops = []
    if rng.random() < 0.4:
        ops.append("new sync")
    else:
        ops.append("new buf %d" % rng.choice([1, 1, 2, 2, 3, 4, 5]))
    n = rng.randint(3, maxlen)
    nw = rng.randint(1, 6)
    v = 0
    closed_p = rng.choice([0.0, 0.01, 0.03, 0.08])
    disjoint = rng.random() < 0.5 and nw >= 2
    ks = rng.randint(1, nw - 1) if disjoint else nw
    if ops[0] == "new sync" and rng.random() < 0.5:
        closed_p = rng.choice([0.05, 0.1])
    for _ in range(n):
        r = rng.random()
        w = rng.randrange(nw)
        if disjoint:
            w = rng.randrange(ks) if r < 0.36 else (ks + rng.randrange(nw - ks) if r < 0.72 else w)
        if r < 0.36:
            v += 1
            view = "bi" if rng.random() < 0.85 else rng.choice(["wo", "ro"])
            ops.append("send %s %d %d" % (view, w, v))
        elif r < 0.72:
            view = "bi" if rng.random() < 0.85 else rng.choice(["ro", "wo"])
            ops.append("recv %s %d" % (view, w))
        elif r < 0.80:
            ops.append("flag %d %d" % (w, rng.randrange(2)))
        elif r < 0.88:
            ops.append("runnable")
        elif r < 0.88 + closed_p:
            ops.append("close")
        else:
            ops.append("len")
    ops.append("len")
    return ops


def spec_monitor(ops, outs):
    """The property itself, checked on a stream of (request, response) pairs, independent of the
    model: FIFO, exactly-once, capacity, close. Returns None or (index, message)."""
    fifo, cap, closed = [], 1, False
    pending, recv_parked = {}, set()     # sync senders whose deposited value is still untaken; waiters parked as receivers
    for i, (op, out) in enumerate(zip(ops, outs)):
        t = op.split()
        o = out.split()
        if t[0] == "new":
            fifo, closed = [], False
            pending, recv_parked = {}, set()
            cap = 1 if t[1] == "sync" else int(t[2])
        elif t[0] == "runnable":
            # "a synchronous sender does not proceed until its value has been taken": the scheduler's query must not
            # hand out a waiter that is parked only as the sender of a value still sitting in the slot
            if o[0] not in ("-", "?"):
                w = int(o[0])
                # (the reply does not say which waiter list the entry came from, and one id may sit in both when a
                # sequence uses it in both roles - stale entries included: the rule is applied to ids that never
                # parked as a receiver in this sequence; half of the generated sequences keep the roles disjoint)
                if w in pending and pending[w] in fifo and w not in recv_parked:
                    return i, "runnable_waiter released waiter %d, a synchronous sender whose value %d has not been taken" % (w, pending[w])
        elif t[0] == "send":
            if o[0] in ("ok", "fullblock"):
                if t[1] == "ro":
                    return i, "send through a receive-only view was accepted"
                if closed:
                    return i, "send accepted after close"
                fifo.append(int(t[3]))
                if o[0] == "fullblock":
                    pending[int(t[2])] = int(t[3])
                if len(fifo) > cap:
                    return i, "queue holds %d values, capacity %d" % (len(fifo), cap)
            elif o[0] == "closed":
                if not closed:
                    return i, "send rejected as closed on an open channel"
            elif o[0] == "full":
                if len(fifo) < cap and not closed:
                    return i, "send refused as full with %d of %d slots used" % (len(fifo), cap)
                if closed:
                    return i, "send on a closed channel did not raise"
        elif t[0] == "recv":
            if o[0] == "ok":
                if t[1] == "wo":
                    return i, "receive through a send-only view returned a value"
                if not fifo:
                    return i, "received %s but nothing was queued (invented value)" % o[1]
                exp = fifo.pop(0)
                pending = {w: v for w, v in pending.items() if v != exp}
                if o[1] != str(exp):
                    return i, "received %s, expected %d (order/duplication/drop)" % (o[1], exp)
            elif o[0] in ("empty", "emptyblock", "closed"):
                if o[0] != "closed":
                    recv_parked.add(int(t[2]))
                if fifo and t[1] != "wo":
                    return i, "receive reported %s while %d values are queued (dropped)" % (o[0], len(fifo))
                if o[0] == "closed" and not closed:
                    return i, "receive reported closed on an open channel"
                if o[0] != "closed" and closed and t[1] != "wo":
                    return i, "receive on a closed, drained channel did not yield closed/nil"
        elif t[0] == "close":
            if o[0] == "ok":
                closed = True
        elif t[0] == "len":
            if int(o[0]) != len(fifo):
                return i, "len reports %s, %d values outstanding" % (o[0], len(fifo))
            if int(o[0]) > int(o[1]):
                return i, "len exceeds capacity"
    return None


def split_seqs(ops, outs):
    """Split a concatenated stream back into per-`new` sequences."""
    seqs, cur_o, cur_r = [], [], []
    for op, out in zip(ops, outs):
        if op.startswith("new") and cur_o:
            seqs.append((cur_o, cur_r))
            cur_o, cur_r = [], []
        cur_o.append(op)
        cur_r.append(out)
    if cur_o:
        seqs.append((cur_o, cur_r))
    return seqs


def shrink(ops, fails):
    """Greedy delta-debugging on an op list (keeps the leading `new`)."""
    cur = list(ops)
    changed = True
    while changed:
        changed = False
        i = 1
        while i < len(cur):
            cand = cur[:i] + cur[i + 1:]
            if fails(cand):
                cur = cand
                changed = True
            else:
                i += 1
    return cur


def stream_chanq(ctx, nseq, maxlen, label="chanq"):
    rng = random.Random(ctx.seed * 7919 + 11)
    seqs = [gen_seq(rng, maxlen) for _ in range(nseq)]
    corpus = common.os.path.join(common.VERIF, "corpus", "C07")
    pre = []
    if common.os.path.isdir(corpus):
        for f in sorted(common.os.listdir(corpus)):
            pre.append(json.load(open(common.os.path.join(corpus, f)))["ops"])
    seqs = pre + seqs
    flat = [op for s in seqs for op in s]
    mo, io, mism, notes = common.diff_streams("chanq", flat)
    stats = {"sequences": len(seqs), "ops": len(flat), "delivered": 0, "wakeups": 0, "closes": 0,
             "full": 0, "fullblock": 0, "noaccess": 0, "closed_results": 0}
    for out in io:
        o = out.split()
        if not o:
            continue
        if o[0] == "ok" and len(o) == 2:
            stats["delivered"] += 1
        if o[0] in ("full", "fullblock", "empty", "emptyblock") and len(o) > 1 and o[1] != "-":
            stats["wakeups"] += 1
        if o[0] in stats:
            stats[o[0]] += 1
        if o[0] == "closed":
            stats["closed_results"] += 1
    ctx.stream_stat(label, **stats)
    # implementation vs Spec (the property itself), then model vs implementation (the tie)
    spec_fail = None
    pos = 0
    for so, sr in split_seqs(flat, io):
        r = spec_monitor(so, sr)
        nontriv = any(x.startswith("ok ") for x in sr) and (any(x.split()[0] in ("full", "fullblock", "empty", "emptyblock") for x in sr))
        ctx.count_case(so, nontriv)
        if r and spec_fail is None:
            spec_fail = (so, sr, r)
        pos += len(so)
    ctx.cov["traces_validated_against_impl"] += len(seqs)
    if seqs:
        ctx.sample({"ops": seqs[len(pre)][:14], "impl": split_seqs(flat, io)[len(pre)][1][:14] if io else []})

    def impl_fails_spec(ops):
        _, o, _ = common.run_lines([common.harness_path(), "chanq"], ops)[0:3]
        return len(o) == len(ops) and spec_monitor(ops, o) is not None

    def disagree(ops):
        a, b, m, _ = common.diff_streams("chanq", ops)
        return m is not None

    if spec_fail:
        so, sr, (idx, msg) = spec_fail
        small = shrink(so[:idx + 1], impl_fails_spec)
        _, o2, _ = common.run_lines([common.harness_path(), "chanq"], small)
        _, m2, _ = common.run_lines([common.DRIVER, "chanq"], small)
        ctx.cov["impl_vs_spec_failures"] += 1
        ctx.violation("chanq_spec", {"engine": "chanq", "kind": "implementation-vs-spec", "seed": ctx.seed,
                                     "what": msg, "ops": small, "impl": o2, "model": m2,
                                     "replay": "./check C07 --replay <this file>"})
        return False
    if mism is not None or notes:
        ctx.cov["model_vs_impl_disagreements"] += 1
        # find the sequence containing the mismatch
        bad = None
        pos = 0
        for s in seqs:
            if mism is not None and pos <= mism < pos + len(s):
                bad = s
                break
            pos += len(s)
        small = shrink(bad, disagree) if bad else []
        # search: a larger spec-monitored run on the implementation before giving up
        found = search_spec_violation(ctx, 10 * nseq, maxlen)
        if found:
            ctx.violation("chanq_spec", found)
        else:
            a, b, _, _ = common.diff_streams("chanq", small) if small else ([], [], None, None)
            ctx.violation("chanq_tie", {"engine": "chanq", "kind": "model-vs-implementation", "seed": ctx.seed,
                                        "broken": "correspondence stream chanq (Model/ChanQueue.lean vs laythe_core Channel)",
                                        "ops": small, "model": a, "impl": b, "notes": notes}, no_input=True)
        return False
    return True


def search_spec_violation(ctx, nseq, maxlen):
    """Targeted search for a concrete history on which the implementation breaks the property."""
    rng = random.Random(ctx.seed * 104729 + 5)
    seqs = [gen_seq(rng, maxlen) for _ in range(nseq)]
    flat = [op for s in seqs for op in s]
    _, io, _ = common.run_lines([common.harness_path(), "chanq"], flat)[0:3]
    ctx.stream_stat("search", sequences=len(seqs))
    for so, sr in split_seqs(flat, io):
        r = spec_monitor(so, sr)
        if r:
            def fails(ops):
                _, o, _ = common.run_lines([common.harness_path(), "chanq"], ops)[0:3]
                return len(o) == len(ops) and spec_monitor(ops, o) is not None
            small = shrink(so[:r[0] + 1], fails)
            _, o2, _ = common.run_lines([common.harness_path(), "chanq"], small)[0:3]
            return {"engine": "chanq", "kind": "implementation-vs-spec", "seed": ctx.seed, "what": r[1],
                    "ops": small, "impl": o2, "found_by": "search"}
    return None


def run(ctx):
    # C07Sched imports Props.C07 (queue level) and Props.C08 (scheduler model): one closure, one audit
    proved = ctx.prove("LaytheVerif.Props.C07Sched", extra_targets=("driver", "drv_sched"))
    ok_c, out_c = common.cargo_build()
    if not ok_c:
        ctx.violation("harness_build", {"kind": "harness-build-failed", "broken": "cargo build of /verif/harness against /repo",
                                        "output": out_c[-3000:]}, no_input=True)
        return
    ctx.cov["rule"] = ("random operation sequences on one queue (sync or capacity 1-5, <=6 waiters, views, flag toggles, "
                       "wake-up scans, close); non-trivial = at least one value delivered and one blocking/full result; "
                       "distinct by hash of the op list")
    nseq = ctx.n(2500, 60000)
    maxlen = ctx.n(120, 200)
    if not proved:
        what, detail = ctx.broken
        found = search_spec_violation(ctx, 10 * nseq, maxlen)
        if found:
            found["broken_obligation"] = what
            ctx.violation("chanq_spec", found)
        else:
            ctx.violation("proof", {"kind": "proof-obligation-failed", "broken": what, "detail": detail}, no_input=True)
    if not stream_chanq(ctx, nseq, maxlen):
        return
    # fiber level: the retry layer of op_send/op_receive under the real scheduler
    from . import c07_sched
    c07_sched.stream_sched(ctx, ctx.n(6000, 150000))
    ctx.assumptions += [
        "the queue model (Model/ChanQueue.lean) is hand-written from channel_queue.rs; agreement is checked on the chanq stream, not proved",
        "fiber-level retry (op_send/op_receive): theorems C07_retry_once / C07_sched_fifo on the scheduler model of C08, stream sched_fifo judges program output with a per-channel FIFO monitor",
    ]


def replay(path):
    r = json.load(open(path))
    ops = r.get("ops", [])
    ok_c, _ = common.cargo_build()
    common.lake_build(["driver"])
    a, b, m, notes = common.diff_streams("chanq", ops)
    for op, x, y in zip(ops, a, b):
        print("%-20s model=%-16s impl=%s" % (op, x, y))
    sm = spec_monitor(ops, b)
    print("spec:", sm, " first model/impl mismatch:", m)
    return 1 if (sm or m is not None) else 0
