"""C15 input generators: the malformed-input stream (one seeded PRNG), valid seed programs, boundary-count
programs, bounded deep nesting, REPL sessions.  Everything returns `(family, text)` pairs; `text` is valid UTF-8.
"""
import glob
import os
import re

MARK = "C15MARK"
MARKER = 'print("%s");\n' % MARK

# token regex used for token-level mutations (not the real scanner: only a way to cut programs into pieces)
TOK = re.compile(r'\s+|//[^\n]*|"(?:[^"\\]|\\.)*"|\'(?:[^\'\\]|\\.)*\'|[A-Za-z_][A-Za-z_0-9]*[?!]?|@[A-Za-z_0-9]*|\d+(?:\.\d+)?(?:[eE][+-]?\d+)?'
                 r'|<-|->|[=!<>+\-*/]=|&&|\|\||\$\{|.', re.S)

KEYWORDS = ["as", "break", "catch", "chan", "continue", "class", "else", "export", "false", "for", "fn", "if", "import", "in",
            "launch", "let", "nil", "return", "raise", "self", "super", "static", "trait", "true", "try", "type", "while"]
PUNCT = ["(", ")", "{", "}", "[", "]", ",", ".", ";", ":", "|", "<-", "->", "=", "==", "!=", "+", "-", "*", "/", "+=", "-=", "*=",
         "/=", "!", "?", "&&", "||", "&", "<", ">", "<=", ">="]
ODD = ['"', "'", "${", '"${', '}"', "'${", "@x", "@", "\\", "\u00e9", "\U0001F600", "\u2028", "\ufeff", "\x00", "\t", "\r", "\n",
       "0", "1e9", "1e", "1e+", "1.", ".5", "1.5.5", "99999999999999999999999999", "0x10", "1_000", "#", "$", "`", "~", "^", "%",
       '"\\\u00e9"', "'\\\U0001F600'", '"\\u{\u00e9}"', '"\\u{12\u00e9"', '"\\u\u00e9"', '"a\\', '"\u00e9\\',
       '"\\u{41}"', '"\\u{110000}"', '"\\u{zz}"', '"\\u{1234567}"', '"\\u{12345678}"', '"\\u{"', '"\\u41"', '"\\q"', '"\\', "'\\'",
       "//", "// c\n", "/", "/*", "*/", "x?", "x!", "x?!", "_", "__", "init", "str", "Error", "print", "Object", "$iter", "a.b", "a[0]",
       "a()", "|x| x", "|| 1", "chan()", "<- c", "c <- 1"]
VOCAB = KEYWORDS + PUNCT + ODD + ["x", "y", "f", "A", "B", "foo", "1", "2", '"s"', "'t'"]

_SKIP_FIXTURE = re.compile(r"std\.io\.fs|\bfs\b|std\.env|removeFile|writeFile|readFile")


def fixture_corpus(repo, maxlen=4000):
    """(path, text) of the fixture programs that are safe to mutate and run (no file-system natives)."""
    out = []
    for f in sorted(glob.glob(os.path.join(repo, "laythe_vm", "fixture", "**", "*.lay"), recursive=True)):
        try:
            s = open(f, encoding="utf-8").read()
        except (OSError, UnicodeDecodeError):
            continue
        if len(s) > maxlen or _SKIP_FIXTURE.search(s) or "/io/fs/" in f or "/env/" in f:
            continue
        out.append((f, s))
    return out


# ---------------------------------------------------------------------------------------------
# valid programs of our own (scope-aware, terminating)


class ProgGen:
    def __init__(self, rng):
        self.r = rng
        self.n = 0

    def fresh(self, p="v"):
        self.n += 1
        return "%s%d" % (p, self.n)

    def expr(self, env, d=0):
        r = self.r
        k = r.random()
        if d > 3 or k < 0.25:
            c = r.random()
            if c < 0.35 and env:
                return r.choice(env)
            if c < 0.6:
                return str(r.choice([0, 1, 2, 3, 10, 255, 256, 1.5, 1e3, 65535]))
            if c < 0.75:
                return r.choice(['"s"', "'t'", '"a\\nb"', '"\\u{e9}"', '"caf\u00e9"', '"\U0001F600"', '""'])
            return r.choice(["true", "false", "nil"])
        if k < 0.45:
            return "%s %s %s" % (self.expr(env, d + 1), r.choice(["+", "-", "*", "/", "<", ">", "<=", ">=", "==", "!=", "&&", "||"]),
                                 self.expr(env, d + 1))
        if k < 0.52:
            return "%s%s" % (r.choice(["!", "-"]), self.expr(env, d + 1))
        if k < 0.6:
            return "(%s)" % self.expr(env, d + 1)
        if k < 0.68:
            return "[%s]" % ", ".join(self.expr(env, d + 1) for _ in range(r.randint(0, 4)))
        if k < 0.73:
            return "{%s}" % ", ".join('"k%d": %s' % (i, self.expr(env, d + 1)) for i in range(r.randint(0, 3)))
        if k < 0.8:
            return '"a ${%s} b${%s}"' % (self.expr(env, d + 1), self.expr(env, d + 2))
        if k < 0.86:
            p = self.fresh("p")
            return "|%s| %s" % (p, self.expr(env + [p], d + 1))
        if k < 0.9:
            return "%s ? %s : %s" % (self.expr(env, d + 1), self.expr(env, d + 1), self.expr(env, d + 1))
        if k < 0.95:
            return "(%s, %s)" % (self.expr(env, d + 1), self.expr(env, d + 1))
        return "[%s][0]" % self.expr(env, d + 1)

    def block(self, env, d, in_loop=False, in_fn=False):
        env = list(env)
        out = []
        for _ in range(self.r.randint(1, 4)):
            out.append(self.stmt(env, d + 1, in_loop, in_fn))
        return "{\n" + "".join("  " * (d + 1) + s + "\n" for s in out) + "  " * d + "}"

    def stmt(self, env, d=0, in_loop=False, in_fn=False):
        r = self.r
        k = r.random()
        if d > 3:
            k = k * 0.35
        if k < 0.2:
            v = self.fresh()
            s = "let %s = %s;" % (v, self.expr(env))
            env.append(v)
            return s
        if k < 0.32:
            return "print(%s);" % self.expr(env)
        if k < 0.38 and env:
            return "%s = %s;" % (r.choice(env), self.expr(env))
        if k < 0.48:
            return "if %s %s%s" % (self.expr(env), self.block(env, d, in_loop, in_fn),
                                   (" else " + self.block(env, d, in_loop, in_fn)) if r.random() < 0.5 else "")
        if k < 0.56:
            i = self.fresh("i")
            body = self.block(env + [i], d, True, in_fn)
            # the counter is bumped first so that `continue` cannot loop forever
            return "{ let %s = 0; while %s < %d { %s = %s + 1; %s } }" % (i, i, r.randint(0, 3), i, i, body)
        if k < 0.63:
            x = self.fresh("x")
            return "for %s in [%s] %s" % (x, ", ".join(self.expr(env) for _ in range(r.randint(0, 3))),
                                         self.block(env + [x], d, True, in_fn))
        if k < 0.73:
            f = self.fresh("f")
            ps = [self.fresh("a") for _ in range(r.randint(0, 3))]
            env.append(f)
            body = self.block(env + ps, d, False, True)
            call = "%s(%s);" % (f, ", ".join(self.expr(env) for _ in ps))
            return "fn %s(%s) %s %s" % (f, ", ".join(ps), body, call)
        if k < 0.8:
            c = self.fresh("C")
            env.append(c)
            fld = self.fresh("fld")
            return ("class %s { init(a) { self.%s = a; } get() { return @%s; } static mk() { return %s(1); } } print(%s(%s).get());"
                    % (c, fld, fld, c, c, self.expr(env)))
        if k < 0.87:
            e = self.fresh("e")
            return "try %s catch %s: Error %s" % (self.block(env, d, in_loop, in_fn), e, self.block(env + [e], d, in_loop, in_fn))
        if k < 0.9 and in_loop:
            return r.choice(["break;", "continue;"])
        if k < 0.94 and in_fn:
            return "return %s;" % self.expr(env)
        if k < 0.97:
            return 'raise Error("boom");' if r.random() < 0.3 else "assert(true);"
        return self.block(env, d, in_loop, in_fn)

    def program(self):
        env = []
        return "".join(self.stmt(env) + "\n" for _ in range(self.r.randint(2, 8)))


# ---------------------------------------------------------------------------------------------
# mutations


def _tokens(s):
    return TOK.findall(s)


def mutate_tokens(rng, s):
    toks = _tokens(s)
    if not toks:
        return s
    for _ in range(rng.choice([1, 1, 1, 2, 3, 5])):
        k = rng.random()
        i = rng.randrange(len(toks))
        if k < 0.22:
            del toks[i]
        elif k < 0.40:
            toks.insert(i, rng.choice(VOCAB))
        elif k < 0.56:
            toks[i] = rng.choice(VOCAB)
        elif k < 0.66:
            j = rng.randrange(len(toks))
            toks[i], toks[j] = toks[j], toks[i]
        elif k < 0.76:
            toks.insert(i, toks[rng.randrange(len(toks))])
        elif k < 0.84:
            j = min(len(toks), i + rng.randint(1, 6))
            seg = toks[i:j]
            p = rng.randrange(len(toks))
            toks[p:p] = seg
        elif k < 0.90:
            j = min(len(toks), i + rng.randint(1, 8))
            del toks[i:j]
        else:
            toks = toks[:i]
        if not toks:
            break
    return "".join(toks)


def mutate_bytes(rng, s):
    b = bytearray(s.encode("utf-8"))
    for _ in range(rng.choice([1, 1, 2, 4])):
        if not b:
            break
        p = rng.randrange(len(b))
        k = rng.random()
        if k < 0.4:
            b[p] = rng.randrange(256)
        elif k < 0.6:
            b.insert(p, rng.randrange(256))
        elif k < 0.8:
            del b[p]
        else:
            b[p:p] = rng.choice(["\u00e9", "\U0001F600", "\u2028", "\ufeff", "\x00", "\u0301"]).encode("utf-8")
    return b.decode("utf-8", errors="replace")


MULTI = ["\u00e9", "\u00df", "\u0416", "\u4e2d", "\U0001F600", "\u2028", "\u0301", "\ufeff", "\u00a0", "\U00010348"]


def multibyte(rng, s):
    """put multi-byte characters at every kind of position: after a backslash, a quote, `${`, `\\u{`, a digit, `e`, `@`, `/`,
    an identifier character, or anywhere (insert or replace)."""
    if not s:
        return rng.choice(MULTI)
    spots = [m.end() for m in re.finditer(r'\\\\|["\']|\$\{|\\\\u\{?[0-9a-fA-F]*|\d|[eE]|@|/|\.|[A-Za-z_]', s)]
    for _ in range(rng.choice([1, 1, 2, 3, 6])):
        p = rng.choice(spots) if spots and rng.random() < 0.7 else rng.randrange(len(s) + 1)
        p = min(p, len(s))
        c = rng.choice(MULTI)
        if rng.random() < 0.6 or p >= len(s):
            s = s[:p] + c + s[p:]
        else:
            s = s[:p] + c + s[p + 1:]
    return s


def truncate(rng, s):
    """cut at every kind of position: token boundary, inside a token, inside a string / interpolation / comment."""
    if not s:
        return s
    k = rng.random()
    if k < 0.4:
        toks = _tokens(s)
        return "".join(toks[:rng.randrange(len(toks) + 1)])
    if k < 0.6:
        pos = [m.start() + 1 for m in re.finditer(r'["\']', s)] or [len(s) // 2]
        return s[:rng.choice(pos) + rng.randint(0, 3)]
    if k < 0.7:
        pos = [m.end() for m in re.finditer(r"\$\{", s)] or [len(s) // 2]
        return s[:rng.choice(pos) + rng.randint(0, 2)]
    if k < 0.8:
        pos = [m.start() + 1 for m in re.finditer(r"//", s)] or [len(s) // 2]
        return s[:rng.choice(pos)]
    return s[:rng.randrange(len(s) + 1)]


def unbalance(rng, s):
    toks = _tokens(s)
    idx = [i for i, t in enumerate(toks) if t in "(){}[]|" or t in ('"', "'", "${")]
    if not idx:
        return rng.choice("({[") + s
    for _ in range(rng.choice([1, 1, 2])):
        i = rng.choice(idx)
        k = rng.random()
        if k < 0.45:
            toks[i] = ""
        elif k < 0.7:
            toks[i] = toks[i] * 2
        else:
            toks[i] = rng.choice(["(", ")", "{", "}", "[", "]"])
    return "".join(toks)


def reserve(rng, s):
    """reserved words in identifier positions (and identifiers where keywords stood)."""
    toks = _tokens(s)
    ids = [i for i, t in enumerate(toks) if re.fullmatch(r"[A-Za-z_][A-Za-z_0-9]*[?!]?", t) and t not in KEYWORDS]
    kws = [i for i, t in enumerate(toks) if t in KEYWORDS]
    for _ in range(rng.choice([1, 1, 2, 3])):
        if ids and (rng.random() < 0.8 or not kws):
            toks[rng.choice(ids)] = rng.choice(KEYWORDS)
        elif kws:
            toks[rng.choice(kws)] = rng.choice(["x", "klass", "fun"] + KEYWORDS)
    return "".join(toks)


def unterminate(rng, s):
    k = rng.random()
    strs = [m for m in re.finditer(r'"(?:[^"\\]|\\.)*"|\'(?:[^\'\\]|\\.)*\'', s)]
    if strs and k < 0.5:
        m = rng.choice(strs)
        body = m.group(0)
        c = rng.random()
        if c < 0.35:
            new = body[:-1]
        elif c < 0.55:
            new = body[:-1] + "${"
        elif c < 0.7:
            new = body[:-1] + "${ 1 + " + body[0]
        elif c < 0.85:
            new = body[:-1] + "\\"
        else:
            new = body[:-1] + "${ " + body[0] + "x${"
        return s[:m.start()] + new + s[m.end():]
    tails = ['"abc', "'abc", '"${', '"a${1', '"a${"b${', '"a${ {', '"a${ } }', '"${"${"${', '"\\', '"\\u{', '"\\u{12', '"x${1}y${',
             "'${'${", '"${//c\n', '"${1}', '"${', 'let s = "', "print('"]
    p = rng.randrange(len(s) + 1) if rng.random() < 0.5 else len(s)
    return s[:p] + rng.choice(tails) + (s[p:] if rng.random() < 0.5 else "")


def long_token(rng, s):
    n = rng.choice([300, 1000, 5000, 20000, 70000])
    k = rng.random()
    if k < 0.2:
        t = "a" * n
        piece = "let %s = 1; print(%s);" % (t, t)
    elif k < 0.35:
        piece = "print(%s);" % ("9" * n)
    elif k < 0.45:
        piece = "print(1.%s);" % ("3" * n)
    elif k < 0.6:
        piece = 'print("%s".len());' % ("s\u00e9" * (n // 2))
    elif k < 0.7:
        piece = "// %s\nprint(1);" % ("c" * n)
    elif k < 0.8:
        piece = "print(1e%s);" % ("9" * min(n, 400))
    elif k < 0.9:
        piece = "@%s;" % ("p" * n)
    else:
        piece = 'print("%s' % ("u" * n)  # long and unterminated
    p = 0 if rng.random() < 0.5 else len(s)
    return s[:p] + "\n" + piece + "\n" + s[p:]


def soup(rng):
    n = rng.choice([1, 2, 3, 5, 8, 13, 30, 80])
    sep = rng.choice([" ", " ", "", "\n"])
    return sep.join(rng.choice(VOCAB) for _ in range(n))


NEST_KINDS = ["paren", "list", "block", "lambda", "unary_not", "unary_neg", "if", "fn", "interp", "call", "index", "ternary", "binary",
              "map", "class_method", "while", "tuple", "try", "dot", "open_paren", "open_block", "open_list", "open_lambda",
              "open_interp", "open_fn", "open_if"]


def nesting(kind, d):
    """bounded nesting of depth d (balanced unless the kind starts with open_)."""
    if kind == "paren":
        return "print(" + "(" * d + "1" + ")" * d + ");"
    if kind == "list":
        return "print(" + "[" * d + "1" + "]" * d + ");"
    if kind == "tuple":
        return "let t = " + "(" * d + "1," + ",)" * 0 + ")" * d + ";"
    if kind == "block":
        return "{" * d + "print(1);" + "}" * d
    if kind == "lambda":
        return "let f = " + "|| " * d + "1;"
    if kind == "unary_not":
        return "print(" + "!" * d + "true);"
    if kind == "unary_neg":
        return "print(" + "-" * d + "1);"
    if kind == "if":
        return "if true { " * d + "print(1);" + " }" * d
    if kind == "while":
        return "while false { " * d + "print(1);" + " }" * d
    if kind == "try":
        return "try { " * d + "print(1);" + " } catch e: Error { }" * d
    if kind == "fn":
        return "".join("fn f%d() { " % i for i in range(d)) + "print(1);" + " }" * d
    if kind == "interp":
        return "print(" + '"a${' * d + "1" + '}"' * d + ");"
    if kind == "call":
        return "fn f() { return f; } f" + "()" * d + ";"
    if kind == "index":
        return "let l = [1]; l" + "[0]" * d + ";"
    if kind == "dot":
        return "let o = nil; o" + ".a" * d + ";"
    if kind == "ternary":
        return "print(" + "true ? " * d + "1" + " : 2" * d + ");"
    if kind == "binary":
        return "print(" + "1 + (" * d + "1" + ")" * d + ");"
    if kind == "map":
        return "print(" + '{"a": ' * d + "1" + "}" * d + ");"
    if kind == "class_method":
        return "".join("class C%d { m() { " % i for i in range(d)) + "print(1);" + " } }" * d
    if kind == "open_paren":
        return "print(" + "(" * d + "1"
    if kind == "open_block":
        return "{" * d + "print(1);"
    if kind == "open_list":
        return "print(" + "[" * d
    if kind == "open_lambda":
        return "let f = " + "|| " * d
    if kind == "open_interp":
        return "print(" + '"a${' * d
    if kind == "open_fn":
        return "".join("fn f%d() { " % i for i in range(d))
    if kind == "open_if":
        return "if true { " * d
    raise ValueError(kind)


def boundary_cases():
    """(name, text, compile_only, expect) — counts at the documented limits.  expect: 'ok' | 'error' | None (either)."""
    out = []

    def fn_locals(n):
        return "fn f() {\n" + "".join("  let v%d = %d;\n" % (i, i) for i in range(n)) + "  return v0;\n}\nprint(f());\n"

    for n in (253, 254, 255, 256, 300):
        out.append(("locals_%d" % n, fn_locals(n), False, None))
    for n in (253, 254, 255, 256):
        ps = ", ".join("p%d" % i for i in range(n))
        out.append(("params_%d" % n, "fn f(%s) { return 1; }\nprint(1);\n" % ps, False, None))
        out.append(("lambda_params_%d" % n, "let f = |%s| 1;\nprint(1);\n" % ps, False, None))
    for n in (253, 254, 255, 256, 257):
        args = ", ".join("1" for _ in range(n))
        out.append(("args_%d" % n, "fn f() { return 1; }\nfn g() { return f(%s); }\nprint(1);\n" % args, False, None))
        out.append(("launch_args_%d" % n, "fn f() { return 1; }\nfn g() { launch f(%s); }\nprint(1);\n" % args, False, None))
        out.append(("method_args_%d" % n, "fn g(o) { return o.m(%s); }\nprint(1);\n" % args, False, None))
    for n in (254, 255, 256, 257):
        # n captured variables of the enclosing function
        decl = "".join("  let c%d = %d;\n" % (i, i) for i in range(min(n, 250)))
        extra = n - min(n, 250)
        inner_decl = "".join("    let d%d = %d;\n" % (i, i) for i in range(extra))
        uses = " + ".join(["c%d" % i for i in range(min(n, 250))] + ["d%d" % i for i in range(extra)])
        out.append(("captures_%d" % n,
                    "fn outer() {\n%s  fn mid() {\n%s    fn inner() { return %s; }\n    return inner;\n  }\n  return mid;\n}\nprint(1);\n"
                    % (decl, inner_decl, uses), False, None))
    for n in (254, 255, 256, 300):
        out.append(("list_items_%d" % n, "fn f() { return [%s]; }\nprint(1);\n" % ", ".join("1" for _ in range(n)), False, None))
        out.append(("map_items_%d" % n, "fn f() { return {%s}; }\nprint(1);\n" % ", ".join("%d: 1" % i for i in range(n)), False, None))
        out.append(("tuple_items_%d" % n, "fn f() { return (%s); }\nprint(1);\n" % ", ".join("1" for _ in range(n)), False, None))
        out.append(("interp_items_%d" % n, "fn f() { return \"%s\"; }\nprint(1);\n" % "".join("${1}" for _ in range(n)), False, None))
    for n in (200, 253):
        # deepest stack at a `try` (Gen/Limits row handler_slots): many locals, then a handler
        out.append(("handler_slots_%d" % n, "fn f() {\n" + "".join("  let v%d = %d;\n" % (i, i) for i in range(n)) +
                    "  try { raise Error('x'); } catch e: Error { return v0; }\n}\nprint(f());\n", False, None))
    for n in (255, 256, 257):
        out.append(("constants_%d" % n, "fn f() {\n" + "".join("  %d.5;\n" % i for i in range(n)) + "}\nprint(1);\n", False, None))
        out.append(("fields_%d" % n, "class A { init() {\n" + "".join("  self.f%d = 1;\n" % i for i in range(n)) + "} }\nprint(1);\n",
                    False, None))
        out.append(("methods_%d" % n, "class A {\n" + "".join("  m%d() { return 1; }\n" % i for i in range(n)) + "}\nprint(1);\n",
                    False, None))
    return out


def _rows(items, per=16):
    """join statements, `per` to a line (keeps the texts short; texts with more than 65535 lines are the `lines_*` and
    `*_per_line` cases)."""
    return "".join(x + ("\n" if i % per == per - 1 else "") for i, x in enumerate(items))


def big_boundary_cases():
    """the 16-bit limits; large texts, compile-only (running them would only exercise the VM)."""
    out = []
    for n in (65534, 65535, 65536, 65537):
        out.append(("constants_%d" % n, "fn f() {\n" + _rows(["%d.5;" % i for i in range(n)]) + "}\n", True, None))
    for n in (65533, 65534, 65535, 65536):
        out.append(("list_items_%d" % n, "fn f() { return [%s]; }\n" % _rows(["1," for _ in range(n)], 64), True, None))
        out.append(("map_items_%d" % n, "fn f() { return {%s}; }\n" % _rows(["1:1," for _ in range(n)], 64), True, None))
    for n in (65532, 65533, 65534, 65535, 65536):
        # n interpolation segments: one `${1 1}` (two expressions) + alternating expr / string segments
        k = (n - 1) // 2 if n % 2 == 0 else (n + 1) // 2
        body = ("${1 1}" if n % 2 == 0 else "") + "${1}" * k
        out.append(("interp_segments_%d" % n, 'fn f() { return "%s"; }\n' % body, True, None))
    for n in (65534, 65535, 65536, 65537):
        out.append(("module_symbols_%d" % n, _rows(["let m%d=1;" % i for i in range(n)]), True, None))
    for n in (65535, 65536):
        out.append(("fields_%d" % n, "class A { init() {\n" + _rows(["self.f%d=1;" % i for i in range(n)]) + "} }\n", True, None))
    out.append(("jump_65k", "fn f(c) { if c {\n" + "1 + 2 + 3 + 4;\n" * 9000 + "} }\n", True, None))
    out.append(("jump_70k", "fn f(c) { if c {\n" + "1 + 2 + 3 + 4;\n" * 15000 + "} }\n", True, None))
    out.append(("loop_70k", "fn f(c) { while c {\n" + "1 + 2 + 3 + 4;\n" * 15000 + "} }\n", True, None))
    # line numbers are stored as u16: exact up to 65535, saturated beyond (was finding D153: `line as u16 + 1` overflowed)
    for n in (65533, 65534, 65535, 65536, 70000, 140000):
        out.append(("lines_%d" % n, "\n" * n + "print(1);\n", True, None))
    # one statement per line, past line 65535, together with another limit
    out.append(("constants_per_line_65537", "fn f() {\n" + "".join("%d.5;\n" % i for i in range(65537)) + "}\n", True, None))
    out.append(("stmts_per_line_70000", "fn f(c) {\n" + "c;\n" * 70000 + "if c { return 1; }\n}\n", True, None))
    # jump targets per function: at most 65535 (was finding D154: `todo!()` beyond)
    for n in (65534, 65535, 65536, 65537):
        out.append(("labels_%d" % n, "fn f(c) {\n" + _rows(["if c {}" for _ in range(n)]) + "}\n", True, None))
    for n in (32767, 32768, 40000):
        out.append(("ifelse_%d" % n, "fn f(c) {\n" + _rows(["if c {} else {}" for _ in range(n)], 4) + "}\n", True, None))
    out.append(("while_labels_40000", "fn f(c) {\n" + _rows(["while c {}" for _ in range(40000)], 8) + "}\n", True, None))
    return out


# programs that use the (rarely exercised) type syntax: generics, traits, type declarations, annotations
TYPED_SEEDS = [
    "class Box<T> {\n  value: T;\n  init(v: T) { self.value = v; }\n  get() -> T { return self.value; }\n}\nprint(Box(1).get());\n",
    "class Base<T> { init(v: T) { self.v = v; } }\nclass Sub : Base<number> { init(v: number) { super.init(v); } }\nprint(Sub(2).v);\n",
    "class Pair<A, B: Base> : Object { first: A; second: B[]; static mk<A>(a: A) -> Pair<A, nil> { return Pair(); } }\nprint(1);\n",
    "trait Shape {\n  name: string;\n  area() -> number;\n  scale(by: number, other: Shape | nil) -> Shape;\n}\nprint(1);\n",
    "trait Parser<T> { parse(source: string) -> T | nil; }\ntype P = Parser<number>;\nprint(1);\n",
    "type Num = number | nil;\ntype F = (a: number, b: string) -> bool;\ntype L<T> = T[] & any;\nprint(1);\n",
    "fn id<T>(a: T) -> T { return a; }\nfn g(a: number | string, b: any, c: Map<string, number[]>) -> nil { }\nprint(id(3));\n",
    "let xs: number[] = [1, 2];\nlet f: (a: number) -> number = |a| { return a + 1; };\nprint(f(xs[0]));\n",
    "let h = |a, b| -> number a;\nlet k: Box<Box<number>> | nil = nil;\nexport fn typed(a: bool) -> bool { return a; }\nprint(h(1, []));\n",
    "class A : B<C<D>, E[]> { m<T: A & B>(x: T) -> T | nil { return x; } }\n",
    "export class Typed<T> { v: T; }\nexport let tv: number = 1;\nexport trait Tr { a: number; }\n",
]

SNIPPETS = ["break;", "continue;", "return 1;", "return;", "self;", "super.m();", "@x;", "@x = 1;", "let x = x;", "x;", "x = 1;",
            "import std.io;", "import std.io as io2;", "import std.math: {pi};", "export let z = 1;", "export fn ef() {}",
            "for x in x {}", "for i in [1] { break; }", "try {} catch e: e {}", "try { raise Error('a'); } catch e: Error { print(e.message); }",
            "let f = || { break; };", "let f = |a| { continue; };", "let f = || self;", "let f = || @x;", "let f = || super.m();",
            "fn inner() { return x; }", "fn inner() { x = 2; }", "class Inner { m() { return self; } }", "class Inner : x { }",
            "class Inner { init() { @a = 1; } static s() { return self; } }", "class Inner { m() { return super.m(); } }",
            "launch f();", "launch || 1;", "launch 1;", "raise 1;", "raise Error('x');", "let c = chan(); c <- 1; <- c;",
            "let x = 1;", "let x;", "let x = 1; let x = 2;", "{ let x = 1; { let x = x; } }", "fn x() {}", "class x {}",
            "if x { let y = 1; } else { y; }", "while false { let w = 1; continue; }", "while false { let a=1;let b=2;let c=3; { break; } }",
            "x += 1;", "x.y += 1;", "x[0] -= 1;", "1 = 2;", "x() = 2;", "(x) = 2;", "a ? b : c = 1;", "x <- 1;", "<- x;", "x.y.z();",
            "trait T { a: number; }", "type N = number;", "let t: number = 1;", "fn g<T>(a: T) -> T { return a; }", "class G<T> { a: T; }",
            "class H : x<number> {}", "class H<T> : x<T, T[]> { f: (a: T) -> T; }", "trait U<T> { m<V>(a: V) -> T | nil; }",
            "type Q<T: x> = T[] | nil & any;", "let u: x<number>[] = [];", "fn w(a: x | nil, b: (c: x) -> x) -> x[] { return []; }",
            "let lam = |a: x<y>| -> x { return a; };",
            # shapes of repaired front-end defects (D151/D31 declaration order, D152/D21 loop depth): judged like everything else
            "for x in [x] {}", "for x in (|| x)() { x; }", "for x in [|| x] { let x = 1; }", "fn fx() { let x = [1]; fn gx() { for x in x {} } }",
            "try {} catch x: x {}", "try {} catch Error {}", "try {} catch x { x; }", "try {} catch x: Error { let f = || x; }",
            "while false { let f = || { break; }; }", "for i in [1] { let f = |a| { continue; }; }", "while false { let f = || { while false { break; } }; break; }",
            "for i in [1] { [1].iter().each(|v| { break; }); }", "while false { fn bad( { } }", "for i in [] { fn g() 6 { continue; } g(); }",
            "while false { fn g(a { } break; }", "while false { class K { m( { } } continue; }", "while false { fn g() { fn h( } break; }",
            "'${x}';", "\"${|| { return 1; }}\";", "\"${x ? 1 : 2}${'${x}'}\";", "exit(0);", "print;", "print(print);", "assert(true);"]


def _stmt_positions(s):
    """offsets just after `;`, `{` or `}` (approximation by the token regex: string contents are one token)."""
    pos, off = [0], 0
    for t in _tokens(s):
        off += len(t)
        if t in (";", "{", "}"):
            pos.append(off)
    return pos


def splice(rng, s):
    """insert statement snippets at statement boundaries (keeps most programs syntactically valid, so that
    resolver and compiler are reached)."""
    for _ in range(rng.choice([1, 1, 2, 3])):
        pos = _stmt_positions(s)
        p = rng.choice(pos)
        snip = rng.choice(SNIPPETS)
        ids = [t for t in _tokens(s) if re.fullmatch(r"[A-Za-z_][A-Za-z_0-9]*", t) and t not in KEYWORDS]
        if ids and rng.random() < 0.6:
            snip = re.sub(r"\bx\b", lambda m: rng.choice(ids), snip)
        s = s[:p] + " " + snip + " " + s[p:]
    return s


def rename(rng, s):
    """identifier-level mutations: rename one occurrence / all occurrences, to another identifier of the program or a fresh one."""
    toks = _tokens(s)
    ids = [i for i, t in enumerate(toks) if re.fullmatch(r"[A-Za-z_][A-Za-z_0-9]*", t) and t not in KEYWORDS]
    if not ids:
        return s
    for _ in range(rng.choice([1, 1, 2])):
        i = rng.choice(ids)
        new = toks[rng.choice(ids)] if rng.random() < 0.7 else rng.choice(["undeclared", "self", "super", "init", "print", "Object", "x"])
        if rng.random() < 0.5:
            toks[i] = new
        else:
            old = toks[i]
            toks = [new if t == old else t for t in toks]
    return "".join(toks)


def wrap(rng, s):
    """move module-level code into another context (function, method, lambda, loop, try, block, class in loop...)."""
    k = rng.randrange(10)
    if k == 0:
        return "fn wrapper() {\n%s\n}\nwrapper();\n" % s
    if k == 1:
        return "class W { m() {\n%s\n} }\nW().m();\n" % s
    if k == 2:
        return "let w = || {\n%s\n};\nw();\n" % s
    if k == 3:
        return "while true {\n%s\nbreak; }\n" % s
    if k == 4:
        return "for it in [1] {\n%s\n}\n" % s
    if k == 5:
        return "try {\n%s\n} catch e: Error { print('caught'); }\n" % s
    if k == 6:
        return "{\n%s\n}\n" % s
    if k == 7:
        return "class W { static s() {\n%s\n} }\nW.s();\n" % s
    if k == 8:
        return "fn outer() { let cap = 1; fn inner() { cap;\n%s\n} inner(); }\nouter();\n" % s
    return "while true { fn lf() {\n%s\n} lf(); break; }\n" % s


FAMILIES = ["token", "token", "token", "byte", "byte", "multibyte", "multibyte", "truncate", "truncate", "unbalance", "reserve", "unterminate",
            "long", "soup", "nest", "valid", "own_token", "own_token", "splice", "splice", "splice", "rename", "rename", "wrap", "wrap"]


def gen_case(rng, corpus, progs, max_depth):
    """one input of the malformed stream: (family, text)."""
    fam = rng.choice(FAMILIES)
    base = rng.choice(corpus)[1] if corpus else "print(1);"
    if fam == "token":
        t = mutate_tokens(rng, base)
    elif fam == "own_token":
        t = mutate_tokens(rng, rng.choice(progs))
    elif fam == "byte":
        t = mutate_bytes(rng, base if rng.random() < 0.7 else rng.choice(progs))
    elif fam == "multibyte":
        src = base if rng.random() < 0.6 else rng.choice(progs)
        if rng.random() < 0.4:
            src = unterminate(rng, src) if rng.random() < 0.5 else mutate_tokens(rng, src)
        t = multibyte(rng, src)
    elif fam == "truncate":
        t = truncate(rng, base if rng.random() < 0.7 else rng.choice(progs))
    elif fam == "unbalance":
        t = unbalance(rng, base if rng.random() < 0.7 else rng.choice(progs))
    elif fam == "reserve":
        t = reserve(rng, base if rng.random() < 0.7 else rng.choice(progs))
    elif fam == "unterminate":
        t = unterminate(rng, base if rng.random() < 0.7 else rng.choice(progs))
    elif fam == "long":
        t = long_token(rng, base if len(base) < 1500 else "")
    elif fam == "soup":
        t = soup(rng)
    elif fam == "nest":
        kind = rng.choice(NEST_KINDS)
        d = rng.randint(max(2, max_depth // 4), max_depth)
        t = nesting(kind, d)
        fam = "nest:" + kind
        if rng.random() < 0.3:
            t = mutate_tokens(rng, t)
    elif fam == "splice":
        t = splice(rng, base if rng.random() < 0.6 else rng.choice(progs))
    elif fam == "rename":
        t = rename(rng, base if rng.random() < 0.6 else rng.choice(progs))
    elif fam == "wrap":
        t = wrap(rng, base if rng.random() < 0.6 else rng.choice(progs))
        if rng.random() < 0.5:
            t = splice(rng, t)
        if rng.random() < 0.3:
            t = mutate_tokens(rng, t)
    else:
        t = rng.choice(progs) if rng.random() < 0.5 else base
    if rng.random() < 0.85:
        t = MARKER + t
    return fam, t


# ---------------------------------------------------------------------------------------------
# REPL sessions: definitions, then an erroneous entry, then uses of the earlier definitions.
# D13's signature (a function with property / invoke sites defined in one entry and called in a later one) is avoided:
# no `.` and no `@` inside function bodies, no classes.

REPL_BAD = ["let = 3;", "fn (", "print(1", "1 +;", "let q = \"abc", "class {", "}", "let z = undefinedName;", "print(undefinedThing);",
            "fn g(a, a) { }", "return 1;", "break;", "self;", "super.x;", "let y = y;", "{ let w = w; }", "@x;", "\"${\"", "let s = 'a${",
            "fn h() { let a = 1; let a = 2; }", "export let e = 1;", "1 = 2;", "if { }", "for in x {}", "try { }", "catch", "a..b;",
            "\u00e9;", "let \U0001F600 = 1;", "print(\"\\q\");", ")))", "[[[", "fn k() { continue; }", "|| ||", "let let = 1;",
            "while", "x x x", "import;", "launch 1;", "raise;"]


def repl_session(rng):
    """returns (lines_with_bad, lines_without_bad, n_bad, expected_output_lines or None)."""
    names = []
    n = 0
    expected = []
    exact = True

    def define():
        nonlocal n
        n += 1
        k = rng.random()
        if k < 0.4:
            v = "g%d" % n
            val = rng.randint(0, 99)
            names.append(("var", v, val))
            return "let %s = %d;" % (v, val)
        if k < 0.75:
            f = "fun%d" % n
            val = rng.randint(0, 9)
            names.append(("fn", f, val))
            return "fn %s(a) { return a + %d; }" % (f, val)
        if k < 0.9:
            f = "mk%d" % n
            val = rng.randint(0, 9)
            names.append(("mk", f, val))
            return "fn %s() { let c = %d; return || c + 1; }" % (f, val)
        l = "lst%d" % n
        a, b = rng.randint(0, 9), rng.randint(0, 9)
        names.append(("list", l, b))
        return "let %s = [%d, %d];" % (l, a, b)

    def use():
        kind, nm, val = rng.choice(names)
        if kind == "var":
            expected.append(str(val + 1))
            return "print(%s + 1);" % nm
        if kind == "fn":
            a = rng.randint(0, 9)
            expected.append(str(a + val))
            return "print(%s(%d));" % (nm, a)
        if kind == "mk":
            expected.append(str(val + 1))
            return "print(%s()());" % nm
        expected.append(str(val))
        return "print(%s[1]);" % nm

    with_bad, without = [], []
    nbad = 0
    for _ in range(rng.randint(1, 3)):
        l = define()
        with_bad.append(l)
        without.append(l)
    for _ in range(rng.randint(2, 6)):
        k = rng.random()
        if k < 0.4:
            b = rng.choice(REPL_BAD)
            if rng.random() < 0.3:
                # a mutated good entry may or may not be valid: it goes into both sessions, exact expectations are dropped
                b = mutate_tokens(rng, rng.choice(without)).replace("\n", " ")
                with_bad.append(b)
                without.append(b)
                exact = False
                continue
            with_bad.append(b)
            nbad += 1
        elif k < 0.6:
            l = define()
            with_bad.append(l)
            without.append(l)
        else:
            l = use()
            with_bad.append(l)
            without.append(l)
    l = use()
    with_bad.append(l)
    without.append(l)
    return with_bad, without, nbad, (expected if exact else None)


# ---------------------------------------------------------------------------------------------
# scoping skeletons for the resolver => compiler contract tie (Model/Contract.lean): a random `Items` tree in the
# driver's prefix notation together with the Laythe source text that has exactly this scoping structure.

GLOBAL_NAMES = {50: "Error", 51: "print", 52: "Object"}


def _nm(n):
    return GLOBAL_NAMES.get(n, "v%d" % n)


class Skeleton:
    """random scoping skeleton; `env` (names believed to be in scope) biases the uses towards declared names so that a
    good share of the programs passes the resolver"""

    def __init__(self, rng):
        self.r = rng
        self.next_id = 0

    def fresh(self):
        self.next_id += 1
        return self.next_id

    def use_name(self, env):
        k = self.r.random()
        if env and k < 0.8:
            return self.r.choice(env)
        if k < 0.9:
            return self.r.choice([50, 51, 52])
        return self.r.choice([10, 11, 12, 13, 14])

    def decl_name(self, env):
        if env and self.r.random() < 0.25:
            return self.r.choice([n for n in env if n < 50] or [10])   # shadow / duplicate on purpose
        return self.r.choice([10, 11, 12, 13, 14, 15, 16, 17])

    def params(self, env):
        return [(self.decl_name(env), self.fresh()) for _ in range(self.r.choice([0, 0, 1, 1, 2]))]

    def expr_items(self, d, env):
        out = []
        for _ in range(self.r.choice([0, 1, 1, 2, 3])):
            if d < 3 and self.r.random() < 0.3:
                ps = self.params(env)
                out.append(("m", ps, self.items(d + 1, env + [p[0] for p in ps])))
            else:
                out.append(("u", self.use_name(env)))
        return out

    def item(self, d, env):
        k = self.r.random()
        if d >= 4:
            k *= 0.45
        if k < 0.3:
            return ("u", self.use_name(env))
        if k < 0.45:
            n = self.decl_name(env)
            it = ("l", n, self.fresh(), self.expr_items(d, env))
            env.append(n)
            return it
        if k < 0.58:
            n = self.decl_name(env)
            env.append(n)
            ps = self.params(env)
            return ("f", n, self.fresh(), ps, self.items(d + 1, env + [p[0] for p in ps]))
        if k < 0.66:
            ps = self.params(env)
            return ("m", ps, self.items(d + 1, env + [p[0] for p in ps]))
        if k < 0.76:
            return ("b", self.items(d + 1, list(env)))
        if k < 0.9:
            x = self.decl_name(env)
            # the iterable is outside the scope of the loop variable: in a third of the loops it mentions that name anyway
            # (an outer declaration of the same name, or an undeclared name: a diagnostic)
            it_env = env if self.r.random() < 0.65 else env + [x, x]
            return ("r", x, self.fresh(), self.expr_items(d, it_env), self.items(d + 1, env + [x]))
        n = self.decl_name(env) if self.r.random() < 0.9 else 50     # `catch Error …`: the variable shadows the global class
        cls = self.r.choice([50, 50, 52]) if self.r.random() < 0.6 else self.use_name(env + [n, n])
        # `catch e { }` (no class) looks the default class `Error` up: same events as `catch e: Error { }`
        return ("c", n, self.fresh(), cls, self.items(d + 1, env + [n]), cls == 50 and self.r.random() < 0.4)

    def items(self, d, env=None):
        env = [] if env is None else env
        return [self.item(d, env) for _ in range(self.r.choice([0, 1, 1, 2, 2, 3, 4]))]


def skel_ser(items):
    def ps(p):
        return " ".join("%d %d" % x for x in p) + (" ;" if p else ";")

    def it(x):
        t = x[0]
        if t == "u":
            return "u %d" % x[1]
        if t == "l":
            return "l %d %d %s" % (x[1], x[2], skel_ser(x[3]))
        if t == "f":
            return "f %d %d %s %s" % (x[1], x[2], ps(x[3]), skel_ser(x[4]))
        if t == "m":
            return "m %s %s" % (ps(x[1]), skel_ser(x[2]))
        if t == "b":
            return "b %s" % skel_ser(x[1])
        if t == "r":
            return "r %d %d %s %s" % (x[1], x[2], skel_ser(x[3]), skel_ser(x[4]))
        return "c %d %d %d %s" % (x[1], x[2], x[3], skel_ser(x[4]))
    return "[ " + " ".join(it(x) for x in items) + " ]" if items else "[ ]"


def skel_src(items, ind=0):
    pad = "  " * ind

    def plist(p):
        return ", ".join(_nm(n) for n, _ in p)

    def expr(x):
        if x[0] == "u":
            return _nm(x[1])
        return "|%s| {\n%s%s}" % (plist(x[1]), skel_src(x[2], ind + 1), pad)

    out = []
    for x in items:
        t = x[0]
        if t == "u":
            out.append("%s%s;" % (pad, _nm(x[1])))
        elif t == "l":
            out.append("%slet %s = [%s];" % (pad, _nm(x[1]), ", ".join(expr(e) for e in x[3])))
        elif t == "f":
            out.append("%sfn %s(%s) {\n%s%s}" % (pad, _nm(x[1]), plist(x[3]), skel_src(x[4], ind + 1), pad))
        elif t == "m":
            out.append("%s%s;" % (pad, expr(x)))
        elif t == "b":
            out.append("%sif true {\n%s%s}" % (pad, skel_src(x[1], ind + 1), pad))
        elif t == "r":
            out.append("%sfor %s in [%s] {\n%s%s}" % (pad, _nm(x[1]), ", ".join(expr(e) for e in x[3]), skel_src(x[4], ind + 1), pad))
        else:
            cls = "" if len(x) > 5 and x[5] else ": " + _nm(x[3])
            out.append("%stry { } catch %s%s {\n%s%s}" % (pad, _nm(x[1]), cls, skel_src(x[4], ind + 1), pad))
    return "".join(o + "\n" for o in out)


def gen_skeleton(rng):
    sk = Skeleton(rng)
    items = sk.items(0)
    return skel_ser(items), skel_src(items)
